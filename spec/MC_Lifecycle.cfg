SPECIFICATION Spec
CONSTANTS
  MaxOps = 5
  ExitMode = "assign"
  SetupGate = TRUE
  EigGate = "early"
  SetupOutcomes <- MC_SetupAny
INVARIANT NeverRaises
INVARIANT SetupFailureNeverErased
INVARIANT DependantsRefuse
INVARIANT ResetRestoresTimeClass
PROPERTY FailureLeavesNonZero
CHECK_DEADLOCK FALSE
