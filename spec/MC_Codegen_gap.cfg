SPECIFICATION Spec
CONSTANTS
  MaxVer = 3
  MaxOps = 6
  HashCovers = FALSE
INVARIANT NeverSilentlyStale
INVARIANT UsedCodeMatchesModel
CHECK_DEADLOCK FALSE
