---- MODULE Scen_Storage ----
(* the configuration product explored by MC_Storage, as data for replay into the real code *)
EXTENDS Integers, Sequences, FiniteSets, TLC, Json, IOUtils
Cfgs == { [save_every |-> se, limit_store |-> ls, max_store |-> ms, segs |-> sg] :
            se \in {0, 1, 2, 3}, ls \in BOOLEAN, ms \in {2, 3, 5}, sg \in {<<6>>, <<3, 4>>, <<6, 1>>, <<2, 2, 3>>} }
ASSUME JsonSerialize(IOEnv.OUT, [cfg |-> Cfgs])
====
