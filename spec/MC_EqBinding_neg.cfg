SPECIFICATION Spec
CONSTANTS
  Vars = {"x", "y", "z"}
  OrderInChecksum = FALSE
INVARIANT DeliveredToDeclared
CHECK_DEADLOCK FALSE
