SPECIFICATION Spec
CONSTANTS
  Models <- MC_Models
  Requests <- MC_Requests
  MaxAdds = 4
INVARIANT IdxUniqueInGroup
INVARIANT ExplicitFreeIdxKept
INVARIANT AutoIdxNamesOwnModel
CHECK_DEADLOCK FALSE
