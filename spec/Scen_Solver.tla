---- MODULE Scen_Solver ----
(* call sequences on one solver instance for replay: matrix ids as in MC_SolverCache; ops solve / linsolve / flags *)
EXTENDS Integers, Sequences, FiniteSets, TLC, Json, IOUtils
Calls == {[op |-> o, A |-> a] : o \in {"solve", "linsolve"}, a \in 1..5} \cup {[op |-> "set_factorize", A |-> 0], [op |-> "set_new_A", A |-> 0], [op |-> "clear", A |-> 0]}
Seqs(n) == [1..n -> Calls]
ASSUME JsonSerialize(IOEnv.OUT, [seq2 |-> Seqs(2), seq3 |-> Seqs(3)])
====
