---- MODULE Scen_ShuntSw ----
(* call sequences of the switched-shunt adjuster with the levels the step operator of ShuntSw.tla prescribes after each call *)
EXTENDS ShuntSw, Json, IOUtils
TimePatterns == {<<PF, 0, 1, 3>>, <<PF, PF, 2, 4>>, <<PF, 0, 2, 3>>, <<0, 1, 2, 4>>, <<PF, 1, 3, 4>>}
ZonePairs == {<<"low", "low">>, <<"low", "high">>, <<"high", "in">>, <<"in", "low">>}
Z(p) == [d \in Dev |-> p[d]]
Inits == { [sel |-> s, tLast |-> [d \in Dev |-> 0], on |-> o] : s \in {<<0, 2>>, <<1, 1>>}, o \in {<<TRUE, TRUE>>, <<TRUE, FALSE>>} }
RECURSIVE Run(_, _, _)
Run(st, calls, k) == IF k > Len(calls) THEN <<>> ELSE LET s2 == Eval(st, calls[k]) IN <<[sel |-> s2.sel, tLast |-> s2.tLast]>> \o Run(s2, calls, k + 1)
Cases == { [init |-> i, calls |-> c, after |-> Run(i, c, 1)] :
           i \in Inits,
           c \in { [k \in 1..4 |-> [t |-> tp[k], zone |-> Z(zs[k]), open |-> (k # 2 \/ o2)]] :
                   tp \in TimePatterns, zs \in [1..4 -> ZonePairs], o2 \in BOOLEAN } }
ASSUME JsonSerialize(IOEnv.OUT, [cases |-> Cases, MaxSel |-> MaxSel, Dt |-> Dt])
====
