---- MODULE Trace_Codegen ----
(***************************************************************************)
(* Recorded sequences of edit / prepare / System() / corrupt / delete on a   *)
(* scratch pycode directory are validated against Codegen: every recorded    *)
(* step takes the Codegen action of the same name; the observation logged    *)
(* by the harness (which version's numbers the loaded functions compute,     *)
(* whether stale code was reported, whether anything raised) is compared     *)
(* with the action's post-state (conformance layer -> drift) and judged by   *)
(* the C02 clauses (property layer -> viol).                                 *)
(***************************************************************************)
EXTENDS Codegen, Json, IOUtils
Traces == JsonDeserialize(IOEnv.TRACE_FILE)
VARIABLES tid, l, viol, drift
tvars == <<vars, tid, l, viol, drift>>
Ev(i) == Traces[i].ev
Add(S, c, name) == IF c THEN S ELSE S \cup {name}
TInit == Init /\ tid \in 1..Len(Traces) /\ l = 1 /\ viol = {} /\ drift = {}
IsEdit(e) == e.op \in {"edit_e", "edit_v", "edit_iter", "edit_svc", "edit_ext", "edit_iter2", "edit_order"}
IsLoad(e) == e.op \in {"undill_auto", "undill_noauto"}
Action(e) == CASE IsEdit(e) -> EditTo(e.content)
               [] e.op = "prepare" -> Prepare
               [] e.op = "undill_auto" -> Undill(TRUE)
               [] e.op = "undill_noauto" -> Undill(FALSE)
               [] e.op = "corrupt" -> Corrupt
               [] e.op \in {"trunc_funcs", "trunc_lists"} -> (IF disk.kind = "file" THEN Truncate ELSE Op("truncate") /\ UNCHANGED <<modelVer, hashVer, disk, loaded, reported, raised>>)
               [] e.op = "delete" -> Delete
Judge(e) ==
    LET ran == (IsLoad(e) \/ e.op = "prepare") /\ ~e.raised
        v1 == Add(viol, ~(IsLoad(e) /\ ran) \/ e.used_ver = modelVer' \/ e.reported_stale, "StaleCodeNeverSilentlyUsed:" \o e.op)
        v2 == Add(v1, ~(e.op = "undill_auto" /\ ran) \/ e.used_ver = modelVer', "AutomaticRegenerationUsesCurrentModel:" \o e.op)
        v3 == Add(v2, ~(e.op = "prepare") \/ (ran /\ e.used_ver = modelVer'), "GeneratedCodeIsCurrentModel:" \o e.op)
        (* code that was reported stale may compute anything (its values may even reach the wrong variables) *)
        v4 == Add(v3, ~ran \/ e.reported_stale \/ e.values_ok, "LoadedFunctionsComputeDeclaredEquations:" \o e.op)
    IN v4
Conform(e) ==
    IF ~(IsLoad(e) \/ e.op = "prepare") THEN drift
    ELSE LET d1 == Add(drift, e.raised = raised', "raised_differs_from_model:" \o e.op)
             (* stale code that was reported and not regenerated may compute no version's numbers (used_ver = 0) *)
             d2 == Add(d1, e.raised \/ raised' \/ e.used_ver = loaded' \/ (reported' /\ e.used_ver = 0), "loaded_version_differs_from_model:" \o e.op)
             d3 == Add(d2, e.raised \/ raised' \/ e.reported_stale = reported', "stale_report_differs_from_model:" \o e.op)
         IN d3
OnDet(e) == Add(Add(viol, e.identical, "RegenerationIsDeterministic"), e.md5_matches, "RecordedChecksumIsModelChecksum")
Consume ==
    /\ l <= Len(Ev(tid))
    /\ LET e == Ev(tid)[l] IN
         IF e.e = "op" THEN Action(e) /\ viol' = Judge(e) /\ drift' = Conform(e)
         ELSE IF e.e = "determinism" THEN viol' = OnDet(e) /\ UNCHANGED <<vars, drift>>
         ELSE UNCHANGED <<vars, viol, drift>>
    /\ l' = l + 1 /\ UNCHANGED tid
    /\ (l = Len(Ev(tid))) => PrintT(ToJson([tid |-> Traces[tid].meta.tid, viol |-> viol', drift |-> drift', n |-> Len(Ev(tid))]))
TSpec == TInit /\ [][Consume]_tvars
====
