SPECIFICATION Spec
CONSTANTS
  Mats <- MC_Mats
  Lib = "umfpack"
  Mode = "found"
  MaxCalls = 5
INVARIANT Solves
INVARIANT SingularSignalled
CHECK_DEADLOCK FALSE
