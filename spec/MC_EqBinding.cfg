SPECIFICATION Spec
CONSTANTS
  Vars = {"x", "y", "z"}
  OrderInChecksum = TRUE
INVARIANT DeliveredToDeclared
CHECK_DEADLOCK FALSE
