---- MODULE MC_Build ----
EXTENDS Build
MC_Models == {"PV", "Slack"}
MC_Requests == {"none", "i1", "i2", "PV_1", "PV_2", "Slack_2", "PV_3"}
====
