-------------------------- MODULE Trace_Connectivity --------------------------
(* Validation of recorded results of System.connectivity() and of ConnMan propagation against the *)
(* graph-theoretic definitions of Connectivity.tla (evaluated by TLC on the logged graph).        *)
EXTENDS Integers, Sequences, FiniteSets, TLC, Json, IOUtils

Traces == JsonDeserialize(IOEnv.TRACE_FILE)
VARIABLES tid, l, s
vars == <<tid, l, s>>
Ev(i) == Traces[i].ev
Range(f) == {f[x] : x \in DOMAIN f}

(* the definitions of Connectivity.tla (constant-level part) *)
Adj(edges, b) == {e[2] : e \in {x \in edges : x[1] = b}} \cup {e[1] : e \in {x \in edges : x[2] = b}}
Isolated(buses, edges) == {b \in buses : ~\E e \in edges : e[1] = b \/ e[2] = b}
RECURSIVE Reach(_, _)
Reach(edges, S) == LET T == S \cup UNION {Adj(edges, b) : b \in S} IN IF T = S THEN S ELSE Reach(edges, T)
Components(buses, edges) == {Reach(edges, {b}) : b \in buses \ Isolated(buses, edges)}

Init == tid \in 1..Len(Traces) /\ l = 1 /\ s = [viol |-> {}, drift |-> {}]
Add(S, c, name) == IF c THEN S ELSE S \cup {name}

(* event "conn": graph and what connectivity() reported (0-based bus positions) *)
OnConn(e) ==
    LET buses == 0..(e.n - 1)
        edges == {<<x[1], x[2]>> : x \in Range(e.edges_on)}
        iso == Isolated(buses, edges)
        comps == Components(buses, edges)
        repIso == Range(e.islanded)
        repSets == {Range(x) : x \in Range(e.island_sets)}
        repAll == {Range(x) : x \in Range(e.islands)}
        nsl(c) == Cardinality({k \in DOMAIN e.slacks : e.slacks[k].u = 1 /\ e.slacks[k].bus \in c})
        nosw == {Range(e.island_sets[k + 1]) : k \in Range(e.nosw)}
        msw == {Range(e.island_sets[k + 1]) : k \in Range(e.msw)}
        v1 == Add(s.viol, repIso = iso, "IsolatedBusesAreDegreeZero")
        v2 == Add(v1, repSets = comps, "IslandsAreConnectedComponents")
        v3 == Add(v2, repAll = comps \cup {{b} : b \in iso}, "IslandListIsComponentsPlusIsolated")
        v4 == Add(v3, nosw = {c \in comps : nsl(c) = 0}, "NoSlackIslandsClassified")
        v5 == Add(v4, msw = {c \in comps : nsl(c) > 1}, "MultiSlackIslandsClassified")
        v6 == Add(v5, Len(e.island_sets) = Cardinality(repSets), "EachIslandReportedOnce")
    IN [s EXCEPT !.viol = v6]

(* event "pflow": isolated buses neutralised - the power flow is not spoiled by them *)
OnPflow(e) ==
    LET v1 == Add(s.viol, ~e.expect_solvable \/ e.converged, "IsolatedBusesDoNotSpoilConvergence")
        v2 == Add(v1, ~e.converged \/ e.isolated_residual_zero, "IsolatedBusesNeutralised")
    IN [s EXCEPT !.viol = v2]

(* event "busoff": device statuses before / after switching buses off and re-initialising *)
OnBusOff(e) ==
    LET off == Range(e.off)
        exp(d) == IF \E b \in Range(e.devs[d].buses) : b \in off THEN 0 ELSE e.devs[d].u0
        bad == {d \in DOMAIN e.devs : e.devs[d].u1 # exp(d)}
        v1 == Add(s.viol, ~e.raised, "BusOffNeverRaises")
        v2 == Add(v1, e.raised \/ {d \in bad : exp(d) = 0} = {}, "DevicesOnOffBusSwitchedOff")
        v3 == Add(v2, e.raised \/ {d \in bad : exp(d) # 0} = {}, "NothingElseSwitched")
    IN [s EXCEPT !.viol = v3]

(* event "seqstep": a connection state reached through a history of states, against a fresh system in the same state *)
OnSeq(e) ==
    LET v1 == Add(s.viol, e.same_islands, "IslandsIndependentOfHistory")
        v2 == Add(v1, e.same_success, "PowerFlowOutcomeIndependentOfHistory")
        v3 == Add(v2, e.same_solution, "PowerFlowSolutionIndependentOfHistory")
    IN [s EXCEPT !.viol = v3]

Consume ==
    /\ l <= Len(Ev(tid))
    /\ LET e == Ev(tid)[l]
       IN s' = CASE e.e = "conn" -> OnConn(e) [] e.e = "pflow" -> OnPflow(e) [] e.e = "busoff" -> OnBusOff(e)
                 [] e.e = "seqstep" -> OnSeq(e) [] OTHER -> s
    /\ l' = l + 1 /\ UNCHANGED tid
    /\ (l = Len(Ev(tid))) => PrintT(ToJson([tid |-> Traces[tid].meta.tid, viol |-> s'.viol, drift |-> s'.drift, n |-> Len(Ev(tid))]))
Spec == Init /\ [][Consume]_vars
=============================================================================
