-------------------------------- MODULE PerUnitK--------------------------------
(***************************************************************************)
(* Per-unit conversion factors (System.calc_pu_coeff) and the two value     *)
(* bases of a parameter under alter / set / reset (Model.alter, Model.set,  *)
(* NumParam.set_pu_coeff / restore, System.reset).                          *)
(*  K(kind) is the textbook ratio of device base (Sn, Vn) to system / bus    *)
(*  base (Sb, Vb):  voltage Vn/Vb, power Sn/Sb, ipower Sb/Sn,                *)
(*  current (Sn/Vn)/(Sb/Vb), z (Vn^2/Sn)/(Vb^2/Sb), y its inverse.          *)
(***************************************************************************)
EXTENDS Integers, Sequences, FiniteSets, TLC, Rat, Json, IOUtils

Kinds == {"voltage", "power", "ipower", "current", "z", "y"}
K(kind, Sn, Vn, Sb, Vb) ==
    CASE kind = "voltage" -> RDiv(Vn, Vb)
      [] kind = "power"   -> RDiv(Sn, Sb)
      [] kind = "ipower"  -> RDiv(Sb, Sn)
      [] kind = "current" -> RDiv(RDiv(Sn, Vn), RDiv(Sb, Vb))
      [] kind = "z"       -> RDiv(RDiv(RMul(Vn, Vn), Sn), RDiv(RMul(Vb, Vb), Sb))
      [] OTHER            -> RDiv(RDiv(RMul(Vb, Vb), Sb), RDiv(RMul(Vn, Vn), Sn))

(* the same factors in terms of the two base ratios rv = Vn/Vb and rs = Sn/Sb (keeps integers small) *)
K2(kind, rv, rs) ==
    CASE kind = "voltage" -> rv
      [] kind = "power"   -> rs
      [] kind = "ipower"  -> RDiv(ROne, rs)
      [] kind = "current" -> RDiv(rs, rv)
      [] kind = "z"       -> RDiv(RMul(rv, rv), rs)
      [] OTHER            -> RDiv(rs, RMul(rv, rv))

(* DC quantities: device rating (Vdcn, Idcn) against the DC node voltage base and the current base Sb / Vdcb;             *)
(* rvd = Vdcn/Vdcb, rid = Idcn/Idcb; a resistance converts with (Vdcn/Idcn)/(Vdcb/Idcb), a conductance-like quantity       *)
(* (capacitance) with the inverse                                                                                          *)
DCKinds == {"dc_voltage", "dc_current", "r", "g"}
KDC(kind, rvd, rid) ==
    CASE kind = "dc_voltage" -> rvd
      [] kind = "dc_current" -> rid
      [] kind = "r"          -> RDiv(rvd, rid)
      [] OTHER               -> RDiv(rid, rvd)
ASSUME \A rvd \in {Q(2, 1), Q(1, 2), ROne}, rid \in {Q(1, 2), Q(3, 1), ROne} :
    /\ REq(RMul(KDC("r", rvd, rid), KDC("g", rvd, rid)), ROne)
    /\ REq(RMul(KDC("r", rvd, rid), KDC("dc_current", rvd, rid)), KDC("dc_voltage", rvd, rid))

(* identities every consistent set of factors satisfies - checked on a grid *)
GS == {Q(100, 1), Q(900, 1), Q(50, 1)}
GV == {Q(230, 1), Q(20, 1), Q(69, 5)}
ASSUME \A Sn \in GS, Sb \in GS, Vn \in GV, Vb \in GV :
    /\ REq(RMul(K("z", Sn, Vn, Sb, Vb), K("y", Sn, Vn, Sb, Vb)), ROne)
    /\ REq(RMul(K("power", Sn, Vn, Sb, Vb), K("ipower", Sn, Vn, Sb, Vb)), ROne)
    /\ REq(RMul(K("current", Sn, Vn, Sb, Vb), K("voltage", Sn, Vn, Sb, Vb)), K("power", Sn, Vn, Sb, Vb))
    /\ REq(RMul(K("z", Sn, Vn, Sb, Vb), K("power", Sn, Vn, Sb, Vb)), RMul(K("voltage", Sn, Vn, Sb, Vb), K("voltage", Sn, Vn, Sb, Vb)))
    /\ (Sn = Sb /\ Vn = Vb) => \A k \in Kinds : REq(K(k, Sn, Vn, Sb, Vb), ROne)
    /\ \A k \in Kinds : REq(K(k, Sn, Vn, Sb, Vb), K2(k, RDiv(Vn, Vb), RDiv(Sn, Sb)))
=============================================================================
