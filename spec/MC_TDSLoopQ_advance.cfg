SPECIFICATION Spec
CONSTANTS
  TimerIds <- MC_TimerIds
  DevOf <- MC_DevOf
  KindOf <- MC_KindOf
  Taus <- MC_Taus
  SegChoices <- MC_SegChoices
  Tstep = 20
  Eps = 10
  FixTs <- MC_FixTs
  ShrinkTs <- MC_ShrinkTs
  DMax0 = 12
  DMin0 = 2
  MaxFail = 1
  MaxNaN = 0
  MaxCrit = 0
  SaveEverys <- MC_SaveEverys
  SkipMode = "advance"
  Classes <- MC_Classes
INVARIANT TypeOK
INVARIANT ExactlyOnceExceptT0
INVARIANT T0NeverFires
INVARIANT NeverTwice
INVARIANT NeverEarlyOrLate
INVARIANT DisabledNeverFires
INVARIANT ExpectedStatusExceptT0
INVARIANT SuccessIffAtTf
INVARIANT StepBound
PROPERTY NoStepCrossesSwitch
PROPERTY StoredIncreasing
PROPERTY FailureBumpsExit
PROPERTY RejectKeepsTime
PROPERTY RowPerKeptStep
CONSTRAINT DepthBound
CHECK_DEADLOCK FALSE
