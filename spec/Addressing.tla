------------------------------- MODULE Addressing -------------------------------
(***************************************************************************)
(* Allocation of slots of the global state / algebraic vectors             *)
(* (DAE.request_address, System.set_address phases 1-3, two rounds: power  *)
(* flow models at set-up, dynamic models at TDS.init).                     *)
(* A model is [ns, na, collate, pflow]; device counts are chosen in Init.  *)
(***************************************************************************)
EXTENDS Integers, Sequences, FiniteSets, TLC

CONSTANTS ModelIds, Shape,     \* Shape: [ModelIds -> [ns : Nat, na : Nat, collate : BOOLEAN, pflow : BOOLEAN]]
          MaxDev

VARIABLES ndev,      \* [ModelIds -> 0..MaxDev]
          n, m,      \* counters
          xa, ya,    \* [ModelIds -> [var index -> [device -> slot]]]  (<<>> before allocation)
          done,      \* [ModelIds -> BOOLEAN]  flags.address
          phase,     \* 0 before set-up, 1 after set-up, 2 after TDS.init
          xa1, ya1   \* addresses as they were after phase 1 (history)
vars == <<ndev, n, m, xa, ya, done, phase, xa1, ya1>>

(* DAE.request_address *)
Block(begin, nd, nv, collate) ==
    [v \in 1..nv |-> [d \in 1..nd |-> IF collate THEN begin + (v - 1) + (d - 1) * nv ELSE begin + (v - 1) * nd + (d - 1)]]

Init == /\ ndev \in [ModelIds -> 0..MaxDev]
        /\ n = 0 /\ m = 0 /\ xa = [i \in ModelIds |-> <<>>] /\ ya = [i \in ModelIds |-> <<>>]
        /\ done = [i \in ModelIds |-> FALSE] /\ phase = 0 /\ xa1 = xa /\ ya1 = ya

(* one round of set_address over the models selected for the round, in model order *)
RECURSIVE Allocate(_, _)
Allocate(st, todo) ==
    IF todo = {} THEN st
    ELSE LET i == CHOOSE x \in todo : \A y \in todo : x <= y
             skip == st.done[i] \/ ndev[i] = 0
             s2 == IF skip THEN st
                   ELSE [st EXCEPT !.xa[i] = Block(st.n, ndev[i], Shape[i].ns, Shape[i].collate),
                                   !.ya[i] = Block(st.m, ndev[i], Shape[i].na, Shape[i].collate),
                                   !.n = st.n + ndev[i] * Shape[i].ns, !.m = st.m + ndev[i] * Shape[i].na,
                                   !.done[i] = TRUE]
         IN Allocate(s2, todo \ {i})

Round(sel) ==
    LET r == Allocate([n |-> n, m |-> m, xa |-> xa, ya |-> ya, done |-> done], sel)
    IN n' = r.n /\ m' = r.m /\ xa' = r.xa /\ ya' = r.ya /\ done' = r.done

Setup == /\ phase = 0 /\ Round({i \in ModelIds : Shape[i].pflow}) /\ phase' = 1
         /\ xa1' = xa' /\ ya1' = ya' /\ UNCHANGED ndev
TDSInit == /\ phase = 1 /\ Round(ModelIds) /\ phase' = 2 /\ UNCHANGED <<ndev, xa1, ya1>>
Next == Setup \/ TDSInit
Spec == Init /\ [][Next]_vars

-----------------------------------------------------------------------------
Slots(a) == {a[i][v][d] : i \in {j \in ModelIds : a[j] # <<>>}, v \in 1..10, d \in 1..MaxDev} 
SlotSet(a, i) == IF a[i] = <<>> THEN {} ELSE UNION {{a[i][v][d] : d \in DOMAIN a[i][v]} : v \in DOMAIN a[i]}
AllSlots(a) == UNION {SlotSet(a, i) : i \in ModelIds}
Count(a) == LET RECURSIVE Sum(_)
                Sum(S) == IF S = {} THEN 0 ELSE LET i == CHOOSE x \in S : TRUE
                                                 IN (IF a[i] = <<>> THEN 0 ELSE Len(a[i]) * ndev[i]) + Sum(S \ {i})
            IN Sum(ModelIds)

(* C10: every variable of every device owns exactly one slot and all slots are owned *)
Bijection == phase > 0 => /\ AllSlots(xa) = 0..(n - 1) /\ Count(xa) = n
                          /\ AllSlots(ya) = 0..(m - 1) /\ Count(ya) = m
(* C10: the second round only extends: addresses given at set-up are kept *)
SecondRoundKeepsFirst == phase = 2 => \A i \in ModelIds : Shape[i].pflow => (xa[i] = xa1[i] /\ ya[i] = ya1[i])
(* every model with devices is addressed after the round that covers it *)
AllAddressed == phase = 2 => \A i \in ModelIds : ndev[i] > 0 => done[i]
=============================================================================
