---- MODULE Trace_TimeSeries ----
(* C06 clauses for time-series updates on records of real runs (vh/tsdrv.py) *)
EXTENDS Integers, Sequences, FiniteSets, TLC, Json, IOUtils
Traces == JsonDeserialize(IOEnv.TRACE_FILE)
VARIABLES tid, l, s
vars == <<tid, l, s>>
Ev(i) == Traces[i].ev
Add(S, c, name) == IF c THEN S ELSE S \cup {name}
Init == tid \in 1..Len(Traces) /\ l = 1 /\ s = [viol |-> {}, drift |-> {}]
OnTs(e) ==
    LET v0 == Add(s.viol, ~e.raised, "RunNeverRaises")
        v1 == Add(v0, e.raised \/ e.applied_at_stamp, "TimeSeriesRowTakesEffectExactlyAtItsStamp")
        v2 == Add(v1, e.raised \/ e.step_ends_at_stamp, "StepEndsAtTimeSeriesStamp")
        v3 == Add(v2, e.raised \/ e.increasing, "StoredTimesIncrease")
        v4 == Add(v3, e.raised \/ ~e.success \/ e.ends_at_tf, "SuccessIffAtTf")
        v5 == Add(v4, e.raised \/ e.other_untouched, "OnlyAddressedDevice")
    IN [s EXCEPT !.viol = v5, !.drift = Add(@, e.raised \/ e.success, "run_did_not_complete")]
Consume ==
    /\ l <= Len(Ev(tid))
    /\ LET e == Ev(tid)[l] IN s' = IF e.e = "ts" THEN OnTs(e) ELSE s
    /\ l' = l + 1 /\ UNCHANGED tid
    /\ (l = Len(Ev(tid))) => PrintT(ToJson([tid |-> Traces[tid].meta.tid, viol |-> s'.viol, drift |-> s'.drift, n |-> Len(Ev(tid))]))
Spec == Init /\ [][Consume]_vars
====
