---- MODULE Scen_Codegen ----
(* operation sequences for replay on a scratch pycode directory with a probe model: all of length <= 3 and a *)
(* residue-class sample of the 14^5 sequences of length 5                                                   *)
EXTENDS Integers, Sequences, FiniteSets, TLC, Json, IOUtils
OpSeq == <<"edit_e", "edit_v", "edit_iter", "edit_svc", "edit_ext", "edit_iter2", "edit_order", "prepare", "undill_auto", "undill_noauto", "corrupt", "delete", "trunc_funcs", "trunc_lists">>
Ops == {OpSeq[k] : k \in 1..Len(OpSeq)}
Seqs(n) == [1..n -> Ops]
Digit(i, k) == (i \div (14 ^ k)) % 14
Decode5(i) == [k \in 1..5 |-> OpSeq[Digit(i, k - 1) + 1]]
IsLoad(o) == o \in {"undill_auto", "undill_noauto"}
Interesting(s) == IsLoad(s[5]) /\ \E k \in 1..4 : ~IsLoad(s[k]) /\ s[k] # "prepare"
Seq5(m, r) == {s \in {Decode5(i) : i \in {j \in 0..(14 ^ 5 - 1) : j % m = r}} : Interesting(s)}
M == atoi(IOEnv.M)
R == atoi(IOEnv.R)
ASSUME JsonSerialize(IOEnv.OUT, [seq1 |-> Seqs(1), seq2 |-> Seqs(2), seq3 |-> Seqs(3), seq5 |-> Seq5(M, R)])
====
