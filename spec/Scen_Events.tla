---------------------------- MODULE Scen_Events ----------------------------
(* Scenario spaces for event kinds beyond Toggle, enumerated by TLC for replay (M1/M2):   *)
(*   two Fault devices (apply tf / clear tc each) with coincident and ordered times,       *)
(*   an Alter next to a Toggle, refresh_event on/off.                                       *)
EXTENDS Integers, Sequences, FiniteSets, TLC, Json, IOUtils
FTaus == {0, 10, 20, 30, 40, 60}
FaultPairs == { <<a, b>> \in FTaus \X FTaus : a < b }
FaultScen == { [f1 |-> p, f2 |-> q, en2 |-> e2, refresh |-> r, segs |-> sg] :
                 p \in FaultPairs, q \in FaultPairs, e2 \in BOOLEAN, r \in BOOLEAN,
                 sg \in {<<40>>, <<20, 40>>} }
ATaus == {0, 10, 15, 40, 50}
AlterScen == { [alter |-> a, method |-> m, toggle |-> tg, en |-> e, refresh |-> r, segs |-> sg] :
                 a \in ATaus, m \in {"+", "-", "*", "/", "="}, tg \in ATaus, e \in BOOLEAN, r \in BOOLEAN,
                 sg \in {<<40>>, <<15, 40>>} }
ASSUME JsonSerialize(IOEnv.OUT, [fault |-> FaultScen, alter |-> AlterScen])
=============================================================================
