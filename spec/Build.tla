--------------------------------- MODULE Build ---------------------------------
(***************************************************************************)
(* Device registration (System.add, GroupBase.get_next_idx / add): an idx   *)
(* is unique within a group across all models of the group; an explicit    *)
(* free idx is kept; a missing or used idx is replaced by a fresh           *)
(* "<Model>_<k>" (k counts from group size + 1 upward until free).           *)
(* Explicit idx values may themselves look like automatic ones.             *)
(***************************************************************************)
EXTENDS Integers, Sequences, FiniteSets, TLC

CONSTANTS Models,       \* models of one group, e.g. {"PV", "Slack"}
          Requests,     \* explicit idx values a user may supply, plus "none"
          MaxAdds

VARIABLES reg,          \* sequence of [model, idx, req] in order of addition
          warned        \* number of "idx is used" warnings
vars == <<reg, warned>>

Auto(m, k) == m \o "_" \o ToString(k)   \* the automatic idx "<m>_<k>"
Used == {reg[i].idx : i \in DOMAIN reg}

RECURSIVE Fresh(_, _)
Fresh(m, k) == IF Auto(m, k) \in Used THEN Fresh(m, k + 1) ELSE Auto(m, k)

NextIdx(m, req) == IF req # "none" /\ req \notin Used THEN req ELSE Fresh(m, Len(reg) + 1)

Init == reg = <<>> /\ warned = 0
Add(m, req) ==
    /\ Len(reg) < MaxAdds
    /\ reg' = Append(reg, [model |-> m, idx |-> NextIdx(m, req), req |-> req])
    /\ warned' = warned + (IF req # "none" /\ req \in Used THEN 1 ELSE 0)
Next == \E m \in Models, r \in Requests : Add(m, r)
Spec == Init /\ [][Next]_vars

IdxUniqueInGroup == \A i, j \in DOMAIN reg : i # j => reg[i].idx # reg[j].idx
ExplicitFreeIdxKept == \A i \in DOMAIN reg :
    (reg[i].req # "none" /\ ~\E j \in 1..(i - 1) : reg[j].idx = reg[i].req) => reg[i].idx = reg[i].req
AutoIdxNamesOwnModel == \A i \in DOMAIN reg : (reg[i].idx # reg[i].req) =>
                            \E k \in 1..(2 * MaxAdds + 2) : reg[i].idx = Auto(reg[i].model, k)
=============================================================================
