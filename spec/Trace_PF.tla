---- MODULE Trace_PF ----
(* C01 / C03 clauses on records from real power-flow runs, encoding variants, lattice evaluations and Jacobian checks *)
EXTENDS Integers, Sequences, FiniteSets, TLC, Json, IOUtils
Traces == JsonDeserialize(IOEnv.TRACE_FILE)
VARIABLES tid, l, s
vars == <<tid, l, s>>
Ev(i) == Traces[i].ev
Add(S, c, name) == IF c THEN S ELSE S \cup {name}
Init == tid \in 1..Len(Traces) /\ l = 1 /\ s = [viol |-> {}, drift |-> {}]
OnRec(e) ==
    CASE e.e = "lattice" ->
           [s EXCEPT !.viol = Add(Add(s.viol, e.residual_ok, "PowerBalanceIsPhysicalData"), e.jacobian_ok, "JacobianIsExactDerivative")]
      [] e.e = "variant" ->
           [s EXCEPT !.viol = Add(Add(Add(s.viol, e.converged, "WellPosedNetworkConverges"), ~e.converged \/ e.same, "SolutionIndependentOfEncoding"),
                                  ~e.converged \/ e.resid_ok, "ConvergedMeansBalanced") \cup
                              (IF e.converged /\ ~e.indep_ok THEN {"ConvergedMeansBalancedFromPhysicalData"} ELSE {})]
      [] e.e = "qlim" ->      \* PV -> PQ conversion at reactive limits (SortedLimiter in the Newton loop)
           [s EXCEPT !.viol = Add(Add(Add(Add(Add(s.viol, e.sticky, "ConvertedGeneratorStaysConverted"),
                                                  ~e.converged \/ e.at_limit, "ConvertedGeneratorDeliversItsLimit"),
                                              ~e.converged \/ e.at_setpoint, "ControlledBusesAtSetPoint"),
                                          ~e.converged \/ e.onehot, "LimitFlagsOneHot"),
                                      ~e.converged \/ e.indep_ok, "ConvergedMeansBalancedFromPhysicalData"),
                     !.drift = Add(Add(s.drift, e.converged, "q_limited_network_did_not_converge"), ~e.converged \/ e.inside, "unconverted_generator_outside_limits")]
      [] e.e = "stock" ->
           [s EXCEPT !.viol = Add(Add(Add(Add(s.viol, ~e.raised, "PowerFlowNeverRaises"), ~e.converged \/ e.resid_ok, "ConvergedMeansBalanced"),
                                      ~e.converged \/ e.setpoints_ok, "ControlledBusesAtSetPoint"), ~e.converged \/ ~e.nan, "NoNaNSolution") \cup
                              (IF e.converged /\ ~e.indep_ok THEN {"ConvergedMeansBalancedFromPhysicalData"} ELSE {}) \cup
                              (IF e.converged /\ ~e.source_ok THEN {"ConvergedMeansBalancedFromSourceFile"} ELSE {})]
      [] e.e = "samecase" ->
           [s EXCEPT !.viol = Add(Add(s.viol, e.same_success, "VariantsAgreeOnSuccess"), e.same_solution, "VariantsAgreeOnSolution")]
      [] e.e = "jac" ->
           [s EXCEPT !.viol = Add(Add(Add(s.viol, e.fd_ok, "AssembledJacobianMatchesFiniteDifferences"), e.pattern_stable, "SparsityPatternStable"),
                                  e.modes_agree, "AccumulationModesGiveSameJacobian") \cup
                                  (IF e.mass_current THEN {} ELSE {"MassMatrixCarriesCurrentTimeConstants"})]
      [] e.e = "modeljac" ->      \* generated Jacobian functions of one model against difference quotients of its declared equations
           [s EXCEPT !.viol = Add(Add(Add(s.viol, e.entries_ok, "GeneratedJacobianIsDerivativeOfDeclaredEquation"),
                                      e.none_missing, "NoJacobianEntryMissing"), e.constants_on_diagonal, "ConstantEntriesOnDiagonal")]
      [] OTHER -> s
Consume ==
    /\ l <= Len(Ev(tid))
    /\ s' = OnRec(Ev(tid)[l])
    /\ l' = l + 1 /\ UNCHANGED tid
    /\ (l = Len(Ev(tid))) => PrintT(ToJson([tid |-> Traces[tid].meta.tid, viol |-> s'.viol, drift |-> s'.drift, n |-> Len(Ev(tid))]))
Spec == Init /\ [][Consume]_vars
====
