------------------------------- MODULE Storage -------------------------------
(***************************************************************************)
(* In-memory time series, off-loading to the npz file and resumed runs     *)
(* (andes/variables/dae.py DAETimeSeries, DAE.store / write_npz,            *)
(* andes/routines/tds.py run (store / off-load block, save_output)).       *)
(* Rows are abstract ids; "the values the solver held" is row identity.    *)
(* The unpacked arrays (ts.t, ts.txyz) are attributes that are refreshed    *)
(* only by unpack() or on first access (__getattr__): modelled as `view`.   *)
(***************************************************************************)
EXTENDS Integers, Sequences, FiniteSets, TLC, TDSLaws

CONSTANTS LimitStores, MaxStores, Outputs, SaveEverys, SegLens   \* sets to explore

VARIABLES limitStore, maxStore, output, saveEvery, segLens,       \* scenario
          pc, seg, k, kcount,
          mem,        \* rows in the dict storage (_xs/_ys), in insertion order
          view,       \* rows in the unpacked arrays
          hasView,    \* the unpacked attributes exist (no implicit refresh any more)
          file,       \* rows in the npz file
          idxPtr, wAppend,
          kept        \* history: every row the thinning rule kept, in order
vars == <<limitStore, maxStore, output, saveEvery, segLens, pc, seg, k, kcount, mem, view, hasView, file, idxPtr,
          wAppend, kept>>

Init ==
    /\ limitStore \in LimitStores /\ maxStore \in MaxStores /\ output \in Outputs /\ saveEvery \in SaveEverys
    /\ segLens \in SegLens
    /\ pc = "run" /\ seg = 1 /\ k = 0 /\ kcount = 0
    /\ mem = <<>> /\ view = <<>> /\ hasView = FALSE /\ file = <<>> /\ idxPtr = 0 /\ wAppend = FALSE /\ kept = <<>>

Drop(s, n) == IF n >= Len(s) THEN <<>> ELSE SubSeq(s, n + 1, Len(s))

(* reading ts.txyz / ts.t: refreshed from the dicts only when the attribute does not exist yet *)
Read == IF hasView THEN view ELSE mem

(* DAE.write_npz followed by TDS.save_output's idx_ptr update; returns the new (file, idxPtr, wAppend, view, hasView) *)
Save ==
    IF ~limitStore
    THEN [file |-> Read, ptr |-> Len(Read), app |-> wAppend, view |-> Read, has |-> TRUE]
    ELSE IF ~wAppend
    THEN [file |-> Drop(Read, idxPtr), ptr |-> Len(Read), app |-> TRUE, view |-> Read, has |-> TRUE]
    ELSE LET new == Drop(mem, idxPtr)                                   \* explicit unpack() first
         IN IF new = <<>> THEN [file |-> file, ptr |-> Len(mem), app |-> TRUE, view |-> mem, has |-> TRUE]
            ELSE [file |-> file \o new, ptr |-> Len(mem), app |-> TRUE, view |-> mem, has |-> TRUE]

(* one accepted step: store (thinned), then the off-load block *)
Step ==
    /\ pc = "run" /\ k < segLens[seg]
    /\ LET keep == KeepRow(saveEvery, kcount)
           id == kcount + 1
           mem1 == IF keep THEN Append(mem, id) ELSE mem
       IN /\ kept' = IF keep THEN Append(kept, id) ELSE kept
          /\ IF limitStore /\ Len(mem1) >= maxStore
             THEN IF output
                  THEN LET s == [file |-> (IF ~wAppend THEN Drop(IF hasView THEN view ELSE mem1, idxPtr)
                                            ELSE file \o Drop(mem1, idxPtr))]
                       IN /\ file' = s.file /\ wAppend' = TRUE
                          /\ mem' = <<>> /\ view' = <<>> /\ hasView' = TRUE /\ idxPtr' = 0
                  ELSE /\ mem' = <<>> /\ view' = <<>> /\ hasView' = TRUE /\ idxPtr' = 0
                       /\ UNCHANGED <<file, wAppend>>
             ELSE /\ mem' = mem1 /\ UNCHANGED <<view, hasView, file, idxPtr, wAppend>>
    /\ k' = k + 1 /\ kcount' = kcount + 1
    /\ UNCHANGED <<limitStore, maxStore, output, saveEvery, segLens, pc, seg>>

(* end of TDS.run: explicit unpack, then save_output when output is enabled *)
RunEnd ==
    /\ pc = "run" /\ k = segLens[seg]
    /\ IF output
       THEN LET v == mem
                s == IF ~limitStore THEN [file |-> v, ptr |-> Len(v), app |-> wAppend]
                     ELSE IF ~wAppend THEN [file |-> Drop(v, idxPtr), ptr |-> Len(v), app |-> TRUE]
                     ELSE IF Drop(v, idxPtr) = <<>> THEN [file |-> file, ptr |-> Len(v), app |-> TRUE]
                     ELSE [file |-> file \o Drop(v, idxPtr), ptr |-> Len(v), app |-> TRUE]
            IN file' = s.file /\ idxPtr' = s.ptr /\ wAppend' = s.app
       ELSE UNCHANGED <<file, idxPtr, wAppend>>
    /\ view' = mem /\ hasView' = TRUE
    /\ pc' = "done"
    /\ UNCHANGED <<limitStore, maxStore, output, saveEvery, segLens, seg, k, kcount, mem, kept>>

Resume ==
    /\ pc = "done" /\ seg < Len(segLens)
    /\ seg' = seg + 1 /\ k' = 0 /\ pc' = "run"
    /\ UNCHANGED <<limitStore, maxStore, output, saveEvery, segLens, kcount, mem, view, hasView, file, idxPtr, wAppend, kept>>

Next == Step \/ RunEnd \/ Resume
Spec == Init /\ [][Next]_vars

-----------------------------------------------------------------------------
IsPrefixOf(a, b) == Len(a) <= Len(b) /\ SubSeq(b, 1, Len(a)) = a
NoDup(s) == \A i, j \in 1..Len(s) : i # j => s[i] # s[j]

(* C15: with output enabled the file holds exactly the kept rows, in order, once each, at the end of every run *)
FileIsAllKeptRows == (pc = "done" /\ output) => file = kept
(* C15: without off-loading the memory holds exactly the kept rows *)
MemoryIsAllKeptRows == (pc = "done" /\ ~limitStore) => (mem = kept /\ view = kept)
(* C15: off-loading only ever moves rows: file followed by unsaved memory is the kept sequence *)
NothingLostOrRepeated == output => (NoDup(file) /\ IsPrefixOf(file, kept))
(* the arrays a user reads after the run are the rows in memory *)
ViewFreshAtEnd == pc = "done" => view = mem
=============================================================================
