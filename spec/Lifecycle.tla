------------------------------ MODULE Lifecycle ------------------------------
(***************************************************************************)
(* Routine gating, success flags and the process exit code across the      *)
(* routines of one System (andes/system.py setup/reset, routines/pflow.py  *)
(* run, routines/tds.py run, routines/eig.py run/_pre_check, main.py).     *)
(* Numerical outcomes are abstracted to nondeterministic classes; the      *)
(* bookkeeping (who may run when, what is returned, what happens to the    *)
(* exit code) is transcribed.                                              *)
(*                                                                         *)
(* ExitMode selects how PFlow.run writes the exit code:                    *)
(*   "assign"      exit_code = 0 if converged else 1   (the code as found:  *)
(*                 a converged power flow erases earlier failures)          *)
(*   "accumulate"  exit_code += 0 if converged else 1                       *)
(* EigGate selects EIG._pre_check: "late" (as found: continues into         *)
(* TDS.init after a failed power flow and raises) or "early" (refuses).     *)
(***************************************************************************)
EXTENDS Integers, Sequences, FiniteSets, TLC

CONSTANTS MaxOps, ExitMode, EigGate, SetupOutcomes,
          SetupGate    \* TRUE: PFlow.run refuses when System.setup failed (repaired code); FALSE: as found

VARIABLES
    setupOK,     \* did System.setup() succeed
    pf,          \* "none" | "ok" | "failed"
    tdsInit,     \* TDS.initialized
    tcls,        \* class of dae.t: "neg" | "zero" | "pos"
    busted,
    exitCode,
    failed,      \* history: some routine reported / suffered a failure since the process started
    lastOp, lastRet, lastRaised,
    nops

vars == <<setupOK, pf, tdsInit, tcls, busted, exitCode, failed, lastOp, lastRet, lastRaised, nops>>

Cap(n) == IF n > 3 THEN 3 ELSE n

Init ==
    /\ setupOK \in SetupOutcomes
    /\ pf = "none" /\ tdsInit = FALSE /\ tcls = "neg" /\ busted = FALSE
    /\ exitCode = (IF setupOK THEN 0 ELSE 1)
    /\ failed = ~setupOK
    /\ lastOp = "setup" /\ lastRet = setupOK /\ lastRaised = FALSE /\ nops = 0

Step(op) == /\ nops < MaxOps /\ nops' = nops + 1 /\ lastOp' = op

(* PFlow.run: always allowed; converged or not *)
PFlowRun(conv) ==
    /\ Step("pflow")
    /\ IF ~setupOK /\ SetupGate
       THEN \* refuses on a system whose set-up failed; the exit code is incremented, never reset
            /\ lastRet' = FALSE /\ lastRaised' = FALSE /\ exitCode' = Cap(exitCode + 1) /\ failed' = TRUE
            /\ UNCHANGED <<pf, setupOK, tdsInit, tcls, busted>>
       ELSE /\ pf' = IF conv THEN "ok" ELSE "failed"
            /\ exitCode' = IF ExitMode = "assign" THEN (IF conv THEN 0 ELSE 1) ELSE Cap(exitCode + (IF conv THEN 0 ELSE 1))
            /\ failed' = (failed \/ ~conv)
            /\ lastRet' = conv /\ lastRaised' = FALSE
            /\ UNCHANGED <<setupOK, tdsInit, tcls, busted>>

(* TDS.run: refuses when the power flow is not solved; otherwise initialises (t < 0) or resumes *)
TDSRun(ok, initOK) ==
    /\ Step("tds")
    /\ IF pf # "ok"
       THEN /\ lastRet' = FALSE /\ lastRaised' = FALSE /\ exitCode' = Cap(exitCode + 1) /\ failed' = TRUE
            /\ UNCHANGED <<pf, tdsInit, tcls, busted, setupOK>>
       ELSE /\ tdsInit' = TRUE
            /\ LET good == ok /\ ~busted
                   initBump == IF ~tdsInit /\ ~initOK THEN 1 ELSE 0
               IN /\ lastRet' = good /\ lastRaised' = FALSE
                  /\ busted' = (busted \/ ~ok)
                  /\ exitCode' = Cap(exitCode + initBump + (IF good THEN 0 ELSE 1))
                  /\ failed' = (failed \/ ~good \/ initBump = 1)
            /\ tcls' = "pos"
            /\ UNCHANGED <<pf, setupOK>>

(* EIG.run *)
EIGRun(initOK) ==
    /\ Step("eig")
    /\ IF pf # "ok"
       THEN IF EigGate = "late" /\ ~tdsInit
            THEN \* falls through into TDS.init with no power-flow solution and raises
                 /\ lastRet' = FALSE /\ lastRaised' = TRUE /\ failed' = TRUE
                 /\ UNCHANGED <<exitCode, pf, tdsInit, tcls, busted, setupOK>>
            ELSE /\ lastRet' = FALSE /\ lastRaised' = FALSE /\ exitCode' = Cap(exitCode + 1) /\ failed' = TRUE
                 /\ UNCHANGED <<pf, tdsInit, tcls, busted, setupOK>>
       ELSE /\ lastRet' = TRUE /\ lastRaised' = FALSE
            /\ tdsInit' = TRUE
            /\ tcls' = IF tdsInit THEN tcls ELSE "zero"
            /\ exitCode' = Cap(exitCode + (IF ~tdsInit /\ ~initOK THEN 1 ELSE 0))
            /\ failed' = (failed \/ (~tdsInit /\ ~initOK))
            /\ UNCHANGED <<pf, busted, setupOK>>

(* System.reset(): refused when TDS is initialised; otherwise back to the state after setup *)
Reset ==
    /\ Step("reset")
    /\ IF tdsInit
       THEN /\ lastRet' = FALSE /\ lastRaised' = FALSE /\ UNCHANGED <<pf, tdsInit, tcls, busted, exitCode, failed, setupOK>>
       ELSE /\ lastRet' = TRUE /\ lastRaised' = FALSE /\ tcls' = "neg"
            /\ UNCHANGED <<pf, tdsInit, busted, exitCode, failed, setupOK>>

Next ==
    \/ \E c \in BOOLEAN : PFlowRun(c)
    \/ \E ok \in BOOLEAN, i \in BOOLEAN : TDSRun(ok, i)
    \/ \E i \in BOOLEAN : EIGRun(i)
    \/ Reset

Spec == Init /\ [][Next]_vars

-----------------------------------------------------------------------------
(* C17: a failure anywhere in the process leaves a non-zero exit code *)
ExitReflectsFailure == failed => exitCode > 0
(* C17: a failed set-up is never erased from the exit code by a later converged power flow *)
SetupFailureNeverErased == ~setupOK => exitCode > 0
(* C17: a routine never raises instead of refusing *)
NeverRaises == ~lastRaised
(* C17: dependants refuse on an unsolved power flow *)
DependantsRefuse == (lastOp \in {"tds", "eig"} /\ pf # "ok") => ~lastRet
(* C17: after a failed or refused routine call the exit code is non-zero: action property *)
FailureLeavesNonZero == [][(nops' = nops + 1 /\ ~lastRet' /\ lastOp' # "reset") => exitCode' > 0]_vars
(* C14: after a successful reset the system is in the pre-power-flow time class *)
ResetRestoresTimeClass == (lastOp = "reset" /\ lastRet) => tcls = "neg"
=============================================================================
