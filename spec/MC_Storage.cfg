SPECIFICATION Spec
CONSTANTS
  LimitStores = {TRUE, FALSE}
  MaxStores = {1, 2, 3, 5}
  Outputs = {TRUE, FALSE}
  SaveEverys = {0, 1, 2, 3}
  SegLens <- MC_SegLens
INVARIANT FileIsAllKeptRows
INVARIANT MemoryIsAllKeptRows
INVARIANT NothingLostOrRepeated
INVARIANT ViewFreshAtEnd
CHECK_DEADLOCK FALSE
