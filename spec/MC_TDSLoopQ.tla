---------------------------- MODULE MC_TDSLoopQ ----------------------------
EXTENDS TDSLoop, MCC_TDSLoopQ
\* bound the exploration depth (a run of <= 40 units with h >= 1 is far shorter)
DepthBound == TLCGet("level") <= 400
===========================================================================
