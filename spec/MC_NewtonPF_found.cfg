SPECIFICATION Spec
CONSTANTS
  MaxIter = 4
  NanMode = "swallow"
INVARIANT ConvergedMeansSmall
INVARIANT FailureReported
CHECK_DEADLOCK FALSE
