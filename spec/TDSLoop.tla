------------------------------- MODULE TDSLoop -------------------------------
(***************************************************************************)
(* The time-stepping loop of ANDES' time-domain simulation, transcribed     *)
(* call site by call site from                                              *)
(*   andes/routines/tds.py   run (325-522), init (178-276), init_resume,    *)
(*                           calc_h (549-635), _calc_h_first, do_switch     *)
(*   andes/system.py         store_switch_times, switch_action              *)
(*   andes/core/param.py     TimerParam.is_time                             *)
(*   andes/routines/daeint.py ImplicitIter.step (exits only)                *)
(*                                                                         *)
(* Time is integer: one unit = 1e-5 s when a behaviour is replayed, so      *)
(* Eps = 10 units is the hard-wired 1e-4 s of store_switch_times.           *)
(* The numerical outcome of one Newton solve is abstracted to a class       *)
(* (Outcomes); everything else - the step-size controller, the clipping,    *)
(* the skip rule, the switch pointer, the exit conditions, the exit code -  *)
(* is modelled as the code does it.  A run may be split into Segments       *)
(* (successive TDS.run() calls with growing tf).                            *)
(*                                                                         *)
(* Properties are literal readings of C06 / C04 / C14 / C15 / C17 clauses.  *)
(* SkipMode selects the behaviour of the "skip rule" in calc_h:             *)
(*   "advance"   the switch pointer itself is advanced when t equals the    *)
(*               pending switch time (the code as found: an event at t0 is  *)
(*               never applied - see DESIGN 5-1)                            *)
(*   "lookahead" only the clipping looks past the entry (the repaired code) *)
(***************************************************************************)
EXTENDS Integers, Sequences, FiniteSets, TLC, TDSLaws

CONSTANTS
    TimerIds,      \* e.g. {1,2,3}
    DevOf,         \* [TimerIds -> device id]
    KindOf,        \* [TimerIds -> {"toggle","on","off"}]   toggle u / fault apply / fault clear
    Taus,          \* candidate event times
    SegChoices,    \* set of sequences of end times, e.g. {<<40>>, <<20,40>>}
    Tstep,         \* config.tstep
    Eps,           \* 10
    FixTs,         \* subset of BOOLEAN to explore
    ShrinkTs,
    DMax0, DMin0,  \* deltatmax / deltatmin of _calc_h_first for variable stepping
    MaxFail,       \* budget of injected Newton failures
    MaxNaN,        \* budget of NaN exits
    MaxCrit,       \* budget of criteria trips
    SaveEverys,    \* subset of Nat
    SkipMode,      \* "advance" | "lookahead"
    Classes        \* subset of {1,2,3}: iteration-count classes a converged step may report

VARIABLES
    \* --- scenario (chosen in Init, never changed) ---
    timers,        \* [TimerIds -> [tau |-> Int, en |-> BOOLEAN]]
    segs, fixt, shrinkt, saveEvery,
    \* --- control state ---
    pc, seg, tf, t, h, deltat, dmin, dmax,
    niter, conv, lastConv, busted,
    swT, swIdx, lastSw,
    kcount, ustat,
    ret, exitCode,
    nfail, nnan, ncrit,
    \* --- observation (part of the state so that properties can see it) ---
    fired,         \* [TimerIds -> Nat]  number of effective callback invocations
    firedAt,       \* [TimerIds -> Int]  time of the last one
    lastStored,    \* time of the last stored row (NoRow before the first)
    nStored

vars == <<timers, segs, fixt, shrinkt, saveEvery, pc, seg, tf, t, h, deltat, dmin, dmax, niter, conv,
          lastConv, busted, swT, swIdx, lastSw, kcount, ustat, ret, exitCode, nfail, nnan, ncrit,
          fired, firedAt, lastStored, nStored>>

NoRow == -999
Devs == {DevOf[i] : i \in TimerIds}
Min(a, b) == IF a <= b THEN a ELSE b
Max(a, b) == IF a >= b THEN a ELSE b

-----------------------------------------------------------------------------
(* store_switch_times: tau, tau-eps, tau+eps of every timer (enabled or not), *)
(* sorted, duplicates merged, entries >= now kept.                            *)
RawTimes(tm) == UNION {{tm[i].tau, tm[i].tau - Eps, tm[i].tau + Eps} : i \in TimerIds}

RECURSIVE SortedSeq(_)
SortedSeq(S) == IF S = {} THEN <<>>
                ELSE LET m == CHOOSE x \in S : \A y \in S : x <= y
                     IN <<m>> \o SortedSeq(S \ {m})

SwitchList(tm, now) == SortedSeq({s \in RawTimes(tm) : s >= now})

NSw == Len(swT)

-----------------------------------------------------------------------------
(* _calc_h_first *)
FirstDeltat == IF fixt THEN Tstep ELSE DMax0
FirstDmax   == IF fixt /\ Tstep > DMax0 THEN Tstep ELSE DMax0

(* The controller part of calc_h for a step that is neither first nor resumed. *)
(* niter classes: 1 = "<= 6", 2 = "7..14", 3 = ">= 15".                        *)
Ctl(dt, cls) == LET raw == CASE cls = 3 -> Max((dt * 5) \div 10, dmin)
                             [] cls = 1 -> Min((dt * 11) \div 10, dmax)
                             [] OTHER   -> Max((dt * 95) \div 100, dmin)
                IN IF fixt THEN Min(Tstep, raw) ELSE raw

(* calc_h evaluated at time "now"; returns the record of the four things it writes. *)
CalcH(now, first, resume) ==
    LET r1 == IF first \/ resume
              THEN [dt |-> FirstDeltat, bust |-> busted, dmn |-> DMin0, dmx |-> FirstDmax]
              ELSE IF fixt /\ ~shrinkt /\ ~conv
              THEN [dt |-> 0, bust |-> TRUE, dmn |-> dmin, dmx |-> dmax]
              ELSE IF conv
              THEN [dt |-> Ctl(deltat, niter), bust |-> busted, dmn |-> dmin, dmx |-> dmax]
              ELSE LET d9 == (deltat * 9) \div 10
                   IN IF d9 < dmin THEN [dt |-> 0, bust |-> TRUE, dmn |-> dmin, dmx |-> dmax]
                                   ELSE [dt |-> d9, bust |-> busted, dmn |-> dmin, dmx |-> dmax]
        h1 == Max(Min(r1.dt, tf - now), 0)
        skip == swIdx < NSw /\ ~resume /\ now = swT[swIdx + 1]
        iAdv == IF skip THEN swIdx + 1 ELSE swIdx
        h2 == IF iAdv < NSw /\ now + h1 > swT[iAdv + 1] THEN swT[iAdv + 1] - now ELSE h1
    IN [dt |-> r1.dt, bust |-> r1.bust, dmn |-> r1.dmn, dmx |-> r1.dmx, h |-> h2,
        idx |-> IF SkipMode = "advance" THEN iAdv ELSE swIdx]

-----------------------------------------------------------------------------
(* The effect of switch_action at time now: every enabled timer whose value *)
(* equals now exactly acts on its device, in timer order.                  *)
ActSet(now) == {i \in TimerIds : timers[i].en /\ timers[i].tau = now}

ApplyAll(u, S) == ApplyEffects(u, S, DevOf, KindOf)

-----------------------------------------------------------------------------
Init ==
    /\ timers \in [TimerIds -> [tau : Taus, en : BOOLEAN]]
    /\ segs \in SegChoices
    /\ fixt \in FixTs
    /\ shrinkt \in ShrinkTs
    /\ saveEvery \in SaveEverys
    /\ pc = "idle" /\ seg = 0 /\ tf = 0 /\ t = -1 /\ h = 0 /\ deltat = 0 /\ dmin = 0 /\ dmax = 0
    /\ niter = 0 /\ conv = FALSE /\ lastConv = FALSE /\ busted = FALSE
    /\ swT = <<>> /\ swIdx = 0 /\ lastSw = NoRow
    /\ kcount = 0
    /\ ustat = [d \in Devs |-> 1]
    /\ ret = FALSE /\ exitCode = 0
    /\ nfail = 0 /\ nnan = 0 /\ ncrit = 0
    /\ fired = [i \in TimerIds |-> 0] /\ firedAt = [i \in TimerIds |-> NoRow]
    /\ lastStored = NoRow /\ nStored = 0

Scenario == <<timers, segs, fixt, shrinkt, saveEvery>>

(* TDS.run() on a fresh system: init() sets t = 0, builds the switch list, calls calc_h(). *)
RunInit ==
    /\ pc = "idle" /\ t < 0
    /\ seg' = 1 /\ tf' = segs[1]
    /\ swT' = SwitchList(timers, 0)
    /\ LET c == [dt |-> FirstDeltat, dmn |-> DMin0, dmx |-> FirstDmax]
           h1 == Max(Min(c.dt, segs[1] - 0), 0)
           n == Len(swT')
           skip == 0 < n /\ 0 = swT'[1]
           iAdv == IF skip THEN 1 ELSE 0
           h2 == IF iAdv < n /\ 0 + h1 > swT'[iAdv + 1] THEN swT'[iAdv + 1] - 0 ELSE h1
       IN /\ deltat' = c.dt /\ dmin' = c.dmn /\ dmax' = c.dmx /\ h' = h2
          /\ swIdx' = IF SkipMode = "advance" THEN iAdv ELSE 0
    /\ t' = 0 /\ pc' = "top"
    /\ UNCHANGED <<timers, segs, fixt, shrinkt, saveEvery, niter, conv, lastConv, busted, lastSw, kcount, ustat,
                   ret, exitCode, nfail, nnan, ncrit, fired, firedAt, lastStored, nStored>>

(* TDS.run() again with a larger tf: init_resume() = calc_h(resume=True); t += h. *)
RunResume ==
    /\ pc = "done" /\ seg < Len(segs)
    /\ seg' = seg + 1 /\ tf' = segs[seg + 1]
    /\ LET c == [dt |-> FirstDeltat]
           h1 == Max(Min(c.dt, segs[seg + 1] - t), 0)
           h2 == IF swIdx < NSw /\ t + h1 > swT[swIdx + 1] THEN swT[swIdx + 1] - t ELSE h1
       IN /\ deltat' = c.dt /\ dmin' = DMin0 /\ dmax' = FirstDmax /\ h' = h2 /\ t' = t + h2
    /\ pc' = "top" /\ ret' = FALSE
    /\ UNCHANGED <<timers, segs, fixt, shrinkt, saveEvery, niter, conv, lastConv, busted, swT, swIdx, lastSw,
                   kcount, ustat, exitCode, nfail, nnan, ncrit, fired, firedAt, lastStored, nStored>>

LoopCond == (t - h < tf) /\ ~busted

Top ==
    /\ pc = "top" /\ LoopCond
    /\ pc' = "step"
    /\ UNCHANGED <<timers, segs, fixt, shrinkt, saveEvery, seg, tf, t, h, deltat, dmin, dmax, niter, conv, lastConv,
                   busted, swT, swIdx, lastSw, kcount, ustat, ret, exitCode, nfail, nnan, ncrit, fired, firedAt,
                   lastStored, nStored>>

(* itm_step converged with an iteration-count class. *)
StepOK(cls) ==
    /\ pc = "step" /\ h # 0
    /\ conv' = TRUE /\ lastConv' = TRUE /\ niter' = cls
    /\ pc' = "store"
    /\ UNCHANGED <<timers, segs, fixt, shrinkt, saveEvery, seg, tf, t, h, deltat, dmin, dmax, busted, swT, swIdx,
                   lastSw, kcount, ustat, ret, exitCode, nfail, nnan, ncrit, fired, firedAt, lastStored, nStored>>

(* itm_step did not converge (iteration limit / blow-up): state restored, False returned. *)
StepFail ==
    /\ pc = "step" /\ h # 0 /\ nfail < MaxFail
    /\ nfail' = nfail + 1
    /\ conv' = FALSE /\ lastConv' = FALSE /\ niter' = 3
    /\ pc' = "rej"
    /\ UNCHANGED <<timers, segs, fixt, shrinkt, saveEvery, seg, tf, t, h, deltat, dmin, dmax, busted, swT, swIdx,
                   lastSw, kcount, ustat, ret, exitCode, nnan, ncrit, fired, firedAt, lastStored, nStored>>

(* NaN in the Newton increment: busted, not converged. *)
StepNaN ==
    /\ pc = "step" /\ h # 0 /\ nnan < MaxNaN
    /\ nnan' = nnan + 1
    /\ conv' = FALSE /\ lastConv' = FALSE /\ niter' = 3 /\ busted' = TRUE
    /\ pc' = "rej"
    /\ UNCHANGED <<timers, segs, fixt, shrinkt, saveEvery, seg, tf, t, h, deltat, dmin, dmax, swT, swIdx,
                   lastSw, kcount, ustat, ret, exitCode, nfail, ncrit, fired, firedAt, lastStored, nStored>>

(* itm_step with h = 0 returns False at once and touches nothing. *)
StepH0 ==
    /\ pc = "step" /\ h = 0
    /\ pc' = "rej"
    /\ UNCHANGED <<timers, segs, fixt, shrinkt, saveEvery, seg, tf, t, h, deltat, dmin, dmax, niter, conv, lastConv,
                   busted, swT, swIdx, lastSw, kcount, ustat, ret, exitCode, nfail, nnan, ncrit, fired, firedAt,
                   lastStored, nStored>>

Keep == KeepRow(saveEvery, kcount)

Store ==
    /\ pc = "store"
    /\ IF Keep THEN lastStored' = t /\ nStored' = nStored + 1 ELSE UNCHANGED <<lastStored, nStored>>
    /\ pc' = "crit"
    /\ UNCHANGED <<timers, segs, fixt, shrinkt, saveEvery, seg, tf, t, h, deltat, dmin, dmax, niter, conv, lastConv,
                   busted, swT, swIdx, lastSw, kcount, ustat, ret, exitCode, nfail, nnan, ncrit, fired, firedAt>>

Criteria(trip) ==
    /\ pc = "crit"
    /\ IF trip THEN ncrit < MaxCrit /\ ncrit' = ncrit + 1 /\ busted' = TRUE ELSE UNCHANGED <<ncrit, busted>>
    /\ pc' = "switch"
    /\ UNCHANGED <<timers, segs, fixt, shrinkt, saveEvery, seg, tf, t, h, deltat, dmin, dmax, niter, conv, lastConv,
                   swT, swIdx, lastSw, kcount, ustat, ret, exitCode, nfail, nnan, fired, firedAt, lastStored, nStored>>

(* do_switch *)
Switch ==
    /\ pc = "switch"
    /\ IF SwitchHit(t, swT, swIdx)
       THEN /\ lastSw' = t /\ swIdx' = swIdx + 1
            /\ ustat' = ApplyAll(ustat, ActSet(t))
            /\ fired' = [i \in TimerIds |-> IF i \in ActSet(t) THEN fired[i] + 1 ELSE fired[i]]
            /\ firedAt' = [i \in TimerIds |-> IF i \in ActSet(t) THEN t ELSE firedAt[i]]
       ELSE UNCHANGED <<lastSw, swIdx, ustat, fired, firedAt>>
    /\ pc' = "adv"
    /\ UNCHANGED <<timers, segs, fixt, shrinkt, saveEvery, seg, tf, t, h, deltat, dmin, dmax, niter, conv, lastConv,
                   busted, swT, kcount, ret, exitCode, nfail, nnan, ncrit, lastStored, nStored>>

(* calc_h(); t += h; kcount += 1 *)
Advance ==
    /\ pc = "adv"
    /\ LET c == CalcH(t, FALSE, FALSE)
       IN /\ deltat' = c.dt /\ busted' = c.bust /\ dmin' = c.dmn /\ dmax' = c.dmx /\ h' = c.h /\ swIdx' = c.idx
          /\ t' = t + c.h
    /\ kcount' = kcount + 1
    /\ pc' = "top"
    /\ UNCHANGED <<timers, segs, fixt, shrinkt, saveEvery, seg, tf, niter, conv, lastConv, swT, lastSw, ustat, ret,
                   exitCode, nfail, nnan, ncrit, fired, firedAt, lastStored, nStored>>

(* not converged: t -= h; calc_h(); h = 0 => busted, break; else t += h *)
Reject ==
    /\ pc = "rej"
    /\ LET tb == t - h
           first == (tb = 0 /\ niter = 0)
           c == CalcH(tb, first, FALSE)
       IN /\ deltat' = c.dt /\ dmin' = c.dmn /\ dmax' = c.dmx /\ h' = c.h /\ swIdx' = c.idx
          /\ IF c.h = 0
             THEN busted' = TRUE /\ t' = tb /\ pc' = "fin"
             ELSE busted' = c.bust /\ t' = tb + c.h /\ pc' = "top"
    /\ UNCHANGED <<timers, segs, fixt, shrinkt, saveEvery, seg, tf, niter, conv, lastConv, swT, lastSw, kcount, ustat,
                   ret, exitCode, nfail, nnan, ncrit, fired, firedAt, lastStored, nStored>>

Finish ==
    /\ (pc = "top" /\ ~LoopCond) \/ pc = "fin"
    /\ ret' = RunSucceeds(busted, t, tf)
    /\ exitCode' = exitCode + ExitIncrement(busted, t, tf)
    /\ pc' = "done"
    /\ UNCHANGED <<timers, segs, fixt, shrinkt, saveEvery, seg, tf, t, h, deltat, dmin, dmax, niter, conv, lastConv,
                   busted, swT, swIdx, lastSw, kcount, ustat, nfail, nnan, ncrit, fired, firedAt, lastStored, nStored>>

Next ==
    \/ RunInit \/ RunResume \/ Top
    \/ \E c \in Classes : StepOK(c)
    \/ StepFail \/ StepNaN \/ StepH0
    \/ Store \/ \E b \in BOOLEAN : Criteria(b)
    \/ Switch \/ Advance \/ Reject \/ Finish

Spec == Init /\ [][Next]_vars
FairSpec == Spec /\ WF_vars(Next)

-----------------------------------------------------------------------------
(* ------------------------------ properties ------------------------------ *)

TypeOK ==
    /\ pc \in {"idle", "top", "step", "store", "crit", "switch", "adv", "rej", "fin", "done"}
    /\ swIdx \in 0..NSw
    /\ niter \in 0..3

(* C06: the effect is applied exactly once, at the event time, for every enabled timer *)
(* whose time lies in [0, tf]; never for a disabled one or one outside the interval.   *)
Due(i) == IsDue(timers[i].en, timers[i].tau, 0, tf)
DueExceptT0(i) == Due(i) /\ timers[i].tau # 0

FiredOK(i) == FiredAsRequired(timers[i].en, timers[i].tau, 0, tf, fired[i], firedAt[i])

ExactlyOnce == (pc = "done" /\ ret) => \A i \in TimerIds : FiredOK(i)

(* the same with the known deviation (event at t0) carved out, used when SkipMode = "advance" *)
ExactlyOnceExceptT0 ==
    (pc = "done" /\ ret) => \A i \in TimerIds : (timers[i].en /\ timers[i].tau = 0) \/ FiredOK(i)

(* the deviation itself, stated positively: under "advance" an enabled event at t0 is never applied *)
T0NeverFires == SkipMode = "advance" => \A i \in TimerIds : timers[i].tau = 0 => fired[i] = 0

NeverTwice == \A i \in TimerIds : fired[i] <= 1
NeverEarlyOrLate == \A i \in TimerIds : fired[i] > 0 => firedAt[i] = timers[i].tau
DisabledNeverFires == \A i \in TimerIds : ~timers[i].en => fired[i] = 0

(* C06: effect reaches exactly the addressed device and persists: closed form of the status. *)
DueSet == {i \in TimerIds : Due(i)}
TogglesOnly(d) == \A i \in TimerIds : DevOf[i] = d => KindOf[i] = "toggle"
Parity(d) == Cardinality({i \in DueSet : DevOf[i] = d})
ExpectedStatus ==
    (pc = "done" /\ ret) => \A d \in Devs : TogglesOnly(d) => ustat[d] = ToggleParityStatus(1, Parity(d))
ExpectedStatusExceptT0 ==
    (pc = "done" /\ ret /\ \A i \in TimerIds : ~(timers[i].en /\ timers[i].tau = 0)) =>
        \A d \in Devs : TogglesOnly(d) => ustat[d] = ToggleParityStatus(1, Parity(d))

(* C06: no step crosses an event time (the time of any timer, enabled or not). *)
NoStepCrossesSwitch ==
    [][(t' > t /\ ~busted') => ~\E i \in TimerIds : timers[i].tau >= 0 /\ t < timers[i].tau /\ timers[i].tau < t']_vars

(* C06 / C15: stored time stamps strictly increase *)
StoredIncreasing == [][lastStored' # lastStored => lastStored' > lastStored]_vars

(* C06 / C17: success iff the run ended exactly at tf without being busted; failure bumps the exit code *)
SuccessIffAtTf == pc = "done" => (ret <=> (~busted /\ t = tf))
FailureBumpsExit == [][(pc # "done" /\ pc' = "done") => (exitCode' > exitCode <=> ~ret')]_vars

(* C04: the step never is negative, never exceeds the fixed step, never passes tf. *)
StepBound ==
    /\ h >= 0
    /\ (fixt /\ pc # "idle") => h <= Tstep
    /\ pc = "step" => t <= tf

(* C04: a rejected step does not advance time beyond where the failed attempt stood *)
(* Named deviation (DESIGN 5-10): the very first loop iteration "solves at t = 0" without having  *)
(* advanced time, so rejecting it moves time to -h first; that one rejection is carved out.      *)
RejectKeepsTime == [][(pc = "rej" /\ kcount > 0) => t' <= t]_vars

(* C14: the set of fired events and the final status at the end do not depend on segmentation: *)
(* both are closed forms of the scenario (ExactlyOnce / ExpectedStatus) checked at every "done". *)

(* C15: one row per accepted step that the thinning rule keeps *)
RowPerKeptStep == [][pc = "store" => (nStored' = nStored + (IF Keep THEN 1 ELSE 0))]_vars

(* liveness: without injected failures a run terminates *)
Terminates == <>(pc = "done")

=============================================================================
