-------------------------------- MODULE EqBinding --------------------------------
(***************************************************************************)
(* How a value computed by generated code reaches the equation it was       *)
(* declared for (symprocessor.generate_equations / generate_pycode,          *)
(* System._expand_pycode, Model.refresh_inputs_arg, Model.f_update/g_update). *)
(*                                                                         *)
(* A model declares variables in an order; each variable has one equation.  *)
(* Generate: the generator walks the variables in declaration order and      *)
(*   writes a function that returns the tuple of their equations, together   *)
(*   with the sorted list of argument names it takes (stored in the file).   *)
(* Load:     a System binds the stored function and the stored argument list.*)
(* Call:     the arguments are looked up BY NAME using the stored list; the   *)
(*   returned tuple is delivered BY POSITION to the variables in the model's  *)
(*   CURRENT declaration order.                                              *)
(* Reorder / Rename-free edits change the declaration order of the model;    *)
(* the checksum covers the names in order (OrderInChecksum), so a reordered  *)
(* model is stale and regenerated before use.  OrderInChecksum = FALSE is    *)
(* the negative control: stale code then delivers to the wrong variable.     *)
(***************************************************************************)
EXTENDS Integers, Sequences, FiniteSets, TLC
CONSTANTS Vars, OrderInChecksum
Perms == {p \in [1..Cardinality(Vars) -> Vars] : \A i, j \in DOMAIN p : i # j => p[i] # p[j]}
VARIABLES order,      \* current declaration order of the model (a permutation of Vars)
          fileOrder,  \* order of the tuple returned by the function in the file
          fileSum,    \* checksum recorded in the file
          bound,      \* order of the tuple of the function a System has bound (<<>> = none)
          delivered   \* variable -> equation whose value it received at the last call
vars == <<order, fileOrder, fileSum, bound, delivered>>
Sum(o) == IF OrderInChecksum THEN o ELSE {o[i] : i \in DOMAIN o}
Init == /\ order \in Perms /\ fileOrder = order /\ fileSum = Sum(order) /\ bound = <<>>
        /\ delivered = [v \in Vars |-> v]
Generate == fileOrder' = order /\ fileSum' = Sum(order) /\ UNCHANGED <<order, bound, delivered>>
(* System(): load, compare the checksum, regenerate when stale *)
Load == IF fileSum = Sum(order)
        THEN bound' = fileOrder /\ UNCHANGED <<order, fileOrder, fileSum, delivered>>
        ELSE fileOrder' = order /\ fileSum' = Sum(order) /\ bound' = order /\ UNCHANGED <<order, delivered>>
(* f_update / g_update: position i of the returned tuple goes to the i-th variable of the current order *)
Call == /\ bound # <<>>
        /\ delivered' = [v \in Vars |-> LET i == CHOOSE k \in DOMAIN order : order[k] = v IN bound[i]]
        /\ UNCHANGED <<order, fileOrder, fileSum, bound>>
(* a System lives in one process: the model definition does not change under it, so a reorder drops the binding *)
Reorder == \E p \in Perms : p # order /\ order' = p /\ bound' = <<>> /\ UNCHANGED <<fileOrder, fileSum, delivered>>
Next == Reorder \/ Generate \/ Load \/ Call
Spec == Init /\ [][Next]_vars
(* C02: each value is delivered to the variable or equation it was declared for *)
DeliveredToDeclared == \A v \in Vars : delivered[v] = v
=============================================================================
