---- MODULE MC_Addressing ----
EXTENDS Addressing
MC_ModelIds == {1, 2, 3, 4}
MC_Shape == [i \in MC_ModelIds |-> CASE i = 1 -> [ns |-> 0, na |-> 2, collate |-> FALSE, pflow |-> TRUE]
                                     [] i = 2 -> [ns |-> 0, na |-> 1, collate |-> TRUE, pflow |-> TRUE]
                                     [] i = 3 -> [ns |-> 2, na |-> 3, collate |-> TRUE, pflow |-> FALSE]
                                     [] OTHER -> [ns |-> 3, na |-> 1, collate |-> FALSE, pflow |-> FALSE]]
====
