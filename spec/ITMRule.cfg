
