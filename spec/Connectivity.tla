----------------------------- MODULE Connectivity -----------------------------
(***************************************************************************)
(* Islands, isolated buses, slack classification (System.connectivity) and *)
(* propagation of a bus switched off to the devices attached to it          *)
(* (ConnMan.record / act).  The graph-theoretic definitions below are the   *)
(* property (C12); they do not follow the implementation's sparse-matrix    *)
(* iteration.                                                               *)
(***************************************************************************)
EXTENDS Integers, Sequences, FiniteSets, TLC

(* ---------- definitions over a graph given as data ---------- *)
(* edges: set of <<i, j>> of in-service series devices between buses i and j *)
Adj(edges, b) == {e[2] : e \in {x \in edges : x[1] = b}} \cup {e[1] : e \in {x \in edges : x[2] = b}}
Isolated(buses, edges) == {b \in buses : Adj(edges, b) \ {b} = {} /\ ~\E e \in edges : e[1] = b \/ e[2] = b}
RECURSIVE Reach(_, _)
Reach(edges, S) == LET T == S \cup UNION {Adj(edges, b) : b \in S} IN IF T = S THEN S ELSE Reach(edges, T)
Components(buses, edges) == {Reach(edges, {b}) : b \in buses \ Isolated(buses, edges)}
(* slack classification of a component: number of enabled slack generators on its buses *)
NSlack(comp, slacks) == Cardinality({k \in DOMAIN slacks : slacks[k].u = 1 /\ slacks[k].bus \in comp})

-----------------------------------------------------------------------------
(* ---------- ConnMan as a state machine (design, model-checked) ---------- *)
CONSTANTS Buses, Devs, BusOf        \* BusOf: [Devs -> SUBSET Buses]  (a line has two buses)
VARIABLES busU, devU, busu0, needed, devU0, raised
cvars == <<busU, devU, busu0, needed, devU0, raised>>

CInit == /\ busU = [b \in Buses |-> 1] /\ devU \in [Devs -> {0, 1}] /\ devU0 = devU
         /\ busu0 = [b \in Buses |-> 1] /\ needed = FALSE /\ raised = FALSE

(* Bus.set / Bus.alter('u') followed by ConnMan.record *)
SetBus(b, v) ==
    /\ ~raised
    /\ busU' = [busU EXCEPT ![b] = v]
    /\ LET on == {x \in Buses : busu0[x] = 0 /\ busU'[x] = 1}
       IN /\ busu0' = busU'
          /\ raised' = (on # {})                          \* turning a bus on after set-up is refused
          /\ needed' = (needed \/ on # {} \/ \E x \in Buses : busu0[x] = 1 /\ busU'[x] = 0)
    /\ UNCHANGED <<devU, devU0>>

(* ConnMan.act at the next routine initialisation: turns off the devices of buses that went off *)
Act ==
    /\ ~raised /\ needed
    /\ devU' = [d \in Devs |-> IF \E b \in BusOf[d] : busU[b] = 0 THEN 0 ELSE devU[d]]
    /\ needed' = FALSE
    /\ UNCHANGED <<busU, busu0, devU0, raised>>

CNext == (\E b \in Buses, v \in {0, 1} : SetBus(b, v)) \/ Act
CSpec == CInit /\ [][CNext]_cvars

(* C12: after propagation, exactly the devices attached to a switched-off bus are off, nothing else changed *)
ExactPropagation == (~needed /\ ~raised) =>
    \A d \in Devs : devU[d] = (IF \E b \in BusOf[d] : busU[b] = 0 THEN 0 ELSE devU0[d])
=============================================================================
