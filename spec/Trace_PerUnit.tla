---- MODULE Trace_PerUnit ----
(* C11 clauses on recorded alter / set / reset sequences and exports *)
EXTENDS Integers, Sequences, FiniteSets, TLC, Json, IOUtils
Traces == JsonDeserialize(IOEnv.TRACE_FILE)
VARIABLES tid, l, s
vars == <<tid, l, s>>
Ev(i) == Traces[i].ev
Add(S, c, name) == IF c THEN S ELSE S \cup {name}
Init == tid \in 1..Len(Traces) /\ l = 1 /\ s = [dirty |-> {}, viol |-> {}, drift |-> {}]
OnOp(e) ==
    LET dirty2 == IF e.op = "set" THEN s.dirty \cup {e.key} ELSE IF e.op = "reset" /\ ~e.reset_refused THEN {} ELSE s.dirty \ {e.key}
        v1 == Add(s.viol, e.raised \/ e.key \in dirty2 \/ e.consistent, "BothBasesConsistent:" \o e.op)
        v2 == Add(v1, e.raised \/ e.effect_ok, "AlterationTakesDocumentedEffect:" \o e.op)
        v3 == Add(v2, e.raised \/ e.tf_follows, "TimeConstantFollows:" \o e.op)
        v4 == Add(v3, e.raised \/ e.others_untouched, "OnlyAddressedParameterChanges:" \o e.op)
        v5 == Add(v4, e.raised \/ e.reset_ok, "ResetRestoresInputValues")
        v6 == Add(v5, ~e.raised, "AlterationNeverRaises:" \o e.op)
    IN [s EXCEPT !.dirty = dirty2, !.viol = v6]
OnExport(e) == [s EXCEPT !.viol = Add(s.viol, e.ok, "ExportWritesInputBaseValues")]
Consume ==
    /\ l <= Len(Ev(tid))
    /\ LET e == Ev(tid)[l] IN s' = CASE e.e = "op" -> OnOp(e) [] e.e = "export" -> OnExport(e) [] OTHER -> s
    /\ l' = l + 1 /\ UNCHANGED tid
    /\ (l = Len(Ev(tid))) => PrintT(ToJson([tid |-> Traces[tid].meta.tid, viol |-> s'.viol, drift |-> s'.drift, n |-> Len(Ev(tid))]))
Spec == Init /\ [][Consume]_vars
====
