SPECIFICATION Spec
CONSTANTS
  MaxVer = 4
  MaxOps = 7
  HashCovers = TRUE
INVARIANT TypeOK
INVARIANT NeverSilentlyStale
INVARIANT UsedCodeMatchesModel
INVARIANT FreshFileIsCurrent
CHECK_DEADLOCK FALSE
