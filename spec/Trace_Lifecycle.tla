--------------------------- MODULE Trace_Lifecycle ---------------------------
(* Validation of recorded routine sequences (PFlow / TDS / EIG / reset on one System) against   *)
(* the C17 / C14 clauses (property layer) and the transitions of Lifecycle (conformance layer). *)
EXTENDS Integers, Sequences, FiniteSets, TLC, Json, IOUtils

Traces == JsonDeserialize(IOEnv.TRACE_FILE)
VARIABLES tid, l, s
vars == <<tid, l, s>>
Ev(i) == Traces[i].ev

Init == /\ tid \in 1..Len(Traces) /\ l = 1
        /\ s = [pf |-> "none", tdsInit |-> FALSE, tcls |-> "neg", afterReset |-> FALSE, viol |-> {}, drift |-> {}]

Add(S, c, name) == IF c THEN S ELSE S \cup {name}

OnOp(e) ==
    LET isRoutine == e.op \in {"pflow", "tds", "eig"}
        v1 == Add(s.viol, ~(isRoutine /\ e.raised), "RoutineNeverRaises:" \o e.op)
        v2 == Add(v1, ~(isRoutine /\ ~e.raised /\ ~e.ret) \/ e.exit_after > 0, "FailureLeavesExitNonZero:" \o e.op)
        v3 == Add(v2, ~(e.op \in {"tds", "eig"} /\ s.pf # "ok") \/ (~e.ret /\ (e.raised \/ e.state_unchanged)),
                  "DependantsRefuseOnUnsolvedPF:" \o e.op)
        v4 == Add(v3, ~(isRoutine /\ e.ret) \/ e.residual_ok, "SuccessImpliesResidualTest:" \o e.op)
        v5 == Add(v4, ~(isRoutine /\ e.ret) \/ ~e.nan, "NoNaNPresented:" \o e.op)
        v6 == Add(v5, ~(e.op = "pflow" /\ e.ret /\ s.afterReset /\ e.nominal) \/ e.pf_equal_first, "ResetThenPFlowSame")
        v7 == Add(v6, ~(e.op = "pflow" /\ e.ret /\ e.nominal /\ ~s.tdsInit) \/ e.pf_equal_first, "RepeatedPFlowSame")
        v7b == Add(v7, e.reset_outcome_ok, "OutcomeAfterResetAsOnFreshSystem:" \o e.op)
        v8 == Add(v7b, ~(e.op = "infeasible") \/ (e.raised \/ (e.exit_after > 0 /\ ~e.ret)), "InfeasibleInputReported:" \o e.kind)
        \* conformance: the transitions of Lifecycle
        pf2 == IF e.op = "pflow" THEN (IF e.ret THEN "ok" ELSE "failed") ELSE s.pf
        d1 == Add(s.drift, e.pf_after = pf2 \/ e.raised, "pf_state")
        d2 == Add(d1, ~(e.op = "reset" /\ ~s.tdsInit) \/ e.tcls = "neg", "reset_time_class")
        d3 == Add(d2, ~(e.op = "tds" /\ s.pf = "ok") \/ e.tds_init, "tds_initialised_after_run")
    IN [s EXCEPT !.pf = e.pf_after, !.tdsInit = e.tds_init, !.tcls = e.tcls,
                 !.afterReset = (IF e.op = "reset" /\ e.ret THEN TRUE ELSE IF e.op = "pflow" THEN FALSE ELSE s.afterReset),
                 !.viol = v8, !.drift = d3]

Consume ==
    /\ l <= Len(Ev(tid))
    /\ s' = OnOp(Ev(tid)[l])
    /\ l' = l + 1 /\ UNCHANGED tid
    /\ (l = Len(Ev(tid))) => PrintT(ToJson([tid |-> Traces[tid].meta.tid, viol |-> s'.viol, drift |-> s'.drift, n |-> Len(Ev(tid))]))

Spec == Init /\ [][Consume]_vars
=============================================================================
