-------------------------------- MODULE PerUnit --------------------------------
(* Value bases of one parameter under alter / set / reset; the conversion factors themselves are in PerUnitK. *)
EXTENDS PerUnitK

(* the value bases of one parameter with conversion factor Kc (an integer here) *)
CONSTANTS Kc, Values, MaxOps
VARIABLES vin, v, vin0, setDirty, nops, tf    \* tf: the time-constant slot of the DAE that mirrors v
pvars == <<vin, v, vin0, setDirty, nops, tf>>

PInit == /\ vin \in Values /\ vin0 = vin /\ v = vin * Kc /\ setDirty = FALSE /\ nops = 0 /\ tf = vin * Kc
Op == nops < MaxOps /\ nops' = nops + 1
AlterV(x)   == Op /\ vin' = x /\ v' = x * Kc /\ tf' = x * Kc /\ setDirty' = FALSE /\ UNCHANGED vin0
AlterVin(x) == Op /\ x % Kc = 0 /\ vin' = x \div Kc /\ v' = x /\ tf' = x /\ setDirty' = FALSE /\ UNCHANGED vin0
SetV(x)     == Op /\ v' = x /\ tf' = x /\ setDirty' = TRUE /\ UNCHANGED <<vin, vin0>>   \* documented: does not touch vin
Reset       == Op /\ vin' = vin /\ v' = vin * Kc /\ tf' = vin * Kc /\ setDirty' = FALSE /\ UNCHANGED vin0
PNext == (\E x \in Values : AlterV(x) \/ AlterVin(x * Kc) \/ SetV(x)) \/ Reset
PSpec == PInit /\ [][PNext]_pvars

(* C11: both representations stay consistent unless the documented set() was used since *)
Consistent == ~setDirty => v = vin * Kc
(* C11: the time constant seen by the integrator is the system-base value *)
TimeConstantFollows == tf = v
(* C11: reset restores consistency with the (possibly altered) input values *)
ResetRestores == [][(nops' = nops + 1 /\ vin' = vin /\ ~setDirty') => v' = vin * Kc]_pvars
=============================================================================
