------------------------------- MODULE TDSLaws -------------------------------
(***************************************************************************)
(* Pure operators shared by the model-checked design (TDSLoop) and by the  *)
(* trace specification (Trace_TDSLoop): one source of truth for the laws   *)
(* that both the exhaustive exploration and the validation of recorded     *)
(* executions rely on.  Times may be abstract units or ranks: only order   *)
(* and equality are used here.                                             *)
(***************************************************************************)
EXTENDS Integers, Sequences, FiniteSets

(* thinning rule of TDS.run: save_every = 0 never, 1 always, n: every n-th accepted step *)
KeepRow(saveEvery, kcount) ==
    IF saveEvery = 0 THEN FALSE ELSE IF saveEvery = 1 THEN TRUE ELSE kcount % saveEvery = 0

(* do_switch acts iff the pointer is inside the list and the time equals the pending entry *)
SwitchHit(t, swT, swIdx) == swIdx < Len(swT) /\ t = swT[swIdx + 1]

(* success flag and exit-code increment at the end of TDS.run *)
RunSucceeds(busted, t, tf) == ~busted /\ t = tf
ExitIncrement(busted, t, tf) == IF RunSucceeds(busted, t, tf) THEN 0 ELSE 1

(* an enabled timer with 0 <= tau <= tf must act exactly once, at tau; any other never *)
IsDue(en, tau, zero, tf) == en /\ tau >= zero /\ tau <= tf
FiredAsRequired(en, tau, zero, tf, count, at) ==
    IF IsDue(en, tau, zero, tf) THEN count = 1 /\ at = tau ELSE count = 0

(* effect of a set S of acting timers on the status vector u, applied in timer order *)
RECURSIVE ApplyEffects(_, _, _, _)
ApplyEffects(u, S, devOf, kindOf) ==
    IF S = {} THEN u
    ELSE LET i == CHOOSE x \in S : \A y \in S : x <= y
             d == devOf[i]
             v == CASE kindOf[i] = "toggle" -> 1 - u[d]
                    [] kindOf[i] = "on"     -> 1
                    [] kindOf[i] = "off"    -> 0
                    [] OTHER                -> u[d]
         IN ApplyEffects([u EXCEPT ![d] = v], S \ {i}, devOf, kindOf)

(* closed form of the final status of a device driven only by toggles *)
ToggleParityStatus(init, nDue) == IF nDue % 2 = 1 THEN 1 - init ELSE init
=============================================================================
