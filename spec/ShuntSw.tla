------------------------------- MODULE ShuntSw -------------------------------
(***************************************************************************)
(* Switched shunt adjustment (andes/core/discrete.py ShuntAdjust with the    *)
(* block selector andes/core/service.py SwBlock): each device holds a level  *)
(* sel in 0..MaxSel; an evaluation compares the bus voltage with the band    *)
(* (zone "low" / "in" / "high") and moves the level one step towards the     *)
(* band, at most once per delay Dt during simulation, without delay during   *)
(* power flow (time -1 s) and at initialisation (time 0).  Time is in ticks  *)
(* of half a second; PF = -2 stands for the power-flow phase.                *)
(* One action per call of check_var; the step operator Eval is shared by     *)
(* the model-checked module (MC_ShuntSw) and by the scenario enumeration     *)
(* (Scen_ShuntSw), whose expected levels are replayed on the real classes.   *)
(* Deviations kept as the code has them (all devices of the model are        *)
(* evaluated by one vectorised call):                                        *)
(*  - the time of the last switching is reset at time 0 only if SOME device  *)
(*    wants to switch at time 0; otherwise a device switched during power    *)
(*    flow keeps -1 s, so its first switching in the simulation may come Dt  *)
(*    after -1 s rather than after 0;                                        *)
(*  - the per-device enable flags are recomputed only when some device wants *)
(*    to switch.                                                            *)
(***************************************************************************)
EXTENDS Integers, Sequences, FiniteSets, TLC
CONSTANTS MaxSel, Dt, Dev
PF == -2
Zones == {"low", "in", "high"}
(* direction a device wants: towards the band, if a level is left on that side and the device is in service *)
Want(zone, s, on) == IF ~on THEN 0 ELSE IF zone = "low" /\ s < MaxSel THEN 1 ELSE IF zone = "high" /\ s > 0 THEN -1 ELSE 0
(* state: sel, tLast : [Dev -> Int]; on : [Dev -> BOOLEAN] (status, a parameter) *)
(* call: [t |-> time, zone |-> [Dev -> Zones], open |-> BOOLEAN]  (open = iteration gate of the Newton loop) *)
Eval(st, c) ==
    LET want == [d \in Dev |-> Want(c.zone[d], st.sel[d], st.on[d])]
        any == \E d \in Dev : want[d] # 0
    IN IF ~c.open \/ ~any THEN st
       ELSE LET tl0 == IF c.t = 0 THEN [d \in Dev |-> 0] ELSE st.tLast                       \* reset at initialisation
                en == [d \in Dev |-> IF c.t > 0 THEN (c.t - tl0[d] - Dt >= 0) ELSE TRUE]   \* delay only during simulation
                dir == [d \in Dev |-> IF en[d] THEN want[d] ELSE 0]
            IN IF \A d \in Dev : dir[d] = 0 THEN [st EXCEPT !.tLast = tl0]
               ELSE [st EXCEPT !.sel = [d \in Dev |-> st.sel[d] + dir[d]],
                               !.tLast = [d \in Dev |-> IF dir[d] # 0 THEN c.t ELSE tl0[d]]]
=============================================================================
