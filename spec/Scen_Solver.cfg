
