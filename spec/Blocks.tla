-------------------------------- MODULE Blocks --------------------------------
(***************************************************************************)
(* Documented transfer functions of the linear control blocks (C18), as    *)
(* numerator / denominator polynomials in s over exact rationals, including *)
(* the documented zero-time-constant bypass cases.  A record handed in by   *)
(* the driver carries, for one block, one parameter tuple p and one value   *)
(* of s: the realisation extracted from the block's own equation strings    *)
(* (E, F, G matrices as rationals), a candidate response (x, y) to u = 1     *)
(* and the block's declared initial values.  TLC checks                      *)
(*   (a) the candidate satisfies  s E x = Fx x + Fy y + Fu,  0 = Gx x + Gy y + Gu *)
(*   (b) output * D(s) = N(s)          (the documented transfer function)     *)
(*   (c) with constant input the declared initial values balance all equations *)
(***************************************************************************)
EXTENDS Integers, Sequences, FiniteSets, TLC, Rat, Json, IOUtils

P(r, name) == <<r.p[name][1], r.p[name][2]>>
S(r) == <<r.s[1], r.s[2]>>
Sq(x) == RMul(x, x)
IsZero(x) == x[1] = 0

Num(r) ==
    CASE r.block = "Gain"          -> P(r, "K")
      [] r.block = "Integrator"    -> P(r, "K")
      [] r.block = "Lag"           -> P(r, "K")
      [] r.block = "LagAntiWindup" -> P(r, "K")
      [] r.block = "IntegratorAntiWindup" -> P(r, "K")
      [] r.block = "LeadLag"       -> IF IsZero(P(r, "T1")) /\ IsZero(P(r, "T2")) THEN P(r, "K")
                                      ELSE RMul(P(r, "K"), RAdd(ROne, RMul(S(r), P(r, "T1"))))
      [] r.block = "LeadLagLimit"  -> RAdd(ROne, RMul(S(r), P(r, "T1")))
      [] r.block = "Washout"       -> RMul(S(r), P(r, "K"))
      [] r.block = "WashoutOrLag"  -> IF RLe(P(r, "K"), RZero) THEN ROne ELSE RMul(S(r), P(r, "K"))   \* K <= 0 ("z1"): a lag 1 / (1 + sT)
      [] r.block = "Lag2ndOrd"     -> P(r, "K")
      [] r.block = "LeadLag2ndOrd" -> RAdd(RAdd(ROne, RMul(S(r), P(r, "T3"))), RMul(Sq(S(r)), P(r, "T4")))
      [] r.block = "PIController"  -> RAdd(RMul(P(r, "kp"), S(r)), P(r, "ki"))
      [] r.block = "PIAWHardLimit" -> RAdd(RMul(P(r, "kp"), S(r)), P(r, "ki"))
      [] r.block = "GainLimiter"   -> RMul(P(r, "K"), P(r, "R"))
      [] OTHER (* PIDController: (kp s + ki)(1 + s Td) + kd s^2 *)
                                   -> RAdd(RMul(RAdd(RMul(P(r, "kp"), S(r)), P(r, "ki")), RAdd(ROne, RMul(S(r), P(r, "Td")))),
                                           RMul(P(r, "kd"), Sq(S(r))))
Den(r) ==
    CASE r.block \in {"Gain", "GainLimiter"} -> ROne
      [] r.block \in {"Integrator", "IntegratorAntiWindup"} -> RMul(S(r), P(r, "T"))
      [] r.block \in {"Lag", "LagAntiWindup"} -> RAdd(P(r, "D"), RMul(S(r), P(r, "T")))
      [] r.block = "LeadLag"       -> IF IsZero(P(r, "T1")) /\ IsZero(P(r, "T2")) THEN ROne ELSE RAdd(ROne, RMul(S(r), P(r, "T2")))
      [] r.block = "LeadLagLimit"  -> RAdd(ROne, RMul(S(r), P(r, "T2")))
      [] r.block \in {"Washout", "WashoutOrLag"} -> RAdd(ROne, RMul(S(r), P(r, "T")))
      [] r.block \in {"Lag2ndOrd", "LeadLag2ndOrd"} -> RAdd(RAdd(ROne, RMul(S(r), P(r, "T1"))), RMul(Sq(S(r)), P(r, "T2")))
      [] r.block \in {"PIController", "PIAWHardLimit"} -> S(r)
      [] OTHER                     -> RMul(S(r), RAdd(ROne, RMul(S(r), P(r, "Td"))))

(* documented steady-state output for a constant input u0 (where the block has one) *)
HasDC(r) == r.block \in {"Gain", "Lag", "LagAntiWindup", "LeadLag", "LeadLagLimit", "Washout", "WashoutOrLag", "Lag2ndOrd", "LeadLag2ndOrd", "GainLimiter"}
DC(r, u0) == CASE r.block \in {"Gain"} -> RMul(P(r, "K"), u0)
               [] r.block \in {"Lag", "LagAntiWindup"} -> RDiv(RMul(P(r, "K"), u0), P(r, "D"))
               [] r.block = "LeadLag" -> RMul(P(r, "K"), u0)
               [] r.block = "Washout" -> RZero
               [] r.block = "WashoutOrLag" -> IF RLe(P(r, "K"), RZero) THEN u0 ELSE RZero
               [] r.block = "Lag2ndOrd" -> RMul(P(r, "K"), u0)
               [] r.block = "GainLimiter" -> RMul(RMul(P(r, "K"), P(r, "R")), u0)
               [] OTHER -> u0

Vec(v, k) == <<v[k][1], v[k][2]>>
RECURSIVE Dot(_, _, _)
Dot(row, v, k) == IF k > Len(row) THEN RZero ELSE RAdd(RMul(<<row[k][1], row[k][2]>>, Vec(v, k)), Dot(row, v, k + 1))

(* z = (u, x..., y...) ; every equation row is  coeffs . z + const ; state rows carry their time constant *)
Lhs(r, i, z) == IF r.eqs[i].kind = "f" THEN RMul(RMul(S(r), <<r.eqs[i].T[1], r.eqs[i].T[2]>>), Vec(z, r.eqs[i].var)) ELSE RZero
Residual(r, i, z) == RSub(RAdd(Dot(r.eqs[i].coef, z, 1), <<r.eqs[i].const[1], r.eqs[i].const[2]>>), Lhs(r, i, z))
SolvesSystem(r) == \A i \in DOMAIN r.eqs : REq(Residual(r, i, r.resp), RZero)
(* the transfer function is the response to the input alone: records with a non-zero reference or integrator offset are exempt *)
HasOffset(r) == \E k \in DOMAIN r.eqs : r.eqs[k].const[1] # 0
MatchesDocumentedTF(r) == HasOffset(r) \/ REq(RMul(Vec(r.resp, r.out), Den(r)), Num(r))
(* initial values: all right-hand sides vanish (d/dt = 0) for the constant input *)
Rhs0(r, i, z) == RAdd(Dot(r.eqs[i].coef0, z, 1), <<r.eqs[i].const0[1], r.eqs[i].const0[2]>>)
InitBalances(r) == \A i \in DOMAIN r.eqs : REq(Rhs0(r, i, r.init), RZero)
InitIsDocumentedDC(r) == ~HasDC(r) \/ REq(Vec(r.init, r.out), DC(r, Vec(r.init, 1)))

(* ------------------------------------------------------------------------------------------------------- *)
(* Documented limits of the limited blocks: which quantity each limiter of a block watches and which pair of   *)
(* block parameters bounds it (block.py docstrings: "lower / upper are on the final output, aw_lower / aw_upper  *)
(* on the integrator").  A "limit" record carries, for one lattice value x of the watched quantity (and a sign   *)
(* e of its derivative), the flags the block's own limiter object returned; TLC compares them with the          *)
(* documented bounds.  Anti-windup limiters peg only when the derivative pushes outwards.                        *)
LimitDoc ==
    [PIAWHardLimit |-> [aw |-> [w |-> "B_xi", lo |-> "alo", hi |-> "ahi", aw |-> TRUE], hl |-> [w |-> "B_yul", lo |-> "lo", hi |-> "hi", aw |-> FALSE]],
     PIDAWHardLimit |-> [aw |-> [w |-> "B_xi", lo |-> "alo", hi |-> "ahi", aw |-> TRUE], hl |-> [w |-> "B_yul", lo |-> "lo", hi |-> "hi", aw |-> FALSE]],
     PITrackAW |-> [lim |-> [w |-> "B_ys", lo |-> "lo", hi |-> "hi", aw |-> FALSE]],
     PIDTrackAW |-> [lim |-> [w |-> "B_ys", lo |-> "lo", hi |-> "hi", aw |-> FALSE]],
     IntegratorAntiWindup |-> [lim |-> [w |-> "B_y", lo |-> "lo", hi |-> "hi", aw |-> TRUE]],
     LagAntiWindup |-> [lim |-> [w |-> "B_y", lo |-> "lo", hi |-> "hi", aw |-> TRUE]],
     LagAWFreeze |-> [lim |-> [w |-> "B_y", lo |-> "lo", hi |-> "hi", aw |-> TRUE]],
     LagAntiWindupRate |-> [lim |-> [w |-> "B_y", lo |-> "lo", hi |-> "hi", aw |-> TRUE]],
     LeadLagLimit |-> [lim |-> [w |-> "B_ynl", lo |-> "lo", hi |-> "hi", aw |-> TRUE]],
     GainLimiter |-> [lim |-> [w |-> "B_x", lo |-> "lo", hi |-> "hi", aw |-> FALSE]]]
Bo(c) == IF c THEN 1 ELSE 0
LimitExpected(r) ==
    LET doc == LimitDoc[r.block][r.limiter]
        x == <<r.x[1], r.x[2]>>
        lo == P(r, doc.lo)
        hi == P(r, doc.hi)
        zu == Bo(RLe(hi, x) /\ (~doc.aw \/ r.e >= 0))
        zl == Bo(RLe(x, lo) /\ (~doc.aw \/ r.e <= 0))
    IN [zu |-> zu, zl |-> zl, zi |-> Bo(zu = 0 /\ zl = 0)]
LimitVerdict(r) ==
    [id |-> r.id,
     viol |-> IF r.block \notin DOMAIN LimitDoc \/ r.limiter \notin DOMAIN LimitDoc[r.block] THEN {"LimiterIsDocumented"}
              ELSE (IF r.watched = LimitDoc[r.block][r.limiter].w THEN {} ELSE {"LimiterWatchesDocumentedQuantity"})
                   \cup (IF [zu |-> r.zu, zl |-> r.zl, zi |-> r.zi] = LimitExpected(r) THEN {} ELSE {"LimiterUsesDocumentedBounds"})]
Limits == JsonDeserialize(IOEnv.LIMITS)

Records == JsonDeserialize(IOEnv.RECORDS)
Verdict(r) == [id |-> r.id,
               viol |-> (IF SolvesSystem(r) THEN {} ELSE {"CandidateSolvesRealisation"})
                        \cup (IF MatchesDocumentedTF(r) THEN {} ELSE {"TransferFunctionAsDocumented"})
                        \cup (IF InitBalances(r) THEN {} ELSE {"InitialValuesBalance"})
                        \cup (IF InitIsDocumentedDC(r) THEN {} ELSE {"InitialOutputIsSteadyState"})]
ASSUME JsonSerialize(IOEnv.OUT, [verdicts |-> [k \in DOMAIN Records |-> Verdict(Records[k])],
                                 limits |-> [k \in DOMAIN Limits |-> LimitVerdict(Limits[k])]])
=============================================================================
