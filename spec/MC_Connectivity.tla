---- MODULE MC_Connectivity ----
EXTENDS Connectivity
MC_Buses == {1, 2, 3}
MC_Devs == {"L12", "L23", "PQ1", "PQ3", "SH3"}
MC_BusOf == [d \in MC_Devs |-> CASE d = "L12" -> {1, 2} [] d = "L23" -> {2, 3} [] d = "PQ1" -> {1} [] d = "PQ3" -> {3} [] OTHER -> {3}]
(* sanity of the graph definitions on fixed examples *)
ASSUME Components({1, 2, 3, 4}, {<<1, 2>>, <<3, 4>>}) = {{1, 2}, {3, 4}}
ASSUME Isolated({1, 2, 3}, {<<1, 2>>}) = {3}
ASSUME Components({1, 2, 3}, {<<1, 2>>}) = {{1, 2}}
ASSUME Components({1, 2, 3}, {<<1, 2>>, <<2, 3>>, <<1, 3>>}) = {{1, 2, 3}}
====
