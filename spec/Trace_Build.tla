------------------------------ MODULE Trace_Build ------------------------------
(* Validation of what a real System recorded while devices were added and set up (C19):      *)
(* registry, automatic idx, lookups, back-references, helper devices, dangling references.  *)
(* idx values and field values are typed strings ("i:1", "s:PV_1") so that 1 and "1" differ. *)
EXTENDS Integers, Sequences, FiniteSets, TLC, Json, IOUtils

Traces == JsonDeserialize(IOEnv.TRACE_FILE)
VARIABLES tid, l, s
vars == <<tid, l, s>>
Ev(i) == Traces[i].ev
Range(f) == {f[x] : x \in DOMAIN f}
Add(S, c, name) == IF c THEN S ELSE S \cup {name}
Init == tid \in 1..Len(Traces) /\ l = 1 /\ s = [viol |-> {}, drift |-> {}]

(* event "registry": adds = <<[model, req, idx]>> in order (one group); reg = <<[idx, model]>> read back from the group *)
OnRegistry(e) ==
    LET A == e.adds
        uniq == \A i, j \in DOMAIN A : i # j => A[i].idx # A[j].idx
        kept == \A i \in DOMAIN A : (A[i].req # "none" /\ ~\E j \in 1..(i - 1) : A[j].idx = A[i].req) => A[i].idx = A[i].req
        fresh == \A i \in DOMAIN A : (A[i].req = "none" \/ \E j \in 1..(i - 1) : A[j].idx = A[i].req) =>
                     (~\E j \in 1..(i - 1) : A[j].idx = A[i].idx)
        regOK == {<<r.idx, r.model>> : r \in Range(e.reg)} = {<<a.idx, a.model>> : a \in Range(A)} /\ Len(e.reg) = Len(A)
        v1 == Add(s.viol, uniq, "IdxUniqueInGroup")
        v2 == Add(v1, kept, "ExplicitFreeIdxKept")
        v3 == Add(v2, fresh, "AutoIdxFresh")
        v4 == Add(v3, regOK, "RegistryMatchesAdditions")
        v5 == Add(v4, e.idx2model_ok, "IdxResolvesToOwningModel")
    IN [s EXCEPT !.viol = v5]

(* event "lookup": table = <<[idx, model, val]>> of the group for one field; query value; result list; flags *)
OnLookup(e) ==
    LET match == {r.idx : r \in {x \in Range(e.table) : x.val = e.value}}
        res == Range(e.result)
        okAll == res = match /\ Len(e.result) = Cardinality(match)
        okOne == IF match = {} THEN (e.notfound) ELSE (~e.notfound /\ Len(e.result) = 1 /\ e.result[1] \in match)
    IN [s EXCEPT !.viol = Add(s.viol, IF e.allow_all THEN (IF match = {} THEN e.notfound ELSE okAll) ELSE okOne,
                              IF e.via_group THEN "GroupLookupExact" ELSE "ModelLookupExact")]

(* event "backref": refs = <<[from, to]>> (referrer idx -> target idx); lists = <<[target, members]>> *)
OnBackRef(e) ==
    LET expect(t) == {r.from : r \in {x \in Range(e.refs) : x.to = t}}
        ok == \A k \in DOMAIN e.lists :
                 /\ Range(e.lists[k].members) = expect(e.lists[k].target)
                 /\ Len(e.lists[k].members) = Cardinality(expect(e.lists[k].target))
    IN [s EXCEPT !.viol = Add(s.viol, ok, "BackRefExact")]

(* event "helpers": owners = <<[owner, bus, helper, given]>>; helpers = <<[idx, bus]>> (all BusFreq devices) *)
OnHelpers(e) ==
    LET H == Range(e.helpers)
        O == Range(e.owners)
        linked == \A o \in O : \E h \in H : h.idx = o.helper /\ (o.given_valid \/ h.bus = o.bus)
        keptGiven == \A o \in O : o.given_valid => o.helper = o.given
        once == \A h1, h2 \in H : (h1.auto /\ h2.auto /\ h1.bus = h2.bus) => h1.idx = h2.idx
        needed == \A h \in H : h.auto => \E o \in O : o.helper = h.idx
    IN [s EXCEPT !.viol = Add(Add(Add(Add(s.viol, linked, "HelperLinkedToRightTarget"), keptGiven, "ValidHelperIdxKept"),
                                  once, "HelpersCreatedAtMostOnce"), needed, "NoOrphanHelper")]

(* event "setup": dangling reference present? what set-up did *)
OnSetup(e) ==
    LET v1 == Add(s.viol, ~e.dangling \/ (~e.ok \/ e.raised), "DanglingReferenceReported")
        v2 == Add(v1, e.dangling \/ (e.ok /\ ~e.raised), "ConsistentDataSetsUp")
    IN [s EXCEPT !.viol = v2]

Consume ==
    /\ l <= Len(Ev(tid))
    /\ LET e == Ev(tid)[l]
       IN s' = CASE e.e = "registry" -> OnRegistry(e) [] e.e = "lookup" -> OnLookup(e) [] e.e = "backref" -> OnBackRef(e)
                 [] e.e = "addfail" -> [s EXCEPT !.viol = @ \cup {"AddGivesEveryDeviceAnIdx"}]
                 [] e.e = "refused" -> [s EXCEPT !.viol = Add(Add(@, e.raised, "MissingMandatoryReferenceRejected"),
                                                              ~e.raised \/ e.unchanged, "RejectedAddLeavesModelUnchanged")]
                 [] e.e = "helpers" -> OnHelpers(e) [] e.e = "setup" -> OnSetup(e) [] OTHER -> s
    /\ l' = l + 1 /\ UNCHANGED tid
    /\ (l = Len(Ev(tid))) => PrintT(ToJson([tid |-> Traces[tid].meta.tid, viol |-> s'.viol, drift |-> s'.drift, n |-> Len(Ev(tid))]))
Spec == Init /\ [][Consume]_vars
=============================================================================
