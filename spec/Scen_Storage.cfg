
