SPECIFICATION Spec
CONSTANTS
  ModelIds <- MC_ModelIds
  Shape <- MC_Shape
  MaxDev = 3
INVARIANT Bijection
INVARIANT SecondRoundKeepsFirst
INVARIANT AllAddressed
CHECK_DEADLOCK FALSE
