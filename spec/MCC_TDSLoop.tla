---------------------------- MODULE MCC_TDSLoop ----------------------------
(* model constants shared by the model-checking configuration and the scenario enumerator *)
EXTENDS Integers, Sequences, TLC
MC_TimerIds == {1, 2}
MC_DevOf == (1 :> "A") @@ (2 :> "A")
MC_KindOf == (1 :> "toggle") @@ (2 :> "toggle")
MC_Taus == {-10, 0, 10, 15, 20, 30, 40, 50}
MC_SegChoices == {<<40>>, <<20, 40>>, <<15, 40>>, <<25, 40>>}
MC_FixTs == {TRUE, FALSE}
MC_ShrinkTs == {TRUE, FALSE}
MC_SaveEverys == {1}
MC_Classes == {1, 2, 3}
===========================================================================
