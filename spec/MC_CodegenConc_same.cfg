SPECIFICATION Spec
CONSTANTS
  Proc <- ProcSame
  Src <- SrcSame
  Disk0 = 1
INVARIANT TypeOK
INVARIANT RunsOwnModel
INVARIANT FileWholeAtEnd
PROPERTY AllFinish
CHECK_DEADLOCK FALSE
