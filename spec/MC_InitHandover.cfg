SPECIFICATION Spec
CONSTANTS
  Gens <- MC_Gens
  Dyns <- MC_Dyns
  RefOf <- MC_RefOf
  Shares = {3, 7, 10}
INVARIANT HandoverExact
INVARIANT SuccessMeansInjectionKept
INVARIANT FailureReported
CHECK_DEADLOCK FALSE
