
