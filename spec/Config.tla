-------------------------------- MODULE Config --------------------------------
(***************************************************************************)
(* Configuration channels of one field, in the order the constructors       *)
(* apply them (System.__init__, BaseRoutine.__init__, Model.__init__,       *)
(* Config.load / add / _set / check, System._update_config_object):         *)
(*   parser := rc file;  parser[section][key] := option (overrides file);   *)
(*   (System only) Config(dct=config dictionary) first;                      *)
(*   load(parser)  - add, never overwrites;  add(defaults) - never overwrites; *)
(*   check() against declared alternatives.                                  *)
(* Values are abstract tokens; "none" = channel not used.                    *)
(***************************************************************************)
EXTENDS Integers, Sequences, FiniteSets, TLC

CONSTANTS Vals, Alts       \* Vals: tokens a channel may carry; Alts: subset accepted by check() ({} = unconstrained)
VARIABLES fileV, optV, dictV, isSystem, parser, eff, pc, raised
vars == <<fileV, optV, dictV, isSystem, parser, eff, pc, raised>>
None == "none"
Default == "default"

Init == /\ fileV \in Vals \cup {None} /\ optV \in Vals \cup {None} /\ dictV \in Vals \cup {None} /\ isSystem \in BOOLEAN
        /\ (~isSystem => dictV = None)
        /\ parser = None /\ eff = None /\ pc = "file" /\ raised = FALSE
ReadFile  == pc = "file" /\ parser' = fileV /\ pc' = "option" /\ UNCHANGED <<fileV, optV, dictV, isSystem, eff, raised>>
ApplyOpt  == pc = "option" /\ parser' = (IF optV # None THEN optV ELSE parser) /\ pc' = "dict"
             /\ UNCHANGED <<fileV, optV, dictV, isSystem, eff, raised>>
DictFirst == pc = "dict" /\ eff' = (IF isSystem /\ dictV # None THEN dictV ELSE eff) /\ pc' = "load"
             /\ UNCHANGED <<fileV, optV, dictV, isSystem, parser, raised>>
Load      == pc = "load" /\ eff' = (IF eff = None /\ parser # None THEN parser ELSE eff) /\ pc' = "defaults"
             /\ UNCHANGED <<fileV, optV, dictV, isSystem, parser, raised>>
Defaults  == pc = "defaults" /\ eff' = (IF eff = None THEN Default ELSE eff) /\ pc' = "check"
             /\ UNCHANGED <<fileV, optV, dictV, isSystem, parser, raised>>
Check     == pc = "check" /\ raised' = (Alts # {} /\ eff \notin Alts \cup {Default}) /\ pc' = "done"
             /\ UNCHANGED <<fileV, optV, dictV, isSystem, parser, eff>>
Next == ReadFile \/ ApplyOpt \/ DictFirst \/ Load \/ Defaults \/ Check
Spec == Init /\ [][Next]_vars

(* C20: the value in effect is the one supplied, with precedence (dictionary >) option > file > default *)
Expected == IF isSystem /\ dictV # None THEN dictV ELSE IF optV # None THEN optV ELSE IF fileV # None THEN fileV ELSE Default
EffectiveIsSupplied == pc = "done" => eff = Expected
(* C20: a value outside the declared alternatives is rejected *)
OutOfAlternativesRejected == pc = "done" => (raised <=> (Alts # {} /\ Expected \notin Alts \cup {Default}))
=============================================================================
