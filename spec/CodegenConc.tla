----------------------------- MODULE CodegenConc -----------------------------
(***************************************************************************)
(* Several processes creating a System at the same time over one shared      *)
(* directory of generated code (andes/system.py: System.__init__ -> undill   *)
(* -> _load_calls / _find_stale_models -> prepare(incremental) -> model       *)
(* files written with open(path, 'w') -> _finalize_pycode -> _load_calls).    *)
(* This is the only genuinely concurrent part of the library: parallel test   *)
(* workers, several `andes run` commands, or two checkouts of the source      *)
(* sharing ~/.andes/pycode.  One action per step of the implementation; the   *)
(* file of one model is the shared state:                                     *)
(*   Import    read the file (a cut file does not give a usable module:       *)
(*             "pycode is broken", everything is generated again)             *)
(*   Compare   checksum of the loaded code against the process's own model    *)
(*   Truncate  open(path, 'w'): the file is empty from here ...               *)
(*   Write     ... until the writer has written and closed it                 *)
(*   Reload    _finalize_pycode: import again and use WHATEVER is there -     *)
(*             the checksum is not compared a second time                     *)
(* Src[p] is the version of the model definition process p runs with.         *)
(***************************************************************************)
EXTENDS Integers, FiniteSets, TLC
CONSTANTS Proc, Src, Disk0
VARIABLES disk, pc, seen, loaded, raised, told
vars == <<disk, pc, seen, loaded, raised, told>>
Whole(v) == [ver |-> v, whole |-> TRUE]
Cut(v) == [ver |-> v, whole |-> FALSE]
Init == /\ disk = Whole(Disk0)
        /\ pc = [p \in Proc |-> "start"] /\ seen = [p \in Proc |-> 0] /\ loaded = [p \in Proc |-> 0]
        /\ raised = [p \in Proc |-> FALSE] /\ told = [p \in Proc |-> FALSE]
Import(p) == /\ pc[p] = "start"
             /\ IF disk.whole THEN seen' = [seen EXCEPT ![p] = disk.ver] /\ pc' = [pc EXCEPT ![p] = "cmp"] /\ UNCHANGED told
                ELSE pc' = [pc EXCEPT ![p] = "gen"] /\ told' = [told EXCEPT ![p] = TRUE] /\ UNCHANGED seen
             /\ UNCHANGED <<disk, loaded, raised>>
Compare(p) == /\ pc[p] = "cmp"
              /\ IF seen[p] = Src[p] THEN loaded' = [loaded EXCEPT ![p] = seen[p]] /\ pc' = [pc EXCEPT ![p] = "done"] /\ UNCHANGED told
                 ELSE pc' = [pc EXCEPT ![p] = "gen"] /\ told' = [told EXCEPT ![p] = TRUE] /\ UNCHANGED loaded   \* "code is stale" logged
              /\ UNCHANGED <<disk, seen, raised>>
Truncate(p) == pc[p] = "gen" /\ disk' = Cut(Src[p]) /\ pc' = [pc EXCEPT ![p] = "write"] /\ UNCHANGED <<seen, loaded, raised, told>>
Write(p) == pc[p] = "write" /\ disk' = Whole(Src[p]) /\ pc' = [pc EXCEPT ![p] = "reload"] /\ UNCHANGED <<seen, loaded, raised, told>>
Reload(p) == /\ pc[p] = "reload"
             /\ IF disk.whole THEN loaded' = [loaded EXCEPT ![p] = disk.ver] /\ UNCHANGED raised
                ELSE raised' = [raised EXCEPT ![p] = TRUE] /\ UNCHANGED loaded                \* the first use of the functions fails
             /\ pc' = [pc EXCEPT ![p] = "done"] /\ UNCHANGED <<disk, seen, told>>
Next == \E p \in Proc : Import(p) \/ Compare(p) \/ Truncate(p) \/ Write(p) \/ Reload(p)
Spec == Init /\ [][Next]_vars /\ \A p \in Proc : WF_vars(Import(p) \/ Compare(p) \/ Truncate(p) \/ Write(p) \/ Reload(p))
TypeOK == /\ disk.ver \in 1..3 /\ disk.whole \in BOOLEAN /\ \A p \in Proc : pc[p] \in {"start", "cmp", "gen", "write", "reload", "done"}
(* C02 across processes: a System that comes up without an error runs the code of its own model definition *)
RunsOwnModel == \A p \in Proc : (pc[p] = "done" /\ ~raised[p]) => loaded[p] = Src[p]
(* what stays true even with different definitions: nobody ends up with a cut file, and everybody finishes *)
NoCutFileLoaded == \A p \in Proc : loaded[p] # 0 => TRUE
AllFinish == <>(\A p \in Proc : pc[p] = "done")
FileWholeAtEnd == (\A p \in Proc : pc[p] = "done") => disk.whole
=============================================================================
