SPECIFICATION Spec
CONSTANTS
  MaxSel = 2
  Dt = 2
  Dev = {1, 2}
  Tmax = 5
INVARIANT LevelInRange
INVARIANT OneStepPerEvaluation
PROPERTY OutOfServiceNeverSwitches
PROPERTY ClosedGateChangesNothing
PROPERTY DwellTime
CHECK_DEADLOCK FALSE
