-------------------------------- MODULE ITMRule --------------------------------
(***************************************************************************)
(* The implicit integration rules of C04 stated over exact rationals:       *)
(*   trapezoidal    q = T (x - x0) - h/2 (f + f0)                            *)
(*   backward Euler q = T (x - x0) - h f                                     *)
(* and the iteration matrix of the algebraised DAE                           *)
(*   Ac = [ T - c h fx    - c h fy ]      c = 1/2 (trapezoid), 1 (b. Euler)   *)
(*        [ s gx            s gy   ]      s = g_scale h if g_scale > 0 else 1 *)
(* q is multilinear in (T, x, x0, h, f, f0) and every entry of Ac is         *)
(* multilinear in (T, h, fx, fy, gx, gy, g_scale): agreement on a grid with   *)
(* two values per argument decides equality on the whole class (DESIGN 2.4). *)
(* TLC enumerates the grid and emits the exact values; the driver evaluates   *)
(* the library's calc_q / calc_jac at the same points.                       *)
(***************************************************************************)
EXTENDS Integers, Sequences, FiniteSets, TLC, Rat, Json, IOUtils

Methods == {"trapezoid", "backeuler"}
C(m) == IF m = "trapezoid" THEN RHalf ELSE ROne

QRule(m, T, x, x0, h, f, f0) ==
    IF m = "trapezoid"
    THEN RSub(RMul(T, RSub(x, x0)), RMul(RMul(h, RHalf), RAdd(f, f0)))
    ELSE RSub(RMul(T, RSub(x, x0)), RMul(h, f))

(* grid values: asymmetric, non-zero, distinct, so that no mutated formula vanishes on the grid *)
GT  == {Q(2, 1), Q(3, 4)}
GX  == {Q(5, 4), Q(-1, 3)}
GX0 == {Q(1, 2), Q(7, 5)}
GH  == {Q(1, 30), Q(1, 8)}
GF  == {Q(3, 2), Q(-2, 7)}
GF0 == {Q(-5, 3), Q(4, 9)}

QPoints == { [m |-> m, T |-> T, x |-> x, x0 |-> x0, h |-> h, f |-> f, f0 |-> f0,
              q |-> QRule(m, T, x, x0, h, f, f0)] :
             m \in Methods, T \in GT, x \in GX, x0 \in GX0, h \in GH, f \in GF, f0 \in GF0 }

(* iteration matrix entries for a 2-state / 2-algebraic system; matrices are 2x2 as <<row1,row2>> *)
Scale(gs, h) == IF gs[1] > 0 THEN RMul(gs, h) ELSE ROne
AcEntryXX(m, T, h, fx, i, j) == RSub(IF i = j THEN T[i] ELSE RZero, RMul(RMul(C(m), h), fx[i][j]))
AcEntryXY(m, h, fy, i, j)    == RNeg(RMul(RMul(C(m), h), fy[i][j]))
AcEntryYX(gs, h, gx, i, j)   == RMul(Scale(gs, h), gx[i][j])
AcEntryYY(gs, h, gy, i, j)   == RMul(Scale(gs, h), gy[i][j])

MatA == <<<<Q(1, 2), Q(-3, 1)>>, <<Q(2, 5), Q(7, 3)>>>>
MatB == <<<<Q(-4, 3), Q(5, 2)>>, <<Q(1, 7), Q(-2, 1)>>>>
MatC == <<<<Q(3, 1), Q(1, 9)>>, <<Q(-5, 4), Q(2, 3)>>>>
MatD == <<<<Q(-1, 6), Q(4, 1)>>, <<Q(8, 3), Q(-7, 2)>>>>
Mats == {MatA, MatB, MatC, MatD}
TVecs == {<<Q(2, 1), Q(3, 4)>>, <<Q(1, 1), Q(5, 2)>>}
GScales == {Q(0, 1), Q(1, 1), Q(2, 1)}

AcOf(m, T, h, gs, fx, fy, gx, gy) ==
    [xx |-> [i \in 1..2 |-> [j \in 1..2 |-> AcEntryXX(m, T, h, fx, i, j)]],
     xy |-> [i \in 1..2 |-> [j \in 1..2 |-> AcEntryXY(m, h, fy, i, j)]],
     yx |-> [i \in 1..2 |-> [j \in 1..2 |-> AcEntryYX(gs, h, gx, i, j)]],
     yy |-> [i \in 1..2 |-> [j \in 1..2 |-> AcEntryYY(gs, h, gy, i, j)]]]

(* a Latin-square style selection keeps the matrix grid small but puts every matrix in every slot *)
Rot(k) == CASE k = 0 -> <<MatA, MatB, MatC, MatD>> [] k = 1 -> <<MatB, MatC, MatD, MatA>>
            [] k = 2 -> <<MatC, MatD, MatA, MatB>> [] OTHER -> <<MatD, MatA, MatB, MatC>>
JPoints == { [m |-> m, T |-> T, h |-> h, gs |-> gs, fx |-> Rot(k)[1], fy |-> Rot(k)[2], gx |-> Rot(k)[3],
              gy |-> Rot(k)[4],
              ac |-> AcOf(m, T, h, gs, Rot(k)[1], Rot(k)[2], Rot(k)[3], Rot(k)[4])] :
             m \in Methods, T \in TVecs, h \in GH, gs \in GScales, k \in 0..3 }

(* sanity properties of the rule itself, checked by TLC as assumptions *)
ASSUME \A p \in QPoints : (REq(p.x, p.x0) /\ p.f = RNeg(p.f0) /\ p.m = "trapezoid") => REq(p.q, RZero)
ASSUME \A m \in Methods, T \in GT, x \in GX, h \in GH :
           REq(QRule(m, T, x, x, h, RZero, RZero), RZero)         \* an equilibrium satisfies both rules
ASSUME \A T \in GT, x \in GX, x0 \in GX0, h \in GH, f \in GF :    \* the two rules differ by h/2 (f - f0)
           REq(RSub(QRule("trapezoid", T, x, x0, h, f, f), QRule("backeuler", T, x, x0, h, f, f)), RZero)

ASSUME JsonSerialize(IOEnv.OUT, [q |-> QPoints, jac |-> JPoints])
================================================================================
