---- MODULE Scen_TimeSeries ----
(* C06, time-series updates: sets of time stamps (milliseconds) x step size x segmentation x enabled, for replay.        *)
(* Stamps at t0, on and off the step grid, at a segment boundary, at tf, beyond tf, coincident with a second row's       *)
(* neighbourhood (1 ms apart), and beyond 10 s (where a relative comparison tolerance of 1e-5 exceeds the 0.1 ms bracket *)
(* that the loop puts around every event time).                                                                          *)
EXTENDS Integers, Sequences, FiniteSets, TLC, Json, IOUtils
Early == {0, 100, 350, 351, 400, 500, 1000, 1200}
Late == {10500, 11000, 12000, 12500}
EarlySets == {S \in SUBSET Early : Cardinality(S) \in 1..3}
LateSets == {S \in SUBSET Late : Cardinality(S) \in 1..2}
RECURSIVE SetToSeq(_)
SetToSeq(S) == IF S = {} THEN <<>> ELSE LET m == CHOOSE x \in S : \A y \in S : x <= y IN <<m>> \o SetToSeq(S \ {m})
Scen(S, tf, segs, step, u) == [stamps |-> SetToSeq(S), tf |-> tf, segs |-> segs, step |-> step, u |-> u]
Scens == { Scen(S, 1000, sg, st, u) : S \in EarlySets, sg \in {<<1000>>, <<400, 1000>>, <<350, 1000>>}, st \in {100, 33}, u \in {1} }
         \cup { Scen(S, 1000, <<1000>>, 100, 0) : S \in {{350}, {0, 500}} }
         \cup { Scen(S, 12500, sg, 100, 1) : S \in LateSets, sg \in {<<12500>>, <<10500, 12500>>} }
ASSUME JsonSerialize(IOEnv.OUT, [scen |-> Scens])
====
