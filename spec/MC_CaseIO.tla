---- MODULE MC_CaseIO ----
EXTENDS CaseIO
MC_Nums == {-1, 0, 20}
====
