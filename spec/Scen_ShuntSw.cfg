CONSTANTS
  MaxSel = 2
  Dt = 2
  Dev = {1, 2}
