---- MODULE Trace_EqBinding ----
(***************************************************************************)
(* C02, equation level.  One trace per model; one event per declared item   *)
(* (residual of a variable, explicit initialiser, iterative initialiser,     *)
(* service): the numbers the executed generated code delivered for it at the *)
(* lattice points (through the library's own argument lookup and positional  *)
(* delivery) compared with the declared string evaluated independently.      *)
(* The record of a residual also names every declared variable whose string  *)
(* the delivered numbers equal, which is EqBinding's ``delivered`` map as     *)
(* observed: DeliveredToDeclared of EqBinding is evaluated on it.            *)
(***************************************************************************)
EXTENDS Integers, Sequences, FiniteSets, TLC, Json, IOUtils
Traces == JsonDeserialize(IOEnv.TRACE_FILE)
VARIABLES tid, l, s
vars == <<tid, l, s>>
Ev(i) == Traces[i].ev
Add(S, c, name) == IF c THEN S ELSE S \cup {name}
Init == tid \in 1..Len(Traces) /\ l = 1 /\ s = [viol |-> {}, drift |-> {}, items |-> 0, points |-> 0]
ToSet(q) == {q[i] : i \in DOMAIN q}
OnItem(e) ==
    LET agrees == e.agree = e.points
        v1 == Add(s.viol, e.missing \/ agrees, "ExecutedCodeEqualsDeclaredEquation:" \o e.group \o ":" \o e.key)
        (* EqBinding!DeliveredToDeclared on the observed map: the numbers a variable received are those of its own equation *)
        v2 == Add(v1, ~e.has_alts \/ agrees \/ ToSet(e.equals_declared_of) = {} \/ e.delivered_to \in ToSet(e.equals_declared_of),
                  "DeliveredToDeclaredVariable:" \o e.group \o ":" \o e.key)
        v3 == Add(v2, ~e.missing, "DeclaredEquationHasLoadedFunction:" \o e.group \o ":" \o e.key)
        d1 == Add(s.drift, e.missing \/ e.points > 0, "no_defined_point:" \o e.key)
    IN [s EXCEPT !.viol = v3, !.drift = d1, !.items = @ + 1, !.points = @ + e.points]
OnModel(e) == [s EXCEPT !.drift = Add(@, e.problems = 0, "harness_could_not_exercise_part_of:" \o e.model)]
Consume ==
    /\ l <= Len(Ev(tid))
    /\ LET e == Ev(tid)[l] IN s' = CASE e.e = "item" -> OnItem(e) [] e.e = "model" -> OnModel(e) [] OTHER -> s
    /\ l' = l + 1 /\ UNCHANGED tid
    /\ (l = Len(Ev(tid))) => PrintT(ToJson([tid |-> Traces[tid].meta.tid, viol |-> s'.viol, drift |-> s'.drift, n |-> Len(Ev(tid)),
                                            items |-> s'.items, points |-> s'.points]))
Spec == Init /\ [][Consume]_vars
====
