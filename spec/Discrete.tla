------------------------------- MODULE Discrete -------------------------------
(***************************************************************************)
(* Documented semantics of the discrete components (andes/core/discrete.py) *)
(* stated as definitions over integers / exact rationals, independent of    *)
(* the implementation's array code.  TLC enumerates the input lattices and  *)
(* the time-stamp histories and emits the value each definition prescribes; *)
(* the real classes are instantiated stand-alone and replayed (M1).         *)
(* Times are in half seconds (k stands for k/2 s) so that non-integer time  *)
(* stamps occur.                                                            *)
(***************************************************************************)
EXTENDS Integers, Sequences, FiniteSets, TLC, Rat, Json, IOUtils

B(c) == IF c THEN 1 ELSE 0

(* ---------------- comparison limiter (Limiter / HardLimiter / DeadBand flags) ---------------- *)
LimFlags(u, lo, hi, eq, sl, su, nol, nou) ==
    LET hiE == su * hi
        loE == sl * lo
        zu == IF nou THEN 0 ELSE B(IF eq THEN u >= hiE ELSE u > hiE)
        zl == IF nol THEN 0 ELSE B(IF eq THEN u <= loE ELSE u < loE)
    IN [zu |-> zu, zl |-> zl, zi |-> B(zu = 0 /\ zl = 0)]
Vals == -2..3
Lims == -1..2
LimCases == { [u |-> u, lo |-> lo, hi |-> hi, eq |-> eq, sl |-> sl, su |-> su, nol |-> nol, nou |-> nou,
               exp |-> LimFlags(u, lo, hi, eq, sl, su, nol, nou)] :
              u \in Vals, lo \in Lims, hi \in Lims, eq \in BOOLEAN, sl \in {1, -1}, su \in {1, -1},
              nol \in BOOLEAN, nou \in BOOLEAN }
(* C09: flags are mutually exclusive and exhaustive whenever the effective limits are ordered lower < upper *)
ASSUME \A c \in LimCases : (c.sl * c.lo < c.su * c.hi) => c.exp.zu + c.exp.zl + c.exp.zi = 1
(* where the property's two readings conflict: lower = upper = u with inclusive comparison (known finding) *)
DegenerateCases == {c \in LimCases : c.exp.zu + c.exp.zl + c.exp.zi # 1}
ASSUME \A c \in DegenerateCases : c.sl * c.lo >= c.su * c.hi

(* ---------------- dead band with return flags (DeadBandRT), band (-1, 1), strict comparisons ---------------- *)
(* zur: the input is inside the band and came back from above; zlr: from below; held while it stays inside;      *)
(* cleared when it leaves.  A history is a sequence of input values (in halves); all flags start at zero.        *)
RTStep(prev, x) ==
    LET zu == B(x > 2)
        zl == B(x < -2)
        zi == B(zu = 0 /\ zl = 0)
        hold == prev.zi = zi
    IN [zu |-> zu, zl |-> zl, zi |-> zi,
        zur |-> IF prev.zu = 1 /\ zi = 1 THEN 1 ELSE IF hold THEN prev.zur ELSE 0,
        zlr |-> IF prev.zl = 1 /\ zi = 1 THEN 1 ELSE IF hold THEN prev.zlr ELSE 0]
RECURSIVE RTRun(_, _, _)
RTRun(h, k, prev) == IF k > Len(h) THEN <<>> ELSE LET nx == RTStep(prev, h[k]) IN <<nx>> \o RTRun(h, k + 1, nx)
RTZero == [zu |-> 0, zl |-> 0, zi |-> 0, zur |-> 0, zlr |-> 0]
RTVals == {-4, -2, -1, 1, 2, 4}
RTCase(h) == [inputs |-> h, flags |-> RTRun(h, 1, RTZero)]
RTCases(n) == {RTCase(h) : h \in [1..n -> RTVals]}
(* the return flags are exclusive and imply "inside" *)
ASSUME \A c \in RTCases(4) : \A k \in 1..4 : c.flags[k].zur + c.flags[k].zlr <= 1 /\ (c.flags[k].zur + c.flags[k].zlr >= 1 => c.flags[k].zi = 1)

(* ---------------- anti-windup limiter on a state x with derivative e ---------------- *)
AW(x, e, lo, hi, sl, su) ==
    LET hiE == su * hi
        loE == sl * lo
        zu == B(x >= hiE /\ e >= 0)
        zl == B(x <= loE /\ e <= 0)
        zi == B(zu = 0 /\ zl = 0)
    IN [zu |-> zu, zl |-> zl, zi |-> zi,
        x |-> IF zi = 1 THEN x ELSE hiE * zu + loE * zl,     \* the state is held at the limit
        e |-> IF zi = 1 THEN e ELSE 0]                        \* its derivative is zero while pegged
AWCases == { [x |-> x, e |-> e, lo |-> lo, hi |-> hi, sl |-> sl, su |-> su, exp |-> AW(x, e, lo, hi, sl, su)] :
             x \in Vals, e \in {-1, 0, 1}, lo \in {-1, 0, 1}, hi \in {0, 1, 2}, sl \in {1, -1}, su \in {1, -1} }
(* C09: a quantity behind an anti-windup limiter never leaves [lower, upper] once the limiter has acted, and a pegged state has zero derivative *)
ASSUME \A c \in AWCases : (c.sl * c.lo < c.su * c.hi /\ c.exp.zi = 0) =>
          (c.exp.e = 0 /\ c.exp.x >= c.sl * c.lo /\ c.exp.x <= c.su * c.hi)

(* ---------------- rate limiter on the derivative e of a state; each limit can be switched off per device ---------------- *)
(* (RateLimiter: the derivative is clipped to [rl, ru]; a limit whose condition flag is 0 neither clips nor reports)           *)
RL(e, rl, ru, cl, cu) ==
    LET zlr == B(e < rl /\ cl = 1)
        e1 == IF zlr = 1 THEN rl ELSE e
        zur == B(e1 > ru /\ cu = 1)
        e2 == IF zur = 1 THEN ru ELSE e1
    IN [zlr |-> zlr, zur |-> zur, e |-> e2]
RLCases == { [e |-> e, rl |-> rl, ru |-> ru, cl |-> cl, cu |-> cu, exp |-> RL(e, rl, ru, cl, cu)] :
             e \in -3..3, rl \in {-2, -1}, ru \in {1, 2}, cl \in {0, 1}, cu \in {0, 1} }
(* a disabled limit never changes the derivative *)
ASSUME \A c \in RLCases : (c.cl = 0 /\ c.cu = 0) => (c.exp.e = c.e /\ c.exp.zlr = 0 /\ c.exp.zur = 0)
(* anti-windup limiter with rate limits: the rate limits act first, then the anti-windup rule on the clipped derivative *)
AWR(x, e, lo, hi, rl, ru, cl, cu) == LET r == RL(e, rl, ru, cl, cu) IN [rate |-> r, aw |-> AW(x, r.e, lo, hi, 1, 1)]
AWRCases == { [x |-> x, e |-> e, lo |-> -1, hi |-> 2, rl |-> -1, ru |-> 1, cl |-> cl, cu |-> cu, exp |-> AWR(x, e, -1, 2, -1, 1, cl, cu)] :
              x \in {-2, -1, 0, 2, 3}, e \in -3..3, cl \in {0, 1}, cu \in {0, 1} }

(* ---------------- iteration gating of discrete components inside Newton loops (Discrete.check_iter_err) ---------------- *)
(* a component is held back only while BOTH an iteration count below min_iter AND an error above err_tol are supplied;     *)
(* a caller that supplies neither (an external solver) always evaluates it.  None stands for "not supplied".              *)
None == -1
Gate(niter, err, minIter, errTol) == ~(niter # None /\ niter < minIter /\ err # None /\ err > errTol)
GateCases == { [niter |-> n, err |-> e, min_iter |-> m, err_tol |-> 2, open |-> Gate(n, e, m, 2)] :
               n \in {None, 0, 1, 2, 3}, e \in {None, 0, 1, 2, 3, 4}, m \in {0, 2, 3} }
ASSUME \A c \in GateCases : (c.niter = None \/ c.err = None) => c.open
ASSUME \A c \in GateCases : (c.niter # None /\ c.niter >= c.min_iter) => c.open

(* ---------------- limit adjustment at initialisation (Limiter.check_var / AntiWindup.check_eq with is_init) ---------------- *)
(* when the input starts beyond a limit, the component allows adjustment, the model allows it and the model asks for that   *)
(* side, the limit is moved to the input (the parameter array itself is changed); otherwise the limit stays; never after     *)
(* initialisation.  Signs +1 only (the library marks sign -1 as not adjustable).                                             *)
AdjLimits(u, lo, hi, compAllow, modelAllow, adjLo, adjHi, isInit) ==
    LET on == compAllow /\ modelAllow /\ isInit
    IN [lo |-> IF on /\ adjLo /\ u < lo THEN u ELSE lo, hi |-> IF on /\ adjHi /\ u > hi THEN u ELSE hi]
AdjCase(u, lo, hi, eq, ca, ma, al, ah, ii) ==
    LET L == AdjLimits(u, lo, hi, ca, ma, al, ah, ii)
    IN [u |-> u, lo |-> lo, hi |-> hi, eq |-> eq, comp_allow |-> ca, model_allow |-> ma, adj_lo |-> al, adj_hi |-> ah, is_init |-> ii,
        exp |-> [lo |-> L.lo, hi |-> L.hi, flags |-> LimFlags(u, L.lo, L.hi, eq, 1, 1, FALSE, FALSE)]]
AdjCases == { AdjCase(u, lo, hi, eq, ca, ma, al, ah, ii) :
              u \in -3..4, lo \in {-1, 0}, hi \in {1, 2}, eq \in BOOLEAN, ca \in BOOLEAN, ma \in BOOLEAN, al \in BOOLEAN, ah \in BOOLEAN,
              ii \in BOOLEAN }
(* adjustment only widens, only at initialisation, and with both sides requested the input ends up inside [lower, upper] *)
ASSUME \A c \in AdjCases : c.exp.lo <= c.lo /\ c.exp.hi >= c.hi
ASSUME \A c \in AdjCases : ~c.is_init => (c.exp.lo = c.lo /\ c.exp.hi = c.hi)
ASSUME \A c \in AdjCases : (c.is_init /\ c.comp_allow /\ c.model_allow /\ c.adj_lo /\ c.adj_hi) => (c.exp.lo <= c.u /\ c.u <= c.exp.hi)
(* the same for an anti-windup limiter on a state (derivative e): limits adjusted first, then the anti-windup rule *)
AWAdjCases == { [x |-> x, e |-> e, lo |-> -1, hi |-> 1, comp_allow |-> ca, model_allow |-> ma, adj_lo |-> al, adj_hi |-> ah, is_init |-> ii,
                 exp |-> LET L == AdjLimits(x, -1, 1, ca, ma, al, ah, ii)
                         IN [lo |-> L.lo, hi |-> L.hi, aw |-> AW(x, e, L.lo, L.hi, 1, 1)]] :
               x \in -3..3, e \in {-1, 0, 1}, ca \in BOOLEAN, ma \in BOOLEAN, al \in BOOLEAN, ah \in BOOLEAN, ii \in BOOLEAN }

(* ---------------- anti-windup flags locked after niter_lock = 4 iterations of one step (chattering stop) ---------------- *)
(* two successive evaluations inside one Newton loop: from the fifth iteration on a flag that was set stays set *)
AWLock(prev, x, e, lo, hi, niter) ==
    LET n == AW(x, e, lo, hi, 1, 1)
        zu == IF niter > 4 /\ prev.zu = 1 THEN 1 ELSE n.zu
        zl == IF niter > 4 /\ prev.zl = 1 THEN 1 ELSE n.zl
        zi == B(zu = 0 /\ zl = 0)
    IN [zu |-> zu, zl |-> zl, zi |-> zi, x |-> IF zi = 1 THEN x ELSE hi * zu + lo * zl, e |-> IF zi = 1 THEN e ELSE 0]
AWLockCases == { [x1 |-> x1, e1 |-> e1, x2 |-> x2, e2 |-> e2, lo |-> -1, hi |-> 2, niter |-> n,
                  exp |-> LET first == AW(x1, e1, -1, 2, 1, 1) IN [first |-> first, second |-> AWLock(first, x2, e2, -1, 2, n)]] :
                x1 \in {-2, -1, 0, 2, 3}, e1 \in {-1, 0, 1}, x2 \in {-2, -1, 0, 2, 3}, e2 \in {-1, 0, 1}, n \in {0, 4, 5, 6} }
                \* a state cannot be pegged at both limits: second evaluation on the far side of a locked flag is left out
AWLockSane == { c \in AWLockCases : c.exp.second.zu + c.exp.second.zl <= 1 }
ASSUME \A c \in AWLockSane : (c.niter <= 4) => c.exp.second = AW(c.x2, c.e2, -1, 2, 1, 1)

(* ---------------- sorted limiter (PV -> PQ conversion in the power flow): sticky flags, at most n per side and check ---------------- *)
(* Devices 1..3 share the limits [lo, hi]; an evaluation that passes the gate ranks the devices by (u - lo) and by (hi - u),   *)
(* takes the n smallest of each ranking, and flags those of them that violate a limit; flags once set are never cleared.      *)
(* Inputs are chosen so that no two devices are at the same distance from a limit (the ranking is then unambiguous).          *)
SLDev == 1..3
SLlo == -10
SLhi == 10
SLVals(k) == { 10 * a + k : a \in {-2, -1, 0, 1, 2} }       \* device k sees -20+k ... 20+k: below, at the edge of, inside, above
RECURSIVE NSmallest(_, _, _)
NSmallest(S, key, n) == IF n = 0 \/ S = {} THEN {}
                        ELSE LET m == CHOOSE d \in S : \A o \in S : key[d] <= key[o] IN {m} \cup NSmallest(S \ {m}, key, n - 1)
SLStep(st, u, n, open) ==
    IF ~open THEN st
    ELSE LET sel == NSmallest(SLDev, [d \in SLDev |-> u[d] - SLlo], n) \cup NSmallest(SLDev, [d \in SLDev |-> SLhi - u[d]], n)
             zl == [d \in SLDev |-> B((d \in sel /\ u[d] <= SLlo) \/ st.zl[d] = 1)]
             zu == [d \in SLDev |-> B((d \in sel /\ u[d] >= SLhi) \/ st.zu[d] = 1)]
         IN [zl |-> zl, zu |-> zu, zi |-> [d \in SLDev |-> B(zl[d] = 0 /\ zu[d] = 0)]]
SLInit == [zl |-> [d \in SLDev |-> 0], zu |-> [d \in SLDev |-> 0], zi |-> [d \in SLDev |-> 1]]
SLInputs == { u \in [SLDev -> -19..23] : \A d \in SLDev : u[d] \in SLVals(d) }
RECURSIVE SLRun(_, _, _, _)
SLRun(st, calls, n, k) == IF k > Len(calls) THEN <<>>
                          ELSE LET s2 == SLStep(st, calls[k].u, n, calls[k].open) IN <<s2>> \o SLRun(s2, calls, n, k + 1)
SLCase(calls, n) == [calls |-> calls, n |-> n, flags |-> SLRun(SLInit, calls, n, 1)]
SLInputs2 == { u \in SLInputs : \A d \in SLDev : u[d] \in {-20 + d, d, 20 + d} }
SLCalls2 == { <<[u |-> a, open |-> oa], [u |-> b, open |-> TRUE]>> : a \in SLInputs, b \in SLInputs2, oa \in BOOLEAN }
SLCases == { SLCase(c, n) : c \in SLCalls2, n \in {1, 2} }
(* sticky: a flag set by one evaluation is still set after the next; a closed gate changes nothing; each evaluation flags  *)
(* at most 2n more devices (deviation kept as the code has it: the two rankings are merged before the comparison, so when    *)
(* every device violates the same side n_select = 1 flags two of them, although the docstring says "at most one over-limit    *)
(* and one under-limit"); a device that never violated is never flagged                                                     *)
ASSUME \A c \in SLCases : \A d \in SLDev : c.flags[1].zl[d] <= c.flags[2].zl[d] /\ c.flags[1].zu[d] <= c.flags[2].zu[d]
ASSUME \A c \in SLCases : ~c.calls[1].open => c.flags[1] = SLInit
ASSUME \A c \in SLCases : Cardinality({d \in SLDev : c.flags[1].zl[d] = 1 \/ c.flags[1].zu[d] = 1}) <= 2 * c.n
ASSUME \A c \in SLCases : \A d \in SLDev : (c.calls[1].u[d] > SLlo /\ c.calls[2].u[d] > SLlo) => c.flags[2].zl[d] = 0

(* ---------------- comparators, switch, selector ---------------- *)
CmpCases == { [u |-> u, bound |-> b, eq |-> eq, lt |-> B(IF eq THEN u <= b ELSE u < b), iseq |-> B(u = b)] :
              u \in Vals, b \in Lims, eq \in BOOLEAN }
SwOptions == <<0, 1, 2, 3>>
SwCases == { [u |-> u, flags |-> [k \in 1..Len(SwOptions) |-> B(SwOptions[k] = u)]] : u \in {0, 1, 2, 3} }
SelCases == { [a |-> a, b |-> b, c |-> c, fun |-> f,
               s |-> LET m == IF f = "max" THEN (IF a >= b /\ a >= c THEN a ELSE IF b >= c THEN b ELSE c)
                                           ELSE (IF a <= b /\ a <= c THEN a ELSE IF b <= c THEN b ELSE c)
                     IN <<B(a = m), B(b = m), B(c = m)>>] : a \in Lims, b \in Lims, c \in Lims, f \in {"max", "min"} }

(* ---------------- history-dependent components ---------------- *)
(* A call history is a sequence of [t, u]; the accepted history H after it:                        *)
(*   first call (t = 0) initialises; a later time appends; the same time replaces the last value;   *)
(*   an earlier time (a rejected step retried with a smaller step) replaces the last entry.          *)
RECURSIVE Accepted(_, _)
Accepted(H, calls) ==
    IF calls = <<>> THEN H
    ELSE LET c == Head(calls)
             H2 == IF H = <<>> \/ c.t = 0 THEN <<c>>
                   ELSE IF c.t > H[Len(H)].t THEN Append(H, c)
                   ELSE [H EXCEPT ![Len(H)] = c]
         IN Accepted(H2, Tail(calls))
(* step delay by d accepted steps: the value d entries back, or the initial value if the history is shorter *)
DelayOut(H, d) == IF Len(H) > d THEN H[Len(H) - d].u ELSE H[1].u
(* backward difference over the last accepted step; zero at the first call and right after a rewind *)
DerivOut(H, calls) ==
    LET c == calls[Len(calls)]
        rew == Len(calls) > 1 /\ Len(H) >= 1 /\ c.t # 0 /\ LET Hp == Accepted(<<>>, SubSeq(calls, 1, Len(calls) - 1)) IN c.t < Hp[Len(Hp)].t
    IN IF c.t = 0 \/ rew \/ Len(H) < 2 THEN RZero
       ELSE Norm(2 * (H[Len(H)].u - H[Len(H) - 1].u), H[Len(H)].t - H[Len(H) - 1].t)     \* t in half seconds
(* trapezoidal mean over the last d accepted steps (window of d + 1 samples; padded with the first sample at time 0) *)
Pad(H, n) == IF Len(H) >= n THEN SubSeq(H, Len(H) - n + 1, Len(H)) ELSE [k \in 1..(n - Len(H)) |-> [t |-> 0, u |-> 0]] \o H
RECURSIVE TrapSum(_, _)
TrapSum(W, k) == IF k >= Len(W) THEN 0 ELSE (W[k].u + W[k + 1].u) * (W[k + 1].t - W[k].t) + TrapSum(W, k + 1)
AvgOut(H, d) ==
    LET W == Pad(H, d + 1)
    IN IF Len(H) = 1 THEN R(H[1].u) ELSE Norm(TrapSum(W, 1), 2 * (W[Len(W)].t - W[1].t))

Times == 0..4
(* a retried step goes back at most to just after the previous accepted time stamp *)
Legit(h) == \A k \in 2..Len(h) :
               LET H == Accepted(<<>>, SubSeq(h, 1, k - 1))
               IN h[k].t >= H[Len(H)].t \/ (Len(H) >= 2 /\ h[k].t > H[Len(H) - 1].t)
HistCalls(n) == { h \in [1..n -> [t : Times, u : {1, 2, 5}]] : h[1].t = 0 /\ (\A k \in 2..n : h[k].t # 0) /\ Legit(h) }
RECURSIVE Prefixes(_, _)
Prefixes(h, k) == IF k > Len(h) THEN <<>> ELSE <<SubSeq(h, 1, k)>> \o Prefixes(h, k + 1)
HistCase(h, d) ==
    [calls |-> h, d |-> d,
     delay |-> [k \in 1..Len(h) |-> DelayOut(Accepted(<<>>, SubSeq(h, 1, k)), d)],
     deriv |-> [k \in 1..Len(h) |-> DerivOut(Accepted(<<>>, SubSeq(h, 1, k)), SubSeq(h, 1, k))],
     avg   |-> [k \in 1..Len(h) |-> AvgOut(Accepted(<<>>, SubSeq(h, 1, k)), d)]]

(* ---------------- Delay / Average in time mode (delay D given in half seconds) ---------------- *)
(* P(H, tau): the piecewise-linear interpolant of the accepted history at time tau (0 <= tau <= last time).               *)
(* Delay(time):   the value D before the present time, interpolated; the initial value while less than D has elapsed.     *)
(* Average(time): the mean of the interpolant over the last D (over the elapsed time while less than D has elapsed).      *)
(* Histories: strictly increasing stamps with steps shorter than D, and repeated stamps (a step's Newton iterations: the   *)
(* last value is replaced).  Rewound stamps are left to the step mode (the time-mode memory is trimmed on every call).     *)
Seg(H, tau) == CHOOSE k \in 1..(Len(H) - 1) : H[k].t <= tau /\ tau <= H[k + 1].t
PAt(H, tau) == IF Len(H) = 1 \/ tau <= H[1].t THEN R(H[1].u)
               ELSE LET k == Seg(H, tau)
                    IN RAdd(R(H[k].u), Norm((H[k + 1].u - H[k].u) * (tau - H[k].t), H[k + 1].t - H[k].t))
DelayTOut(H, D) == LET t == H[Len(H)].t IN IF t - D <= 0 THEN R(H[1].u) ELSE PAt(H, t - D)
(* integral of the interpolant over [a, t]: the clipped first segment plus the whole segments after it *)
RECURSIVE SegSum(_, _)
SegSum(H, k) == IF k >= Len(H) THEN RZero ELSE RAdd(Norm((H[k].u + H[k + 1].u) * (H[k + 1].t - H[k].t), 2), SegSum(H, k + 1))
AvgTOut(H, D) ==
    LET t == H[Len(H)].t
        a == IF t - D > 0 THEN t - D ELSE 0
    IN IF Len(H) = 1 THEN R(H[1].u)
       ELSE LET k == Seg(H, a)
                first == RMul(Norm(H[k + 1].t - a, 2), RAdd(PAt(H, a), R(H[k + 1].u)))
            IN RDiv(RAdd(first, SegSum(H, k + 1)), R(t - a))
TimeModeCalls(n, D) == { h \in [1..n -> [t : 0..7, u : {1, 2, 5}]] :
                          /\ h[1].t = 0
                          /\ \A k \in 2..n : h[k].t >= h[k - 1].t /\ h[k].t - h[k - 1].t < D /\ (h[k].t = h[k - 1].t => (k > 2 /\ h[k].t # 0))
                          /\ \A k \in 2..n : h[k].t # 0 }
TimeCase(h, D) == [calls |-> h, D |-> D,
                   delay |-> [k \in 1..Len(h) |-> DelayTOut(Accepted(<<>>, SubSeq(h, 1, k)), D)],
                   avg   |-> [k \in 1..Len(h) |-> AvgTOut(Accepted(<<>>, SubSeq(h, 1, k)), D)]]
(* a rejected step retried with a smaller one: the last stamp is rewound to a time after the last-but-one stamp *)
TimeModeRewinds(D) == { h \in [1..4 -> [t : 0..7, u : {1, 2, 5}]] :
                         /\ h[1].t = 0 /\ h[2].t > 0 /\ h[3].t > h[2].t /\ h[3].t - h[2].t < D /\ h[2].t < D
                         /\ h[4].t > h[2].t /\ h[4].t < h[3].t /\ h[3].t - D > 0 }
(* a constant input is delayed and averaged to itself *)
ASSUME \A h \in TimeModeCalls(3, 3) : (\A k \in 1..3 : h[k].u = 2) => (\A k \in 1..3 : REq(TimeCase(h, 3).delay[k], R(2)) /\ REq(TimeCase(h, 3).avg[k], R(2)))

(* sample and hold with period P (half seconds) and offset 0: a new sample is taken at the first call whose time   *)
(* exceeds the time of the previous sample by more than P; between samples the output holds                         *)
RECURSIVE SampleRun(_, _, _, _)
SampleRun(calls, k, lastT, held) ==
    IF k > Len(calls) THEN <<>>
    ELSE LET c == calls[k]
             take == c.t = 0 \/ (c.t > lastT /\ c.t - lastT > 2)          \* P = 1 s = 2 half seconds
             out == IF take THEN c.u ELSE held
         IN <<out>> \o SampleRun(calls, k + 1, IF take THEN c.t ELSE lastT, out)
USeq == <<1, 2, 4, 7, 11, 16>>
MonoTimes(n) == { f \in [1..n -> 0..9] : f[1] = 0 /\ \A k \in 2..n : f[k] > f[k - 1] }
MonoCalls(n) == { [k \in 1..n |-> [t |-> f[k], u |-> USeq[k]]] : f \in MonoTimes(n) }
SampCase(h) == [calls |-> h, out |-> SampleRun(h, 1, 0, 0)]
=============================================================================
