---- MODULE Trace_Config ----
(* C20 clauses on recorded configurations of real Systems; values are typed strings ("i:2", "f:0.5", "s:klu") *)
EXTENDS Integers, Sequences, FiniteSets, TLC, Json, IOUtils
Traces == JsonDeserialize(IOEnv.TRACE_FILE)
VARIABLES tid, l, s
vars == <<tid, l, s>>
Ev(i) == Traces[i].ev
Add(S, c, name) == IF c THEN S ELSE S \cup {name}
Init == tid \in 1..Len(Traces) /\ l = 1 /\ s = [viol |-> {}, drift |-> {}]
Expected(e) == IF e.is_system /\ e.vdict # "none" THEN e.vdict ELSE IF e.vopt # "none" THEN e.vopt
               ELSE IF e.vfile # "none" THEN e.vfile ELSE e.vdef
OnField(e) == [s EXCEPT !.viol = Add(Add(s.viol, e.veff = Expected(e), "EffectiveValueIsSupplied:" \o e.channels),
                                     e.vused = "none" \/ e.vused = e.veff, "RoutineUsesEffectiveValue")]
OnReject(e) == [s EXCEPT !.viol = Add(s.viol, e.raised, "InvalidInputRejected:" \o e.kind)]
OnAccept(e) == [s EXCEPT !.viol = Add(s.viol, ~e.raised, "ValidInputAccepted:" \o e.kind)]
OnRoundTrip(e) == [s EXCEPT !.viol = Add(Add(s.viol, e.same_values, "SaveLoadReproducesValues"), e.same_types, "SaveLoadReproducesTypes")]
Consume ==
    /\ l <= Len(Ev(tid))
    /\ LET e == Ev(tid)[l] IN s' = CASE e.e = "field" -> OnField(e) [] e.e = "reject" -> OnReject(e) [] e.e = "accept" -> OnAccept(e)
                                      [] e.e = "roundtrip" -> OnRoundTrip(e) [] OTHER -> s
    /\ l' = l + 1 /\ UNCHANGED tid
    /\ (l = Len(Ev(tid))) => PrintT(ToJson([tid |-> Traces[tid].meta.tid, viol |-> s'.viol, drift |-> s'.drift, n |-> Len(Ev(tid))]))
Spec == Init /\ [][Consume]_vars
====
