
