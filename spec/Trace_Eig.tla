---- MODULE Trace_Eig ----
(* C08 clauses on records of the library's eigenvalue routines run on matrices enumerated from EigReduce.tla (exact As and
   characteristic polynomial supplied by TLC) and on stock cases (dense block elimination as reference) *)
EXTENDS Integers, Sequences, FiniteSets, TLC, Json, IOUtils
Traces == JsonDeserialize(IOEnv.TRACE_FILE)
VARIABLES tid, l, s
vars == <<tid, l, s>>
Ev(i) == Traces[i].ev
Add(S, c, name) == IF c THEN S ELSE S \cup {name}
Init == tid \in 1..Len(Traces) /\ l = 1 /\ s = [viol |-> {}, drift |-> {}]
OnRec(e) ==
    LET v0 == Add(s.viol, ~e.raised, "ReductionNeverRaises")
        v1 == Add(v0, e.raised \/ (e.shape_ok /\ e.as_ok), "StateMatrixIsBlockElimination")
        v2 == Add(v1, e.raised \/ (e.count_ok /\ e.roots_ok), "EigenvaluesAreRootsOfExactCharacteristicPolynomial")
        v3 == Add(v2, e.raised \/ e.names_ok, "ZeroTimeConstantStatesRemovedNamesKept")
        v4 == Add(v3, e.raised \/ (e.counts_partition /\ e.counts_ok), "CountsPartitionEigenvalues")
        v5 == Add(v4, e.raised \/ (e.pf_nonneg /\ e.pf_sum_ok), "ParticipationNonNegativeSumsToOne")
        v6 == Add(v5, e.raised \/ e.pf_argmax_ok, "MostAssociatedStateNamed")
    IN [s EXCEPT !.viol = v6]
Consume ==
    /\ l <= Len(Ev(tid))
    /\ s' = OnRec(Ev(tid)[l])
    /\ l' = l + 1 /\ UNCHANGED tid
    /\ (l = Len(Ev(tid))) => PrintT(ToJson([tid |-> Traces[tid].meta.tid, viol |-> s'.viol, drift |-> s'.drift, n |-> Len(Ev(tid))]))
Spec == Init /\ [][Consume]_vars
====
