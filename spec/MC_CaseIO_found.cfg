SPECIFICATION Spec
CONSTANTS
  Mode = "found"
  Nums <- MC_Nums
  Default = 7
INVARIANT RoundTripIdentity
INVARIANT KindIndependent
CHECK_DEADLOCK FALSE
