---------------------------- MODULE Scen_TDSLoop ----------------------------
(* Enumerates the scenario space of MC_TDSLoop as data for replay into the real code (M1). *)
EXTENDS MCC_TDSLoop, FiniteSets, Json, IOUtils
FailPlans == {{}} \cup {{k} : k \in 1..6} \cup {{1, 2}, {2, 3}, {3, 5}}
ScenSet == { [timers |-> tm, segs |-> sg, fixt |-> f, shrinkt |-> sh, fail |-> fp] :
               tm \in [MC_TimerIds -> [tau : MC_Taus, en : BOOLEAN]], sg \in MC_SegChoices,
               f \in MC_FixTs, sh \in MC_ShrinkTs, fp \in FailPlans }
ASSUME JsonSerialize(IOEnv.OUT, [n |-> Cardinality(ScenSet), scen |-> ScenSet])
=============================================================================
