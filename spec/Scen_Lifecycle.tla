---- MODULE Scen_Lifecycle ----
(* operation sequences for lifecycle replay (M1): all sequences over Ops of length 1..MaxLen *)
EXTENDS Integers, Sequences, FiniteSets, TLC, Json, IOUtils
Ops == {"pflow", "tds", "eig", "reset", "overload", "restore"}
RECURSIVE SeqsUpTo(_)
SeqsUpTo(n) == IF n = 0 THEN {<<>>} ELSE LET S == SeqsUpTo(n - 1) IN S \cup {Append(q, o) : q \in {x \in S : Len(x) = n - 1}, o \in Ops}
ASSUME JsonSerialize(IOEnv.OUT, [seq3 |-> SeqsUpTo(3) \ {<<>>}, seq4 |-> SeqsUpTo(4) \ {<<>>}])
====
