
