---- MODULE Scen_ACNetwork ----
(* lattice of parameter tuples x operating points with the exact residuals and Jacobian entries *)
EXTENDS ACNetwork
NSeq == JsonDeserialize(IOEnv.NS)      \* indices of the parameter tuples to emit (all 0..8191 in the thorough tier)
NSet == {NSeq[i] : i \in DOMAIN NSeq}
ASSUME JsonSerialize(IOEnv.OUT, [cases |-> { [n |-> n, d |-> Data(n), pt |-> pt, res |-> Residual(Data(n), pt),
                                             jac |-> IF (n + pt.k1) % 3 = 0 THEN Jac(Data(n), pt) ELSE <<>>] : n \in NSet, pt \in Points }])
====
