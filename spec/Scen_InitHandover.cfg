
