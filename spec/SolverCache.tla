------------------------------ MODULE SolverCache ------------------------------
(***************************************************************************)
(* The sparse-solver wrappers (andes/linsolvers/suitesparse.py, scipy.py,   *)
(* solverbase.py): cached symbolic factorisation (SuiteSparse) / cached LU  *)
(* (SciPy), the refresh flags the routines set, and the one-shot entry.     *)
(* A matrix is [id, pat, sing]; the result of a call is                     *)
(*   <<"sol", id>>  the solution of that matrix' system                      *)
(*   <<"nan", 0>>   an all-NaN vector (failure signalled)                    *)
(*   <<"rhs", 0>>   the right-hand side handed back unchanged                *)
(* Mode "found" transcribes the code as found; "repaired" the corrected one. *)
(***************************************************************************)
EXTENDS Integers, Sequences, FiniteSets, TLC

CONSTANTS Mats, Lib, Mode, MaxCalls
VARIABLES F, factorize, newA, lu, last, lastA, lastDocFact, ncalls
vars == <<F, factorize, newA, lu, last, lastA, lastDocFact, ncalls>>
None == [id |-> 0, pat |-> "none", sing |-> FALSE]

Init == /\ F = "none" /\ factorize = TRUE /\ newA = (Lib = "spsolve") /\ lu = 0
        /\ last = <<"none", 0>> /\ lastA = None /\ lastDocFact = FALSE /\ ncalls = 0
Call == ncalls < MaxCalls /\ ncalls' = ncalls + 1

Core(A) == IF A.sing THEN <<"nan", 0>> ELSE <<"sol", A.id>>

(* SuiteSparseSolver.solve *)
SSolve(A) ==
    /\ Lib \in {"klu", "umfpack"} /\ Call
    /\ LET F1 == IF factorize THEN A.pat ELSE F
           mismatch == F1 # A.pat                       \* numeric() raises ValueError: re-symbolic, solve again
       IN /\ F' = A.pat /\ factorize' = FALSE
          /\ last' = IF mismatch /\ Mode = "found" /\ A.sing THEN <<"rhs", 0>> ELSE Core(A)
    /\ lastA' = A /\ lastDocFact' = TRUE /\ UNCHANGED <<newA, lu>>

(* one-shot linsolve of klu / umfpack: full factorisation each call; singular: error logged *)
SLin(A) ==
    /\ Lib \in {"klu", "umfpack"} /\ Call
    /\ last' = IF A.sing THEN (IF Mode = "found" THEN <<"rhs", 0>> ELSE <<"nan", 0>>) ELSE <<"sol", A.id>>
    /\ lastA' = A /\ lastDocFact' = TRUE /\ UNCHANGED <<F, factorize, newA, lu>>

(* SpSolve.solve: LU refreshed only when a refresh was requested *)
PSolve(A) ==
    /\ Lib = "spsolve" /\ Call
    /\ LET refresh == factorize \/ newA
           lu1 == IF refresh THEN A.id ELSE lu
       IN /\ lu' = lu1 /\ factorize' = FALSE /\ newA' = FALSE
          /\ last' = <<"sol", lu1>>
          /\ lastDocFact' = refresh
    /\ lastA' = A /\ UNCHANGED F
PLin(A) ==
    /\ Lib = "spsolve" /\ Call
    /\ last' = <<"sol", A.id>> /\ lastA' = A /\ lastDocFact' = TRUE /\ UNCHANGED <<F, factorize, newA, lu>>

SetFactorize == Call /\ factorize' = TRUE /\ UNCHANGED <<F, newA, lu, last, lastA, lastDocFact>>
SetNewA == Lib = "spsolve" /\ Call /\ newA' = TRUE /\ UNCHANGED <<F, factorize, lu, last, lastA, lastDocFact>>
Clear == Call /\ F' = "none" /\ factorize' = TRUE /\ UNCHANGED <<newA, lu, last, lastA, lastDocFact>>

Next == (\E A \in Mats : SSolve(A) \/ SLin(A) \/ (~A.sing /\ (PSolve(A) \/ PLin(A)))) \/ SetFactorize \/ SetNewA \/ Clear
Spec == Init /\ [][Next]_vars

(* C16: every call documented to factorise returns the solution of the matrix it was given *)
Solves == (lastDocFact /\ ~lastA.sing /\ lastA.id # 0) => last = <<"sol", lastA.id>>
(* C16/C17: a singular matrix is signalled by NaN, never answered with the untouched right-hand side *)
SingularSignalled == (lastDocFact /\ lastA.sing) => last = <<"nan", 0>>
=============================================================================
