SPECIFICATION PSpec
CONSTANTS
  Kc = 3
  Values = {1, 2, 5}
  MaxOps = 4
INVARIANT Consistent
INVARIANT TimeConstantFollows
PROPERTY ResetRestores
CHECK_DEADLOCK FALSE
