------------------------------- MODULE ACNetwork -------------------------------
(***************************************************************************)
(* Complex power balance of a two-bus network written from the physical    *)
(* data (C01) over exact Gaussian rationals, and its Jacobian as exact      *)
(* lattice differences of the residual (C03).                               *)
(*                                                                         *)
(* Branch (line / two-winding transformer) between bus 1 (from) and bus 2   *)
(* (to): series admittance ys = 1/(r + jx); total charging g + jb split in   *)
(* halves; additional from-side shunt g1 + jb1 and to-side shunt g2 + jb2;   *)
(* ideal transformer t e^{j phi} on the from side; status u.  All branch     *)
(* data are in the device's own base (Sn, Vn1) and are converted with the    *)
(* textbook factors of PerUnitK:  z-type by K("z"), y-type by K("y").        *)
(*   Yff = (ys + yh) / t^2        yh = (g1 + g/2) + j (b1 + b/2)             *)
(*   Yft = -ys / (t e^{-j phi})   yk = (g2 + g/2) + j (b2 + b/2)             *)
(*   Ytf = -ys / (t e^{+j phi})                                              *)
(*   Ytt =  ys + yk                                                          *)
(* Injections: S1 = V1 conj(Yff V1 + Yft V2),  S2 = V2 conj(Ytf V1 + Ytt V2) *)
(* Bus 2 also carries a shunt (gs + j bs), a constant-power load (p0, q0)    *)
(* and a PV generator (p, q); bus 1 a slack generator (p, q).                *)
(* Angles are multiples of pi/2 (quarter turns), so e^{j theta} is exact.    *)
(***************************************************************************)
EXTENDS Integers, Sequences, FiniteSets, TLC, Rat, Json, IOUtils

(* ---- Gaussian rationals <<re, im>> ---- *)
C(re, im) == <<re, im>>
CAdd(a, b) == <<RAdd(a[1], b[1]), RAdd(a[2], b[2])>>
CSub(a, b) == <<RSub(a[1], b[1]), RSub(a[2], b[2])>>
CMul(a, b) == <<RSub(RMul(a[1], b[1]), RMul(a[2], b[2])), RAdd(RMul(a[1], b[2]), RMul(a[2], b[1]))>>
CConj(a) == <<a[1], RNeg(a[2])>>
CScale(k, a) == <<RMul(k, a[1]), RMul(k, a[2])>>
CInv(a) == LET d == RAdd(RMul(a[1], a[1]), RMul(a[2], a[2])) IN <<RDiv(a[1], d), RNeg(RDiv(a[2], d))>>
CZero == <<RZero, RZero>>
(* e^{j k pi/2} *)
Turn(k) == LET m == k % 4 IN CASE m = 0 -> C(ROne, RZero) [] m = 1 -> C(RZero, ROne) [] m = 2 -> C(RNeg(ROne), RZero) [] OTHER -> C(RZero, RNeg(ROne))
Phasor(v, k) == CScale(v, Turn(k))

(* ---- per-unit factors in terms of the base ratios (PerUnitK!K2) ---- *)
Kz(rv, rs) == RDiv(RMul(rv, rv), rs)
Ky(rv, rs) == RDiv(rs, RMul(rv, rv))

(* branch admittances in system per unit; d is the record of branch data, rv = Vn1/Vb1, rs = Sn/Sb *)
Ys(d) == IF d.u = 0 THEN CZero ELSE CInv(C(RMul(d.r, Kz(d.rv, d.rs)), RMul(d.x, Kz(d.rv, d.rs))))
Yh(d) == IF d.u = 0 THEN CZero ELSE CScale(Ky(d.rv, d.rs), C(RAdd(d.g1, RMul(RHalf, d.g)), RAdd(d.b1, RMul(RHalf, d.b))))
Yk(d) == IF d.u = 0 THEN CZero ELSE CScale(Ky(d.rv, d.rs), C(RAdd(d.g2, RMul(RHalf, d.g)), RAdd(d.b2, RMul(RHalf, d.b))))
T2(d) == RMul(d.tap, d.tap)
Yff(d) == CScale(RDiv(ROne, T2(d)), CAdd(Ys(d), Yh(d)))
Yft(d) == CScale(RNeg(RDiv(ROne, d.tap)), CMul(Ys(d), Turn(d.phi)))        \* 1 / e^{-j phi} = e^{+j phi}
Ytf(d) == CScale(RNeg(RDiv(ROne, d.tap)), CMul(Ys(d), Turn(4 - (d.phi % 4))))
Ytt(d) == CAdd(Ys(d), Yk(d))

(* ---- residuals of the four bus equations at the point pt = [v1, k1, v2, k2] ---- *)
(*   P rows: power leaving the bus through the branch + loads + shunts - generation = 0 *)
S1(d, pt) == LET V1 == Phasor(pt.v1, pt.k1) V2 == Phasor(pt.v2, pt.k2) IN CMul(V1, CConj(CAdd(CMul(Yff(d), V1), CMul(Yft(d), V2))))
S2(d, pt) == LET V1 == Phasor(pt.v1, pt.k1) V2 == Phasor(pt.v2, pt.k2) IN CMul(V2, CConj(CAdd(CMul(Ytf(d), V1), CMul(Ytt(d), V2))))
V2sq(pt) == RMul(pt.v2, pt.v2)
Residual(d, pt) ==
    [P1 |-> RSub(S1(d, pt)[1], RMul(R(d.usl), d.psl)),
     Q1 |-> RSub(S1(d, pt)[2], RMul(R(d.usl), d.qsl)),
     P2 |-> RSub(RAdd(RAdd(S2(d, pt)[1], RMul(R(d.upq), d.p0)), RMul(R(d.ush), RMul(V2sq(pt), d.gs))), RMul(R(d.upv), d.ppv)),
     Q2 |-> RSub(RSub(RAdd(S2(d, pt)[2], RMul(R(d.upq), d.q0)), RMul(R(d.ush), RMul(V2sq(pt), d.bs))), RMul(R(d.upv), d.qpv))]

(* ---- exact Jacobian entries as lattice differences of the residual ---- *)
(* quadratic in each magnitude: the central difference with step h is exact *)
DH == Q(1, 4)
Rows == {"P1", "Q1", "P2", "Q2"}
Jac(d, pt) ==
    LET v1p == Residual(d, [pt EXCEPT !.v1 = RAdd(pt.v1, DH)])   v1m == Residual(d, [pt EXCEPT !.v1 = RSub(pt.v1, DH)])
        v2p == Residual(d, [pt EXCEPT !.v2 = RAdd(pt.v2, DH)])   v2m == Residual(d, [pt EXCEPT !.v2 = RSub(pt.v2, DH)])
        (* first harmonic in each angle: (G(a + pi/2) - G(a - pi/2)) / 2 = dG/da exactly *)
        a1p == Residual(d, [pt EXCEPT !.k1 = pt.k1 + 1])         a1m == Residual(d, [pt EXCEPT !.k1 = pt.k1 + 3])
        a2p == Residual(d, [pt EXCEPT !.k2 = pt.k2 + 1])         a2m == Residual(d, [pt EXCEPT !.k2 = pt.k2 + 3])
        twoH == RMul(R(2), DH)
    IN [row \in Rows |-> [a1 |-> RMul(RHalf, RSub(a1p[row], a1m[row])), a2 |-> RMul(RHalf, RSub(a2p[row], a2m[row])),
                          v1 |-> RDiv(RSub(v1p[row], v1m[row]), twoH), v2 |-> RDiv(RSub(v2p[row], v2m[row]), twoH)]]

(* ---- sanity of the formulation (checked by TLC as assumptions) ---- *)
Flat == [v1 |-> ROne, k1 |-> 0, v2 |-> ROne, k2 |-> 0]
Plain == [r |-> Q(1, 2), x |-> Q(1, 2), g |-> RZero, b |-> RZero, g1 |-> RZero, b1 |-> RZero, g2 |-> RZero, b2 |-> RZero,
          tap |-> ROne, phi |-> 0, u |-> 1, rv |-> ROne, rs |-> ROne, psl |-> RZero, qsl |-> RZero, usl |-> 1,
          p0 |-> RZero, q0 |-> RZero, upq |-> 1, gs |-> RZero, bs |-> RZero, ush |-> 1, ppv |-> RZero, qpv |-> RZero, upv |-> 1]
(* no flow on a lossless-shunt branch between equal voltages; an out-of-service branch carries nothing *)
ASSUME \A row \in Rows : REq(Residual(Plain, Flat)[row], RZero)
ASSUME \A row \in Rows : REq(Residual([Plain EXCEPT !.u = 0], [Flat EXCEPT !.v2 = Q(1, 2), !.k2 = 1])[row], RZero)
(* a pure to-side shunt appears only in the to-side balance, a from-side shunt only in the from-side balance *)
ASSUME REq(Residual([Plain EXCEPT !.b2 = Q(1, 4)], Flat).Q1, RZero) /\ REq(Residual([Plain EXCEPT !.b2 = Q(1, 4)], Flat).Q2, Q(-1, 4))
ASSUME REq(Residual([Plain EXCEPT !.b1 = Q(1, 4)], Flat).Q2, RZero) /\ REq(Residual([Plain EXCEPT !.b1 = Q(1, 4)], Flat).Q1, Q(-1, 4))
(* active power is conserved on a lossless branch: P1 + P2 = 0 *)
ASSUME LET d == [Plain EXCEPT !.r = RZero] pt == [Flat EXCEPT !.k2 = 1, !.v2 = Q(3, 2)] IN REq(RAdd(Residual(d, pt).P1, Residual(d, pt).P2), RZero)

(* ---- the lattice ---- *)
Bit(n, k) == (n \div (2 ^ k)) % 2
Pick(n, k, a, b) == IF Bit(n, k) = 0 THEN a ELSE b
(* parameter tuples: index n selects one of two values for each parameter (a mixed 2-level design) *)
Data(n) ==
    [r   |-> Pick(n, 0, Q(1, 2), Q(1, 4)),   x   |-> Pick(n, 1, Q(1, 2), Q(1, 4)),
     g   |-> Pick(n, 2, RZero, Q(1, 4)),     b   |-> Pick(n, 3, Q(1, 2), Q(1, 8)),
     g1  |-> Pick(n, 4, RZero, Q(1, 8)),     b1  |-> Pick(n, 5, Q(1, 4), RZero),
     g2  |-> Pick(n, 6, Q(1, 4), RZero),     b2  |-> Pick(n, 7, RZero, Q(3, 8)),
     tap |-> Pick(n, 8, ROne, Q(2, 1)),      phi |-> (Bit(n, 9) + 2 * Bit(n, 0) * Bit(n, 9)) % 4,
     u   |-> IF n % 37 = 5 THEN 0 ELSE 1,
     rv  |-> Pick(n, 10, ROne, Q(2, 1)),     rs  |-> Pick(n, 11, ROne, Q(2, 1)),
     psl |-> Q(3, 4), qsl |-> Q(-1, 4), usl |-> 1,
     p0  |-> Pick(n, 1, Q(1, 2), Q(5, 4)),   q0  |-> Pick(n, 2, Q(1, 4), Q(-1, 2)),  upq |-> Pick(n, 12, 1, 0),
     gs  |-> Pick(n, 3, Q(1, 8), RZero),     bs  |-> Pick(n, 4, Q(1, 4), Q(1, 2)),   ush |-> IF n % 11 = 3 THEN 0 ELSE 1,
     ppv |-> Pick(n, 5, Q(1, 2), Q(3, 4)),   qpv |-> Pick(n, 6, Q(1, 8), Q(-3, 8)),  upv |-> IF n % 7 = 2 THEN 0 ELSE 1]
VGrid == {Q(1, 2), ROne, Q(3, 2)}
Points == { [v1 |-> v1, k1 |-> k1, v2 |-> v2, k2 |-> 0] : v1 \in VGrid, v2 \in VGrid, k1 \in 0..3 }
=============================================================================
