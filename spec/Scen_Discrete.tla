---- MODULE Scen_Discrete ----
EXTENDS Discrete
ASSUME JsonSerialize(IOEnv.OUT, [lim |-> LimCases, aw |-> AWCases, cmp |-> CmpCases, sw |-> SwCases, sel |-> SelCases,
                                 hist |-> {HistCase(h, d) : h \in HistCalls(4), d \in {1, 2}} \cup {HistCase(h, 1) : h \in HistCalls(3)},
                                 rt |-> RTCases(5), rl |-> RLCases, awr |-> AWRCases,
                                 samp |-> {SampCase(h) : h \in MonoCalls(5)},
                                 timemode |-> {TimeCase(h, 3) : h \in TimeModeCalls(4, 3)} \cup {TimeCase(h, 2) : h \in TimeModeCalls(4, 2)},
                                 timemode_rewind |-> {TimeCase(h, 3) : h \in TimeModeRewinds(3)},
                                 gate |-> GateCases, adj |-> AdjCases, awadj |-> AWAdjCases, awlock |-> AWLockSane, sorted |-> SLCases,
                                 degenerate |-> Cardinality(DegenerateCases)])
====
