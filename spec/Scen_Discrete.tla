---- MODULE Scen_Discrete ----
EXTENDS Discrete
ASSUME JsonSerialize(IOEnv.OUT, [lim |-> LimCases, aw |-> AWCases, cmp |-> CmpCases, sw |-> SwCases, sel |-> SelCases,
                                 hist |-> {HistCase(h, d) : h \in HistCalls(4), d \in {1, 2}} \cup {HistCase(h, 1) : h \in HistCalls(3)},
                                 rt |-> RTCases(5), rl |-> RLCases, awr |-> AWRCases,
                                 samp |-> {SampCase(h) : h \in MonoCalls(5)},
                                 gate |-> GateCases, adj |-> AdjCases, awadj |-> AWAdjCases, awlock |-> AWLockSane, sorted |-> SLCases,
                                 degenerate |-> Cardinality(DegenerateCases)])
====
