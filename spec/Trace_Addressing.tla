--------------------------- MODULE Trace_Addressing ---------------------------
(* Validation of address tables observed on real Systems (after set-up = phase 1, after TDS.init =  *)
(* phase 2) against the C10 clauses: bijection of internal variables onto slots, the second round   *)
(* keeps the first, external variables resolve to the device named by the index field, names and     *)
(* the three views (model / group / global vector) agree.                                            *)
EXTENDS Integers, Sequences, FiniteSets, TLC, Json, IOUtils

Traces == JsonDeserialize(IOEnv.TRACE_FILE)
VARIABLES tid, l, s
vars == <<tid, l, s>>
Ev(i) == Traces[i].ev
Range(f) == {f[x] : x \in DOMAIN f}
Add(S, c, name) == IF c THEN S ELSE S \cup {name}

Init == tid \in 1..Len(Traces) /\ l = 1 /\ s = [prev |-> <<>>, viol |-> {}, drift |-> {}]

(* flat = concatenation of the address lists of all internal variables of one kind *)
Bij(flat, size) == Len(flat) = size /\ Range(flat) = 0..(size - 1)

OnAddr(e) ==
    LET v1 == Add(s.viol, Bij(e.xflat, e.n), "StateSlotsBijection")
        v2 == Add(v1, Bij(e.yflat, e.m), "AlgebSlotsBijection")
        kept == \A k \in DOMAIN s.prev :
                   \A j \in DOMAIN e.x \cup DOMAIN e.y :
                      LET cur == IF j \in DOMAIN e.x /\ e.x[j].key = s.prev[k].key THEN e.x[j].a
                                 ELSE IF j \in DOMAIN e.y /\ e.y[j].key = s.prev[k].key THEN e.y[j].a ELSE s.prev[k].a
                      IN cur = s.prev[k].a
        v3 == Add(v2, e.phase = 1 \/ kept, "SecondRoundKeepsFirst")
        v4 == Add(v3, \A k \in DOMAIN e.ext : e.ext[k].a = e.ext[k].expected, "ExternalFollowsIndexField")
        v5 == Add(v4, e.names_ok, "SlotNamesMatchVariable")
        v6 == Add(v5, Cardinality(Range(e.xnames)) = e.n /\ Cardinality(Range(e.ynames)) = e.m, "SlotNamesUnique")
        v7 == Add(v6, e.views_ok, "ThreeViewsAgree")
        v8 == Add(v7, e.params_ok, "ExternalParamsFollowIndexField")
    IN [s EXCEPT !.viol = v8, !.prev = (IF e.phase = 1 THEN e.x \o e.y ELSE s.prev)]

Consume ==
    /\ l <= Len(Ev(tid))
    /\ LET e == Ev(tid)[l] IN s' = IF e.e = "addr" THEN OnAddr(e) ELSE s
    /\ l' = l + 1 /\ UNCHANGED tid
    /\ (l = Len(Ev(tid))) => PrintT(ToJson([tid |-> Traces[tid].meta.tid, viol |-> s'.viol, drift |-> s'.drift, n |-> Len(Ev(tid))]))
Spec == Init /\ [][Consume]_vars
=============================================================================
