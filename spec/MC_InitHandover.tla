---- MODULE MC_InitHandover ----
EXTENDS InitHandover
MC_Gens == {"G1", "G2"}
MC_Dyns == {"D1", "D2", "D3"}
MC_RefOf == [d \in MC_Dyns |-> IF d = "D3" THEN "G2" ELSE "G1"]
====
