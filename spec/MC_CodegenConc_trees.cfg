SPECIFICATION Spec
CONSTANTS
  Proc <- ProcTrees
  Src <- SrcTrees
  Disk0 = 3
INVARIANT TypeOK
INVARIANT RunsOwnModel
CHECK_DEADLOCK FALSE
