---- MODULE Scen_InitHandover ----
(* hand-over scenarios for replay: two machines on generator G (shares in tenths, on/off), one machine on the slack *)
EXTENDS Integers, Sequences, FiniteSets, TLC, Json, IOUtils
Sc == { [g1 |-> a, g2 |-> b, u1 |-> u1, u2 |-> u2, us |-> us, kind |-> k] :
          a \in {3, 5, 10}, b \in {0, 5, 7}, u1 \in {0, 1}, u2 \in {0, 1}, us \in {0, 1}, k \in {"GENCLS", "GENROU"} }
ASSUME JsonSerialize(IOEnv.OUT, [scen |-> Sc])
====
