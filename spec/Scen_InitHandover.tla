---- MODULE Scen_InitHandover ----
(* hand-over scenarios for replay: two machines on generator G (shares in tenths, on/off), one machine on the slack *)
EXTENDS Integers, Sequences, FiniteSets, TLC, Json, IOUtils
Sc == { [g1 |-> a, g2 |-> b, u1 |-> u1, u2 |-> u2, us |-> us, kind |-> k] :
          a \in {3, 5, 10}, b \in {0, 5, 7}, u1 \in {0, 1}, u2 \in {0, 1}, us \in {0, 1}, k \in {"GENCLS", "GENROU"} }
      \cup
      (* a distributed generator sharing the SLACK generator with the machine (shares d and 10 - d): what it takes over is the *)
      (* solved power of the slack generator, not the starting value in the data                                              *)
      { [g1 |-> a, g2 |-> 0, u1 |-> 1, u2 |-> 0, us |-> 1, kind |-> k, dg |-> d] : a \in {10}, k \in {"GENROU"}, d \in {2, 5} }
ASSUME JsonSerialize(IOEnv.OUT, [scen |-> Sc])
====
