--------------------------------- MODULE CaseIO ---------------------------------
(***************************************************************************)
(* Case data through the writers and readers (andes/io, ModelData.add,      *)
(* NumParam.add): a parameter value is [kind, val] with kind in             *)
(*   "int" | "float" (numerically equal values may arrive as either,        *)
(*   depending on the format: xlsx cells give ints, json gives floats),      *)
(*   "none" (missing / NaN) and "str".                                       *)
(* add() normalises: none -> default; values violating non_zero /            *)
(* non_positive / non_negative -> default.  C13 needs the normal form to be  *)
(* independent of the numeric kind (one case in two formats is one system)   *)
(* and dump -> load to be the identity on normal forms.                      *)
(* Mode "found": the sign / zero rules are applied to floats only.           *)
(***************************************************************************)
EXTENDS Integers, Sequences, FiniteSets, TLC
CONSTANTS Mode, Nums, Default
Flags == [nz : BOOLEAN, npos : BOOLEAN, nneg : BOOLEAN]
Vals == [kind : {"int", "float"}, val : Nums] \cup {[kind |-> "none", val |-> 0]}
Ruled(v) == IF Mode = "found" THEN v.kind = "float" ELSE v.kind \in {"int", "float"}
Norm(v, f) ==
    IF v.kind = "none" THEN Default
    ELSE IF Ruled(v) /\ ((f.nz /\ v.val = 0) \/ (f.npos /\ v.val > 0) \/ (f.nneg /\ v.val < 0)) THEN Default
    ELSE v.val
(* writers emit the stored number; the json reader yields floats, the xlsx reader ints where the number is integral *)
ReadBack(x, fmt) == [kind |-> IF fmt = "json" THEN "float" ELSE "int", val |-> x]

VARIABLES v, f, stored, fmt, reread, pc
vars == <<v, f, stored, fmt, reread, pc>>
Init == v \in Vals /\ f \in Flags /\ stored = 0 /\ fmt \in {"json", "xlsx"} /\ reread = 0 /\ pc = "add"
Add == pc = "add" /\ stored' = Norm(v, f) /\ pc' = "dump" /\ UNCHANGED <<v, f, fmt, reread>>
DumpLoad == pc = "dump" /\ reread' = Norm(ReadBack(stored, fmt), f) /\ pc' = "done" /\ UNCHANGED <<v, f, stored, fmt>>
Next == Add \/ DumpLoad
Spec == Init /\ [][Next]_vars
(* C13: writing and reading back gives the same input value *)
RoundTripIdentity == pc = "done" => reread = stored
(* C13: the numeric kind in which a format delivers a number does not change the system *)
KindIndependent == \A n \in Nums, g \in Flags : Norm([kind |-> "int", val |-> n], g) = Norm([kind |-> "float", val |-> n], g)
=============================================================================
