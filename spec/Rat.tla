---------------------------------- MODULE Rat ----------------------------------
(* Exact rational arithmetic on pairs <<num, den>>, den > 0, normalised by gcd.  *)
(* Values stay small (|num|, den < 2^20 in all grids) because TLC ints are 32-bit. *)
EXTENDS Integers
RECURSIVE Gcd(_, _)
Gcd(a, b) == IF b = 0 THEN a ELSE Gcd(b, a % b)
Abs(a) == IF a < 0 THEN -a ELSE a
Norm(n, d) == LET s == IF d < 0 THEN -1 ELSE 1
                  g == Gcd(Abs(n), Abs(d))
                  gg == IF g = 0 THEN 1 ELSE g
              IN <<(s * n) \div gg, (s * d) \div gg>>
R(n) == <<n, 1>>
Q(n, d) == Norm(n, d)
RAdd(a, b) == Norm(a[1] * b[2] + b[1] * a[2], a[2] * b[2])
RSub(a, b) == Norm(a[1] * b[2] - b[1] * a[2], a[2] * b[2])
RMul(a, b) == Norm(a[1] * b[1], a[2] * b[2])
RDiv(a, b) == Norm(a[1] * b[2], a[2] * b[1])
RNeg(a) == <<-a[1], a[2]>>
REq(a, b) == a[1] * b[2] = b[1] * a[2]
RLt(a, b) == a[1] * b[2] < b[1] * a[2]
RLe(a, b) == a[1] * b[2] <= b[1] * a[2]
RZero == <<0, 1>>
ROne == <<1, 1>>
RHalf == <<1, 2>>
================================================================================
