---- MODULE MC_CodegenConc ----
EXTENDS CodegenConc
ProcSame == {1, 2, 3}
SrcSame == [p \in ProcSame |-> 2]          \* parallel workers of one checkout: the same (edited) model definition everywhere
ProcTrees == {1, 2}
SrcTrees == <<1, 2>>                         \* two checkouts with different definitions sharing one directory of generated code
====
