---- MODULE MC_SolverCache ----
EXTENDS SolverCache
MC_Mats == {[id |-> 1, pat |-> "P", sing |-> FALSE], [id |-> 2, pat |-> "P", sing |-> FALSE],
            [id |-> 3, pat |-> "Q", sing |-> FALSE], [id |-> 4, pat |-> "P", sing |-> TRUE],
            [id |-> 5, pat |-> "Q", sing |-> TRUE]}
====
