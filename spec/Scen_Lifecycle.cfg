
