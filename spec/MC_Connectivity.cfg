SPECIFICATION CSpec
CONSTANTS
  Buses <- MC_Buses
  Devs <- MC_Devs
  BusOf <- MC_BusOf
INVARIANT ExactPropagation
CHECK_DEADLOCK FALSE
