---- MODULE MC_Storage ----
EXTENDS Storage
MC_SegLens == {<<5>>, <<3, 4>>, <<6, 1>>, <<2, 2, 3>>, <<0, 4>>}
====
