---------------------------- MODULE MC_ShuntSw ----------------------------
(* the switched-shunt adjuster as a state machine: evaluations at non-decreasing times with arbitrary voltage zones *)
EXTENDS ShuntSw
CONSTANTS Tmax
VARIABLES st, now, lastSwitch, moved
vars == <<st, now, lastSwitch, moved>>
Init == /\ st \in [sel : [Dev -> 0..MaxSel], tLast : {[d \in Dev |-> 0]}, on : [Dev -> BOOLEAN]]
        /\ now = PF /\ lastSwitch = [d \in Dev |-> PF - Dt] /\ moved = [d \in Dev |-> 0]
Call(t, z, o) ==
    /\ t >= now /\ t <= Tmax /\ (t = PF \/ t >= 0)
    /\ now' = t
    /\ st' = Eval(st, [t |-> t, zone |-> z, open |-> o])
    /\ moved' = [d \in Dev |-> st'.sel[d] - st.sel[d]]
    /\ lastSwitch' = [d \in Dev |-> IF st'.sel[d] # st.sel[d] THEN t ELSE lastSwitch[d]]
Next == \E t \in {PF} \cup 0..Tmax, z \in [Dev -> Zones], o \in BOOLEAN : Call(t, z, o)
Spec == Init /\ [][Next]_vars
LevelInRange == \A d \in Dev : st.sel[d] \in 0..MaxSel
OneStepPerEvaluation == \A d \in Dev : moved[d] \in {-1, 0, 1}
OutOfServiceNeverSwitches == [][\A d \in Dev : ~st.on[d] => st'.sel[d] = st.sel[d]]_vars
ClosedGateChangesNothing == [][\A t \in {PF} \cup 0..Tmax, z \in [Dev -> Zones] : Call(t, z, FALSE) => st' = st]_vars
(* during simulation two switchings of one device are at least Dt apart *)
DwellTime == [][\A d \in Dev : (st'.sel[d] # st.sel[d] /\ now' > 0 /\ lastSwitch[d] >= 0) => now' - lastSwitch[d] >= Dt]_vars
(* a switching moves the level towards the band: up only when the voltage is low, down only when it is high (taken from the call) *)
=============================================================================
