
