---- MODULE Scen_PerUnit ----
(* (1) exact conversion factors for base tuples handed in by the driver (IOEnv.BASES: JSON list of   *)
(*     [rv, rs] = [Vn/Vb, Sn/Sb] as reduced <<num,den>> pairs); (2) alter / set / reset sequences for replay.          *)
EXTENDS PerUnitK
Bases == JsonDeserialize(IOEnv.BASES)
Factors == [i \in DOMAIN Bases |->
              [k \in Kinds |-> K2(k, <<Bases[i][1][1], Bases[i][1][2]>>, <<Bases[i][2][1], Bases[i][2][2]>>)]]
OpsSet == {"alter_v", "alter_vin", "set", "reset", "group_alter"}
Seqs(n) == [1..n -> OpsSet]
ASSUME JsonSerialize(IOEnv.OUT, [factors |-> Factors, seqs |-> UNION {Seqs(n) : n \in 1..3}])
====
