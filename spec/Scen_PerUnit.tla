---- MODULE Scen_PerUnit ----
(* (1) exact conversion factors for base tuples handed in by the driver (IOEnv.BASES: JSON list of   *)
(*     [rv, rs, rvd, rid] = [Vn/Vb, Sn/Sb, Vdcn/Vdcb, Idcn/Idcb] as reduced <<num,den>> pairs); (2) alter / set / reset sequences for replay.          *)
EXTENDS PerUnitK
Bases == JsonDeserialize(IOEnv.BASES)
Factors == [i \in DOMAIN Bases |->
              [k \in Kinds \cup DCKinds |->
                 IF k \in Kinds THEN K2(k, <<Bases[i][1][1], Bases[i][1][2]>>, <<Bases[i][2][1], Bases[i][2][2]>>)
                 ELSE KDC(k, <<Bases[i][3][1], Bases[i][3][2]>>, <<Bases[i][4][1], Bases[i][4][2]>>)]]
OpsSet == {"alter_v", "alter_vin", "set", "reset", "group_alter"}
Seqs(n) == [1..n -> OpsSet]
ASSUME JsonSerialize(IOEnv.OUT, [factors |-> Factors, seqs |-> UNION {Seqs(n) : n \in 1..3}])
====
