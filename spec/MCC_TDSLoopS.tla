---------------------------- MODULE MCC_TDSLoopS ----------------------------
(* constants emphasising step control / failure paths: one timer, two failures, NaN and criteria exits, thinning *)
EXTENDS Integers, Sequences, TLC
MC_TimerIds == {1}
MC_DevOf == (1 :> "A")
MC_KindOf == (1 :> "toggle")
MC_Taus == {0, 15, 40}
MC_SegChoices == {<<40>>, <<25, 40>>}
MC_FixTs == {TRUE, FALSE}
MC_ShrinkTs == {TRUE, FALSE}
MC_SaveEverys == {1, 3}
MC_Classes == {1, 3}
===========================================================================
