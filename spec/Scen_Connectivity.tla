---- MODULE Scen_Connectivity ----
(* every graph on 3 and 4 buses: each candidate branch is absent / in service / out of service;        *)
(* slack placements (one or two slack generators, on or off) and the set of buses switched off later.  *)
EXTENDS Integers, Sequences, FiniteSets, TLC, Json, IOUtils
Pairs(n) == {<<i, j>> \in (1..n) \X (1..n) : i < j}
States == {"absent", "on", "off"}
Graphs(n) == [Pairs(n) -> States]
ToSeq(n, g) == [k \in 1..Cardinality(Pairs(n)) |->
                  LET p == CHOOSE q \in Pairs(n) : Cardinality({r \in Pairs(n) : r[1] < q[1] \/ (r[1] = q[1] /\ r[2] < q[2])}) = k - 1
                  IN [i |-> p[1], j |-> p[2], st |-> g[p]]]
G3 == { [n |-> 3, br |-> ToSeq(3, g)] : g \in Graphs(3) }
G4 == { [n |-> 4, br |-> ToSeq(4, g)] : g \in Graphs(4) }
SlackSets == { <<[bus |-> 1, u |-> 1]>>, <<[bus |-> 2, u |-> 1]>>, <<[bus |-> 1, u |-> 0]>>,
               <<[bus |-> 1, u |-> 1], [bus |-> 3, u |-> 1]>>, <<[bus |-> 1, u |-> 1], [bus |-> 3, u |-> 0]>>,
               <<[bus |-> 2, u |-> 1], [bus |-> 2, u |-> 1]>> }
OffSets(n) == {{}} \cup {{b} : b \in 1..n} \cup {{1, 2}, {2, 3}}
(* set partitions of 1..n (restricted-growth labellings) with at least three blocks: many islands with interleaved bus numbers; *)
(* each block becomes a path through its members in increasing order, singleton blocks are isolated buses                     *)
RG(n, k) == {f \in [1..n -> 1..k] : f[1] = 1 /\ \A i \in 2..n : \E j \in 1..(i - 1) : f[i] <= f[j] + 1}
NBlocks(f, n) == Cardinality({f[i] : i \in 1..n})
Parts(n) == {f \in RG(n, 4) : NBlocks(f, n) >= 3 /\ Cardinality({b \in 1..4 : Cardinality({i \in 1..n : f[i] = b}) >= 2}) >= 2}
ASSUME JsonSerialize(IOEnv.OUT, [g3 |-> G3, g4 |-> G4, slacks |-> SlackSets, off3 |-> OffSets(3), off4 |-> OffSets(4), parts6 |-> Parts(6), parts7 |-> Parts(7)])
====
