---------------------------- MODULE Trace_TDSLoop ----------------------------
(***************************************************************************)
(* Validation of recorded executions of TDS.run() against the laws of      *)
(* TDSLoop.  One TLC run consumes a batch of traces (IOEnv.TRACE_FILE: a    *)
(* JSON array of [meta, ev]); every trace is an initial state, every logged *)
(* event is one step.                                                      *)
(*                                                                         *)
(* Two layers (DESIGN section 6):                                          *)
(*  - property layer  : literal readings of C04/C06/C14/C15/C17 clauses,    *)
(*                      evaluated on the logged abstract state; a failed   *)
(*                      clause is added to s.viol                          *)
(*  - conformance layer: the transcription laws of TDSLoop (event order,   *)
(*                      switch pointer, skip rule, clipping); a failed law  *)
(*                      is added to s.drift ("model drift", never an alarm) *)
(* State is always bound from the log, so a trace is consumed to its end   *)
(* and the verdict is total.  All times are ranks (order-isomorphic to the  *)
(* floats of the run), so =, <, > are exactly the float comparisons.        *)
(***************************************************************************)
EXTENDS Integers, Sequences, FiniteSets, TLC, Json, IOUtils, TDSLaws

Traces == JsonDeserialize(IOEnv.TRACE_FILE)

VARIABLES tid, l, s
vars == <<tid, l, s>>

Ev(i) == Traces[i].ev
Meta(i) == Traces[i].meta
Range(f) == {f[x] : x \in DOMAIN f}

NoT == 0   \* "no time yet" (ranks start at 1)

Init ==
    /\ tid \in 1..Len(Traces)
    /\ l = 1
    /\ s = [ph |-> "idle", tf |-> NoT, t |-> NoT, fixt |-> FALSE, saveEvery |-> 1, seg |-> 0, inited |-> FALSE,
            fired |-> [i \in 1..Len(Meta(tid).timers) |-> 0],
            firedAt |-> [i \in 1..Len(Meta(tid).timers) |-> NoT],
            lastStored |-> NoT, nStored |-> 0, lastAcc |-> NoT, storedThis |-> FALSE, kc |-> 0,
            stat |-> <<>>, stat0 |-> <<>>, swT |-> <<>>, swIdx |-> 0, nxt |-> NoT, nacc |-> 0, nrej |-> 0,
            viol |-> {}, drift |-> {}]

Tm(i) == Meta(tid).timers[i]
TimerIdx == 1..Len(Meta(tid).timers)
Zero == Meta(tid).rank0
DevOfT == [i \in TimerIdx |-> Tm(i).target]
KindOfT == [i \in TimerIdx |-> Tm(i).kind]
Tracked(k) == k \in {"toggle", "on", "off"}

V(vs, c, name) == IF c THEN vs ELSE vs \cup {name}
D(ds, c, name) == IF c THEN ds ELSE ds \cup {name}

-----------------------------------------------------------------------------
OnRunBegin(e) ==
    [s EXCEPT !.ph = "begin", !.tf = e.tf, !.fixt = e.fixt, !.saveEvery = e.save_every, !.seg = e.seg,
              !.drift = D(D(s.drift, e.resume = s.inited, "resume_iff_initialised"),
                          s.ph \in {"idle", "done"}, "order_run_begin")]

OnInit(e) ==
    LET swOK == \A i \in TimerIdx : Tm(i).nonneg => \E k \in 1..Len(e.sw) : e.sw[k] = Tm(i).tau
        sorted == \A k \in 1..(Len(e.sw) - 1) : e.sw[k] < e.sw[k + 1]
    IN [s EXCEPT !.ph = "top", !.swT = e.sw, !.swIdx = e.sw_idx, !.inited = TRUE, !.t = e.t, !.stat = e.status, !.stat0 = e.status,
                 !.drift = D(D(s.drift, swOK, "switch_list_has_every_timer"), sorted, "switch_list_sorted")]

OnTop(e) ==
    LET v1 == V(s.viol, e.hsign >= 0, "StepNonNegative")
        v2 == IF e.fixt /\ ~e.h_le_tstep THEN v1 \cup {"StepWithinFixedStep"} ELSE v1
        v3 == IF ~e.t_le_tf THEN v2 \cup {"StepNotPastTf"} ELSE v2
    IN [s EXCEPT !.ph = "step", !.t = e.t, !.kc = e.kcount, !.viol = v3,
                 !.drift = D(D(D(s.drift, s.ph = "top", "order_top"), e.loop_cond, "loop_condition"),
                             s.nxt = NoT \/ e.t <= s.nxt, "time_stamp_passes_next_switch")]

Crossed(a, b) == \E i \in TimerIdx : Tm(i).nonneg /\ a < Tm(i).tau /\ Tm(i).tau < b

OnStep(e) ==
    IF e.ret
    THEN LET v1 == V(s.viol, e.inc_ok, "AcceptedStepWithinTol")
             v2 == IF s.lastAcc # NoT /\ Crossed(s.lastAcc, e.t) THEN v1 \cup {"NoStepCrossesEvent"} ELSE v1
             v3 == IF e.nan_state THEN v2 \cup {"NoNaNAccepted"} ELSE v2
             v4a == IF s.lastAcc # NoT /\ ~(e.t > s.lastAcc) THEN v3 \cup {"AcceptedTimesIncrease"} ELSE v3
             (* the rule is the rule with the models' present time constants *)
             v4b == V(v4a, e.mass_current, "StepUsesCurrentTimeConstants")
             (* C04: T (x1 - x0) = h (theta f1 + (1 - theta) f0) recomputed from the start and end values of the step, for every *)
             (* state that no limiter reports as pegged                                                                        *)
             v4 == V(v4b, e.rule_ok, "AcceptedStepSatisfiesImplicitRule")
         IN [s EXCEPT !.ph = "post", !.lastAcc = e.t, !.nacc = s.nacc + 1, !.storedThis = FALSE, !.viol = v4,
                      !.drift = D(D(s.drift, s.ph = "step", "order_step"), e.conv, "ret_is_converged")]
    ELSE [s EXCEPT !.ph = "rej", !.nrej = s.nrej + 1,
                   !.viol = V(s.viol, e.restored, "RejectedStepRestoresState"),
                   !.drift = D(D(s.drift, s.ph = "step", "order_step"), ~e.conv \/ e.hsign = 0, "ret_is_converged")]

OnStore(e) ==
    LET v1 == IF s.nStored > 0 /\ ~(e.t > s.lastStored) THEN s.viol \cup {"StoredTimesIncrease"} ELSE s.viol
        v2 == IF e.t # s.lastAcc \/ s.ph # "post" THEN v1 \cup {"StoredRowIsAcceptedStep"} ELSE v1
        v3 == IF s.storedThis THEN v2 \cup {"OneRowPerStep"} ELSE v2
    IN [s EXCEPT !.lastStored = e.t, !.nStored = s.nStored + 1, !.storedThis = TRUE, !.viol = v3]

OnCriteria(e) ==
    [s EXCEPT !.ph = "switch",
              !.viol = V(s.viol, s.storedThis = KeepRow(s.saveEvery, s.kc), "RowPerKeptStep"),
              !.drift = D(s.drift, s.ph = "post", "order_criteria")]

CountEff(e, i) == Cardinality({k \in 1..Len(e.calls) : i \in Range(e.calls[k].eff)})
EffSet(e) == {i \in TimerIdx : CountEff(e, i) > 0}

OnSwitch(e) ==
    LET eff == EffSet(e)
        fired2 == [i \in TimerIdx |-> s.fired[i] + CountEff(e, i)]
        at2 == [i \in TimerIdx |-> IF i \in eff THEN e.t ELSE s.firedAt[i]]
        trackedEff == {i \in eff : Tracked(Tm(i).kind)}
        expStat == IF s.stat = <<>> THEN e.status ELSE ApplyEffects(s.stat, trackedEff, DevOfT, KindOfT)
        trackedTargets == {Tm(i).target : i \in {j \in TimerIdx : Tracked(Tm(j).kind)}}
        statOK == \A d \in trackedTargets : e.status[d] = expStat[d]
        v1 == V(s.viol, \A i \in eff : Tm(i).tau = e.t, "FiresAtExactEventTime")
        v2 == IF \E i \in TimerIdx : fired2[i] > 1 THEN v1 \cup {"NeverTwice"} ELSE v1
        v3 == IF 0 \in Range(e.changed) THEN v2 \cup {"OnlyAddressedDevice"} ELSE v2
        v4 == IF ~statOK THEN v3 \cup {"EffectOnAddressedDevice"} ELSE v3
        v5a == IF \E i \in eff : ~Tm(i).en THEN v4 \cup {"DisabledNeverFires"} ELSE v4
        v5 == IF ~e.alter_ok THEN v5a \cup {"AlterEffectExact"} ELSE v5a
        hit == SwitchHit(e.t, s.swT, e.idx0)
        d1 == D(s.drift, e.idx0 = s.swIdx, "switch_pointer_continuity")
        d2 == IF e.idx # (IF hit THEN e.idx0 + 1 ELSE e.idx0) THEN d1 \cup {"switch_pointer_law"} ELSE d1
        d3 == IF ~hit /\ Len(e.calls) > 0 THEN d2 \cup {"callbacks_only_on_hit"} ELSE d2
        d4 == IF s.ph # "switch" THEN d3 \cup {"order_switch"} ELSE d3
    IN [s EXCEPT !.ph = "adv", !.fired = fired2, !.firedAt = at2, !.stat = e.status, !.swIdx = e.idx,
                 !.viol = v5, !.drift = d4]

OnCalcH(e) ==
    LET keepLaw == e.idx = e.idx0    \* calc_h never moves the switch pointer (SkipMode = "lookahead")
        d1 == IF ~keepLaw THEN s.drift \cup {"calc_h_keeps_switch_pointer"} ELSE s.drift
        d2 == d1
        d3 == IF e.h > e.rem + 2 /\ e.rem >= 0 THEN d2 \cup {"clip_to_tf"} ELSE d2
        d4 == IF e.fixt /\ e.dt > e.tstep + 2 /\ ~e.first /\ ~e.resume THEN d3 \cup {"fixed_step_cap"} ELSE d3
        d5 == IF s.inited /\ e.idx0 # s.swIdx THEN d4 \cup {"switch_pointer_continuity"} ELSE d4
        ph2 == CASE s.ph \in {"adv", "rej", "begin"} -> "top" [] OTHER -> s.ph
        (* C04 / C20: with a fixed step the configured step is the one in use *)
        v0 == IF e.fixed_is_configured THEN s.viol ELSE s.viol \cup {"FixedStepIsConfiguredStep"}
        (* C04: a rejected step gives back exactly the time it took (also when the step had been clipped to an event or the end time) *)
        v1 == IF e.reject_keeps_time THEN v0 ELSE v0 \cup {"RejectedStepGivesTimeBack"}
    IN [s EXCEPT !.ph = ph2, !.swIdx = e.idx, !.nxt = (IF e.has_next THEN e.nxt ELSE NoT), !.drift = d5, !.viol = v1]

DueT(i, tf) == IsDue(Tm(i).en, Tm(i).tau, Zero, tf)
AtZero(i) == Tm(i).en /\ Tm(i).tau = Zero
TimedKinds == {"toggle", "on", "off", "alter"}

OnRunEnd(e) ==
    LET v1 == V(s.viol, e.ret <=> (~e.busted /\ e.t_eq_tf /\ ~e.raised), "SuccessIffAtTf")
        v2 == IF (~e.ret /\ e.exit_delta <= 0) \/ (e.ret /\ e.exit_delta # 0) THEN v1 \cup {"FailureBumpsExitCode"} ELSE v1
        v3 == IF e.raised THEN v2 \cup {"RunNeverRaises"} ELSE v2
        v4 == IF e.ret /\ e.nan_state THEN v3 \cup {"NoNaNPresented"} ELSE v3
        v5 == IF ~e.ts_mono THEN v4 \cup {"TimeAxisStrictlyIncreasing"} ELSE v4
        bad == {i \in TimerIdx : Tm(i).kind \in TimedKinds
                                  /\ ~FiredAsRequired(Tm(i).en, Tm(i).tau, Zero, e.tf, s.fired[i], s.firedAt[i])}
        onlyT0 == \A i \in bad : AtZero(i) /\ s.fired[i] = 0
        v6 == IF e.ret /\ bad # {} THEN v5 \cup {IF onlyT0 THEN "ExactlyOnce@t0" ELSE "ExactlyOnce"} ELSE v5
        toggleTargets == {d \in 1..Meta(tid).ntargets :
                            /\ \E i \in TimerIdx : Tm(i).target = d
                            /\ \A i \in TimerIdx : Tm(i).target = d => Tm(i).kind = "toggle"}
        nDue(d) == Cardinality({i \in TimerIdx : Tm(i).target = d /\ DueT(i, e.tf)})
        badStat == {d \in toggleTargets : s.stat0 # <<>> /\ e.status[d] # ToggleParityStatus(s.stat0[d], nDue(d))}
        t0Involved(d) == \E i \in TimerIdx : Tm(i).target = d /\ AtZero(i)
        v7 == IF e.ret /\ badStat # {}
              THEN v6 \cup {IF \A d \in badStat : t0Involved(d) THEN "EffectPersists@t0" ELSE "EffectPersists"}
              ELSE v6
        (* C17: a run during which the stability criterion was violated at a stored step does not go on and report success *)
        v8 == IF e.ret /\ e.unstable THEN v7 \cup {"UnstableRunReportedAsSuccess"} ELSE v7
    IN [s EXCEPT !.ph = "done", !.t = e.t, !.viol = v8,
                 !.drift = D(s.drift, s.ph \in {"top", "begin", "rej", "step"}, "order_run_end")]

(* C14: the resumed / snapshot-restored run against the uninterrupted run of the same scenario *)
OnCompare(e) ==
    LET v1 == V(s.viol, e.final_close, "ResumedEqualsUninterrupted")
        v2 == IF ~e.fired_same THEN v1 \cup {"ResumedFiresSameEvents"} ELSE v1
        v3 == IF ~e.status_same THEN v2 \cup {"ResumedSameFinalStatus"} ELSE v2
        v4 == IF ~e.axis_has_events THEN v3 \cup {"ResumedAxisHasEventTimes"} ELSE v3
        v5 == IF ~e.same_success THEN v4 \cup {"ResumedSameSuccess"} ELSE v4
    IN [s EXCEPT !.viol = v5]

(* C15: what was written / is readable against the rows the solver held (bit-for-bit, logged as booleans) *)
OnFiles(e) ==
    LET v1 == V(s.viol, e.mem_equal, "MemoryRowsAreSolverValues")
        v2 == IF ~e.files_exist THEN v1 \cup {"OutputFilesWritten"} ELSE v1
        v3 == IF ~e.npz_equal THEN v2 \cup {"FileRowsAreSolverValues"} ELSE v2
        v4 == IF ~e.labels_ok THEN v3 \cup {"LabelsNameColumns"} ELSE v3
        v5 == IF ~e.plotter_ok THEN v4 \cup {"PlotLoaderReadsFile"} ELSE v4
        v6 == IF ~e.csv_ok THEN v5 \cup {"CsvExportExact"} ELSE v5
        v7 == IF ~e.query_ok THEN v6 \cup {"QueriesReturnRightColumns"} ELSE v6
        v8 == IF e.files_exist /\ e.n_file # e.n_expected THEN v7 \cup {"FileHasOneRowPerKeptStep"} ELSE v7
        v9 == IF ~e.replay_ok THEN v8 \cup {"ReplayFromCsvReproduces"} ELSE v8
        v10 == IF ~e.memplot_ok THEN v9 \cup {"InMemoryPlotterShowsTheRun"} ELSE v9
    IN [s EXCEPT !.viol = v10]

(* C09: limiters observed at every stored instant of the run *)
OnLimits(e) ==
    LET v1 == V(s.viol, e.within, "LimitedStateWithinLimits")
        v2 == IF ~e.pegged_zero THEN v1 \cup {"PeggedStateHasZeroDerivative"} ELSE v1
        v3 == IF ~e.onehot THEN v2 \cup {"LimiterFlagsOneHot"} ELSE v2
    IN [s EXCEPT !.viol = v3]

OnOther(e) == s

Consume ==
    /\ l <= Len(Ev(tid))
    /\ LET e == Ev(tid)[l]
       IN s' = CASE e.e = "run_begin" -> OnRunBegin(e)
                 [] e.e = "init"      -> OnInit(e)
                 [] e.e = "top"       -> OnTop(e)
                 [] e.e = "step"      -> OnStep(e)
                 [] e.e = "store"     -> OnStore(e)
                 [] e.e = "criteria"  -> OnCriteria(e)
                 [] e.e = "switch"    -> OnSwitch(e)
                 [] e.e = "calc_h"    -> OnCalcH(e)
                 [] e.e = "run_end"   -> OnRunEnd(e)
                 [] e.e = "compare"   -> OnCompare(e)
                 [] e.e = "files"     -> OnFiles(e)
                 [] e.e = "limits"    -> OnLimits(e)
                 [] OTHER             -> OnOther(e)
    /\ l' = l + 1
    /\ UNCHANGED tid
    /\ (l = Len(Ev(tid))) =>
          PrintT(ToJson([tid |-> Meta(tid).tid, viol |-> s'.viol, drift |-> s'.drift, n |-> Len(Ev(tid)),
                         nacc |-> s'.nacc, nrej |-> s'.nrej, nfired |-> Cardinality({i \in TimerIdx : s'.fired[i] > 0}),
                         nstored |-> s'.nStored]))

Spec == Init /\ [][Consume]_vars

(* every trace must have been consumed to its end: checked by the runner through the verdict lines *)
=============================================================================
