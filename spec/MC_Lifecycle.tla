---- MODULE MC_Lifecycle ----
EXTENDS Lifecycle
MC_SetupOK == {TRUE}
MC_SetupAny == {TRUE, FALSE}
====
