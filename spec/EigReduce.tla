------------------------------- MODULE EigReduce -------------------------------
(***************************************************************************)
(* Small-signal reduction of the linearised DAE (C08) over exact rationals: *)
(*   T x' = fx x + fy y,   0 = gx x + gy y                                   *)
(* States with zero time constant are algebraic.  With D the differential   *)
(* and Z the zero-time-constant states and w = [x_Z; y]:                     *)
(*   As = T_D^-1 ( fx_DD - [fx_DZ fy_D] M^-1 [fx_ZD; gx_D] ),                *)
(*   M  = [[fx_ZZ, fy_Z], [gx_Z, gy]]                                        *)
(* (one-shot block elimination - the implementation eliminates y first,      *)
(* then reorders and eliminates the zero-T states; the two must agree).     *)
(* Here n = 3 states, m = 1 algebraic variable, at most one zero-T state.    *)
(* The finite eigenvalues are the roots of the characteristic polynomial of  *)
(* As, whose exact coefficients are emitted.                                 *)
(***************************************************************************)
EXTENDS Integers, Sequences, FiniteSets, TLC, Rat, Json, IOUtils

N3 == 1..3
(* ---- 2x2 inverse over rationals ---- *)
Det2(M) == RSub(RMul(M[1][1], M[2][2]), RMul(M[1][2], M[2][1]))
Inv2(M) == LET d == Det2(M) IN <<<<RDiv(M[2][2], d), RNeg(RDiv(M[1][2], d))>>, <<RNeg(RDiv(M[2][1], d)), RDiv(M[1][1], d)>>>>

RI(x) == R(x)
(* case: fx 3x3 ints, fy 3-vector, gx 3-vector, gy scalar, T 3-vector of rationals *)
ZeroSet(T) == {i \in N3 : T[i][1] = 0}
DiffSeq(T) == LET RECURSIVE F(_) F(i) == IF i > 3 THEN <<>> ELSE (IF T[i][1] # 0 THEN <<i>> ELSE <<>>) \o F(i + 1) IN F(1)

(* no zero-T state: As[i][j] = (fx[i][j] - fy[i] gx[j] / gy) / T[i] *)
AsPlain(fx, fy, gx, gy, T) ==
    [i \in N3 |-> [j \in N3 |-> RDiv(RSub(RI(fx[i][j]), RDiv(RMul(RI(fy[i]), RI(gx[j])), RI(gy))), T[i])]]

(* one zero-T state z: M = [[fx_zz, fy_z], [gx_z, gy]], rows D *)
AsZero(fx, fy, gx, gy, T, z) ==
    LET D == DiffSeq(T)
        M == <<<<RI(fx[z][z]), RI(fy[z])>>, <<RI(gx[z]), RI(gy)>>>>
        Mi == Inv2(M)
        \* [fx_iz fy_i] * Mi * [fx_zj; gx_j]
        corr(i, j) == RAdd(RMul(RAdd(RMul(RI(fx[i][z]), Mi[1][1]), RMul(RI(fy[i]), Mi[2][1])), RI(fx[z][j])),
                           RMul(RAdd(RMul(RI(fx[i][z]), Mi[1][2]), RMul(RI(fy[i]), Mi[2][2])), RI(gx[j])))
    IN [a \in 1..Len(D) |-> [b \in 1..Len(D) |-> RDiv(RSub(RI(fx[D[a]][D[b]]), corr(D[a], D[b])), T[D[a]])]]

Solvable(fx, fy, gx, gy, T) ==
    /\ gy # 0
    /\ Cardinality(ZeroSet(T)) <= 1
    /\ \A z \in ZeroSet(T) : Det2(<<<<RI(fx[z][z]), RI(fy[z])>>, <<RI(gx[z]), RI(gy)>>>>)[1] # 0

As(fx, fy, gx, gy, T) == IF ZeroSet(T) = {} THEN AsPlain(fx, fy, gx, gy, T)
                         ELSE AsZero(fx, fy, gx, gy, T, CHOOSE z \in ZeroSet(T) : TRUE)

(* characteristic polynomial  lambda^k - c1 lambda^(k-1) + c2 lambda^(k-2) - c3  of a k x k matrix, k <= 3 *)
Tr(A) == LET RECURSIVE S(_) S(i) == IF i > Len(A) THEN RZero ELSE RAdd(A[i][i], S(i + 1)) IN S(1)
Minor2(A, i, j) == RSub(RMul(A[i][i], A[j][j]), RMul(A[i][j], A[j][i]))
C2(A) == IF Len(A) = 2 THEN Minor2(A, 1, 2) ELSE IF Len(A) = 3 THEN RAdd(RAdd(Minor2(A, 1, 2), Minor2(A, 1, 3)), Minor2(A, 2, 3)) ELSE RZero
Det3(A) == RAdd(RSub(RMul(A[1][1], RSub(RMul(A[2][2], A[3][3]), RMul(A[2][3], A[3][2]))),
                     RMul(A[1][2], RSub(RMul(A[2][1], A[3][3]), RMul(A[2][3], A[3][1])))),
                RMul(A[1][3], RSub(RMul(A[2][1], A[3][2]), RMul(A[2][2], A[3][1]))))
C3(A) == IF Len(A) = 3 THEN Det3(A) ELSE RZero

FX == { <<<<-2, 1, 0>>, <<1, -3, 2>>, <<0, 1, -1>>>>, <<<<-1, 2, 1>>, <<0, -2, 1>>, <<1, 0, -3>>>>,
        <<<<0, 1, 0>>, <<-2, -1, 1>>, <<1, 1, -2>>>>, <<<<-3, 0, 0>>, <<0, -1, 0>>, <<0, 0, -2>>>>,
        <<<<-1, 0, 0>>, <<2, -2, 0>>, <<1, -1, -4>>>>, <<<<1, -2, 0>>, <<2, 1, 1>>, <<0, 1, -5>>>>,
        (* an undamped oscillator next to a decaying state: with fy = 0 the modes are purely imaginary (real part zero,  *)
        (* imaginary part not), which the counts by sign of the real part must classify as zero                         *)
        <<<<0, 4, 0>>, <<-1, 0, 0>>, <<0, 0, -2>>>> }
FY == { <<1, 0, 2>>, <<-1, 2, 1>>, <<0, 0, 0>> }
GX == { <<1, 1, 0>>, <<0, -1, 2>>, <<2, 0, 1>> }
GY == { 1, -2, 3 }
TV == { <<Q(1, 1), Q(2, 1), Q(1, 2)>>, <<Q(0, 1), Q(1, 1), Q(2, 1)>>, <<Q(1, 1), Q(0, 1), Q(2, 1)>>,
        <<Q(2, 1), Q(1, 2), Q(0, 1)>>, <<Q(3, 1), Q(1, 1), Q(5, 2)>> }

Case(fx, fy, gx, gy, T) ==
    LET A == As(fx, fy, gx, gy, T)
    IN [fx |-> fx, fy |-> fy, gx |-> gx, gy |-> gy, T |-> T, zero |-> ZeroSet(T), keep |-> DiffSeq(T),
        As |-> A, c1 |-> Tr(A), c2 |-> C2(A), c3 |-> C3(A)]
Cases == { Case(fx, fy, gx, gy, T) : fx \in FX, fy \in FY, gx \in GX, gy \in GY, T \in {t \in TV : TRUE} }
Good == { c \in [fx : FX, fy : FY, gx : GX, gy : GY, T : TV] : Solvable(c.fx, c.fy, c.gx, c.gy, c.T) }

(* sanity: without algebraic coupling and unit time constants the reduction is the identity on fx *)
ASSUME \A fx \in FX : \A i, j \in N3 : REq(AsPlain(fx, <<0, 0, 0>>, <<1, 1, 0>>, 1, <<ROne, ROne, ROne>>)[i][j], RI(fx[i][j]))

ASSUME JsonSerialize(IOEnv.OUT, [cases |-> { Case(c.fx, c.fy, c.gx, c.gy, c.T) : c \in Good }])
=============================================================================
