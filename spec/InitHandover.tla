----------------------------- MODULE InitHandover -----------------------------
(***************************************************************************)
(* Hand-over from the power-flow solution to the dynamic models at          *)
(* TDS.init (C05): a static generator is switched off exactly when an       *)
(* online dynamic device refers to it; the dynamic devices of one static    *)
(* generator take over its injection in shares gamma (tenths here), so the  *)
(* bus injection is preserved iff the online shares sum to one; otherwise   *)
(* the residual test must report failure.                                   *)
(***************************************************************************)
EXTENDS Integers, Sequences, FiniteSets, TLC
CONSTANTS Gens, Dyns, RefOf, Shares      \* RefOf: [Dyns -> Gens]; Shares: set of tenths a device may take
VARIABLES dynU, gamma, genU, pc, injected, testOK, exitCode
vars == <<dynU, gamma, genU, pc, injected, testOK, exitCode>>
RECURSIVE Sum(_, _)
Sum(S, f) == IF S = {} THEN 0 ELSE LET x == CHOOSE y \in S : TRUE IN f[x] + Sum(S \ {x}, f)
Online(g) == {d \in Dyns : RefOf[d] = g /\ dynU[d] = 1}
Init == /\ dynU \in [Dyns -> {0, 1}] /\ gamma \in [Dyns -> Shares] /\ genU = [g \in Gens |-> 1]
        /\ pc = "pf" /\ injected = [g \in Gens |-> 10] /\ testOK = TRUE /\ exitCode = 0
(* TDS.init: hand-over, then the residual test *)
InitDynamics ==
    /\ pc = "pf"
    /\ genU' = [g \in Gens |-> IF Online(g) # {} THEN 0 ELSE 1]
    /\ injected' = [g \in Gens |-> IF Online(g) # {} THEN Sum(Online(g), gamma) ELSE 10]
    /\ pc' = "test" /\ UNCHANGED <<dynU, gamma, testOK, exitCode>>
TestInit ==
    /\ pc = "test"
    /\ testOK' = (\A g \in Gens : injected[g] = 10)
    /\ exitCode' = exitCode + (IF \A g \in Gens : injected[g] = 10 THEN 0 ELSE 1)
    /\ pc' = "done" /\ UNCHANGED <<dynU, gamma, genU, injected>>
Next == InitDynamics \/ TestInit
Spec == Init /\ [][Next]_vars
(* C05: a static generator stays in service unless an ONLINE dynamic device replaces it *)
HandoverExact == pc # "pf" => \A g \in Gens : genU[g] = (IF Online(g) = {} THEN 1 ELSE 0)
(* C05: success of the initialisation test means the injection at every generator bus is the power-flow one *)
SuccessMeansInjectionKept == (pc = "done" /\ testOK) => \A g \in Gens : injected[g] = 10
(* C05: a non-zero residual is reported, never passed *)
FailureReported == (pc = "done" /\ ~testOK) => exitCode > 0
=============================================================================
