------------------------------- MODULE NewtonPF -------------------------------
(***************************************************************************)
(* The Newton loop of the power flow (andes/routines/pflow.py nr_solve /    *)
(* nr_step / run): iteration counter, mismatch classes, the exits, what is  *)
(* stored and what is reported.  The mismatch of an iteration is abstracted *)
(* to a class: "tiny" (< tol), "mid", "huge" (> 1e4 * first), "nan".        *)
(***************************************************************************)
EXTENDS Integers, Sequences, FiniteSets, TLC
CONSTANTS MaxIter, NanMode      \* NanMode "propagate" (repaired) | "swallow" (max(0, nan) = 0: NaN read as tiny)
VARIABLES niter, mis, converged, pc, ret, exitCode, solStored, stateNaN
vars == <<niter, mis, converged, pc, ret, exitCode, solStored, stateNaN>>
Classes == {"tiny", "mid", "huge", "nan"}
Seen(c) == IF c = "nan" /\ NanMode = "swallow" THEN "tiny" ELSE c
Init == niter = 0 /\ mis = <<>> /\ converged = FALSE /\ pc = "loop" /\ ret = FALSE /\ exitCode = 0 /\ solStored = FALSE /\ stateNaN = FALSE
Step(c) ==
    /\ pc = "loop"
    /\ mis' = Append(mis, Seen(c))
    /\ stateNaN' = (stateNaN \/ c = "nan")
    /\ IF Seen(c) = "tiny" THEN converged' = TRUE /\ pc' = "exit" /\ UNCHANGED niter
       ELSE IF niter > MaxIter THEN pc' = "exit" /\ UNCHANGED <<converged, niter>>
       ELSE IF Seen(c) = "nan" THEN pc' = "exit" /\ UNCHANGED <<converged, niter>>
       ELSE IF Seen(c) = "huge" THEN pc' = "exit" /\ UNCHANGED <<converged, niter>>
       ELSE niter' = niter + 1 /\ pc' = "loop" /\ UNCHANGED converged
    /\ UNCHANGED <<ret, exitCode, solStored>>
Exit ==
    /\ pc = "exit"
    /\ ret' = converged /\ solStored' = converged /\ exitCode' = (IF converged THEN 0 ELSE 1) /\ pc' = "done"
    /\ UNCHANGED <<niter, mis, converged, stateNaN>>
Next == (\E c \in Classes : Step(c)) \/ Exit
Spec == Init /\ [][Next]_vars
(* C01 / C17: reported convergence means the last mismatch passed the tolerance test and the state holds no NaN *)
ConvergedMeansSmall == (pc = "done" /\ ret) => (mis[Len(mis)] = "tiny" /\ ~stateNaN)
FailureReported == (pc = "done" /\ ~ret) => (exitCode = 1 /\ ~solStored)
Terminates == <>(pc = "done")
=============================================================================
