
