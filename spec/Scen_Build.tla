---- MODULE Scen_Build ----
(* add sequences for replay: StaticGen devices (model x requested idx), referrer pattern, dangling reference, helper pattern *)
EXTENDS Integers, Sequences, FiniteSets, TLC, Json, IOUtils
Reqs == {"none", "i1", "i2", "sPV_1", "sPV_2", "sSlack_2", "s1"}
Op == [model : {"PV", "Slack"}, req : Reqs]
Seqs(n) == [1..n -> Op]
AddSeqs == UNION {Seqs(n) : n \in 1..3}
ASSUME JsonSerialize(IOEnv.OUT, [adds |-> AddSeqs, refs |-> {"none", "one", "two_on_first", "each"},
                                 dangling |-> BOOLEAN, helpers |-> {"none", "two_same_bus", "two_diff_bus", "explicit_valid", "explicit_invalid"}])
====
