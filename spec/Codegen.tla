--------------------------------- MODULE Codegen ---------------------------------
(***************************************************************************)
(* The staleness protocol of generated code (System.prepare / undill /       *)
(* _load_calls / _find_stale_models, Model.get_md5): a model definition has  *)
(* a version; the generated file on disk records the checksum of the         *)
(* definition it was generated from; a System loads the file and compares    *)
(* checksums; stale code is regenerated (autogen) or reported.               *)
(* One action per step of the implementation:                                *)
(*   Edit      the developer changes an equation string of the model         *)
(*   Prepare   System.prepare(): generate, write the file, reload             *)
(*   Undill(a) System(autogen_stale = a): import the package, compare md5,    *)
(*             regenerate stale models or report them                        *)
(*   Corrupt   the generated file is damaged (not importable)                *)
(*   Truncate  a writer died mid-file: an importable prefix is left            *)
(*   Delete    the generated file is removed                                 *)
(* HashCovers = FALSE models a definition edit that the checksum does not    *)
(* see: such code would be used silently (negative control).                 *)
(***************************************************************************)
EXTENDS Integers, Sequences, FiniteSets, TLC
CONSTANTS MaxVer, MaxOps, HashCovers
VARIABLES modelVer,   \* content of the model definition in the source tree (an identifier of its equation strings)
          hashVer,    \* checksum of that content
          disk,       \* the generated file
          loaded,     \* version of the code the last System executes (0 = none)
          reported,   \* the last System() reported stale code
          raised,     \* the last System() (or the first use of its functions) raised
          nops, lastOp
vars == <<modelVer, hashVer, disk, loaded, reported, raised, nops, lastOp>>
Missing == [kind |-> "missing", ver |-> 0, hv |-> 0]
Partial(v, h) == [kind |-> "partial", ver |-> v, hv |-> h]    \* a writer died: the file ends at a statement boundary
Broken == [kind |-> "broken", ver |-> 0, hv |-> 0]
File(v, h) == [kind |-> "file", ver |-> v, hv |-> h]
Init == /\ modelVer = 1 /\ hashVer = 1 /\ disk = File(1, 1) /\ loaded = 0 /\ reported = FALSE /\ raised = FALSE
        /\ nops = 0 /\ lastOp = "none"
Op(name) == nops < MaxOps /\ nops' = nops + 1 /\ lastOp' = name
(* the definition becomes another one (content c); going back to an earlier content gives the earlier checksum *)
Hash(c) == IF HashCovers THEN c ELSE 1
EditTo(c) == /\ Op("edit") /\ c # modelVer /\ modelVer' = c /\ hashVer' = Hash(c)
             /\ UNCHANGED <<disk, loaded, reported, raised>>
Edit == \E c \in 1..MaxVer : EditTo(c)
Prepare == /\ Op("prepare") /\ disk' = File(modelVer, hashVer) /\ loaded' = modelVer /\ reported' = FALSE /\ raised' = FALSE
           /\ UNCHANGED <<modelVer, hashVer>>
(* System(): import the package, compare checksums, regenerate or report *)
Undill(autogen) ==
    /\ Op("undill")
    /\ CASE disk.kind = "broken" ->                                  \* the import error propagates
              loaded' = 0 /\ reported' = FALSE /\ raised' = TRUE /\ UNCHANGED disk
         [] disk.kind = "partial" ->                                 \* importable but incomplete: "pycode is broken",
              /\ disk' = File(modelVer, hashVer)                      \* everything is generated again whatever autogen says
              /\ loaded' = modelVer /\ reported' = FALSE /\ raised' = FALSE
         [] disk.kind = "missing" \/ (disk.kind = "file" /\ disk.hv # hashVer) ->
              IF autogen
              THEN /\ disk' = File(modelVer, hashVer) /\ reported' = TRUE
                   (* deviation kept as the code has it: after a missing file the package object of the failed import is   *)
                   (* re-used, so the regenerated module is not picked up by this System and the first use raises;         *)
                   (* the next System() finds the regenerated file                                                         *)
                   /\ IF disk.kind = "missing" THEN loaded' = 0 /\ raised' = TRUE ELSE loaded' = modelVer /\ raised' = FALSE
              ELSE /\ reported' = TRUE /\ UNCHANGED disk              \* stale, reported, not regenerated
                   /\ loaded' = disk.ver /\ raised' = (disk.kind = "missing")   \* nothing to run: the first use raises
         [] OTHER -> loaded' = disk.ver /\ reported' = FALSE /\ raised' = FALSE /\ UNCHANGED disk
    /\ UNCHANGED <<modelVer, hashVer>>
Corrupt == Op("corrupt") /\ disk' = Broken /\ UNCHANGED <<modelVer, hashVer, loaded, reported, raised>>
(* a writer is killed while writing the file: what is left is a prefix (cut at a statement boundary it still imports, *)
(* and still carries the checksum line, which is written first)                                                      *)
Truncate == /\ Op("truncate") /\ disk.kind = "file" /\ disk' = Partial(disk.ver, disk.hv)
            /\ UNCHANGED <<modelVer, hashVer, loaded, reported, raised>>
Delete == Op("delete") /\ disk' = Missing /\ UNCHANGED <<modelVer, hashVer, loaded, reported, raised>>
Next == Edit \/ Prepare \/ (\E a \in BOOLEAN : Undill(a)) \/ Corrupt \/ Truncate \/ Delete
Spec == Init /\ [][Next]_vars
TypeOK == /\ modelVer \in 1..MaxVer /\ hashVer \in 1..MaxVer /\ loaded \in 0..MaxVer
          /\ disk.kind \in {"file", "broken", "missing", "partial"} /\ reported \in BOOLEAN /\ raised \in BOOLEAN
(* C02: code that no longer matches the model is never silently used *)
NeverSilentlyStale == (lastOp = "undill" /\ loaded # modelVer) => (reported \/ raised)
(* C02: after generation, and after System() with automatic regeneration, the code of the current model runs *)
UsedCodeMatchesModel == (lastOp = "prepare") => loaded = modelVer
(* the file on disk, when intact and not reported stale, was generated from the current definition *)
FreshFileIsCurrent == (lastOp = "undill" /\ ~reported /\ ~raised) => (disk.kind = "file" /\ disk.ver = modelVer)
=============================================================================
