SPECIFICATION Spec
CONSTANTS
  MaxOps = 5
  ExitMode = "assign"
  SetupGate = TRUE
  EigGate = "late"
  SetupOutcomes <- MC_SetupOK
INVARIANT NeverRaises
INVARIANT DependantsRefuse
INVARIANT ResetRestoresTimeClass
PROPERTY FailureLeavesNonZero
CHECK_DEADLOCK FALSE
