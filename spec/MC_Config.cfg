SPECIFICATION Spec
CONSTANTS
  Vals = {"a", "b", "bad"}
  Alts = {"a", "b"}
INVARIANT EffectiveIsSupplied
INVARIANT OutOfAlternativesRejected
CHECK_DEADLOCK FALSE
