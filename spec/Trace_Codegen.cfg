SPECIFICATION TSpec
CONSTANTS
  MaxVer = 1000
  MaxOps = 100000
  HashCovers = TRUE
CHECK_DEADLOCK FALSE
