SPECIFICATION Spec
CONSTANTS
  MaxIter = 4
  NanMode = "propagate"
INVARIANT ConvergedMeansSmall
INVARIANT FailureReported
CHECK_DEADLOCK FALSE
