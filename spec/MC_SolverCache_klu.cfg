SPECIFICATION Spec
CONSTANTS
  Mats <- MC_Mats
  Lib = "klu"
  Mode = "repaired"
  MaxCalls = 5
INVARIANT Solves
INVARIANT SingularSignalled
CHECK_DEADLOCK FALSE
