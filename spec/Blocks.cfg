
