---- MODULE Trace_SolverCache ----
(* C16 clauses on recorded call sequences of real solver wrappers, and on configuration-product runs *)
EXTENDS Integers, Sequences, FiniteSets, TLC, Json, IOUtils
Traces == JsonDeserialize(IOEnv.TRACE_FILE)
VARIABLES tid, l, s
vars == <<tid, l, s>>
Ev(i) == Traces[i].ev
Add(S, c, name) == IF c THEN S ELSE S \cup {name}
Init == tid \in 1..Len(Traces) /\ l = 1 /\ s = [refresh |-> TRUE, viol |-> {}, drift |-> {}]

(* event "call": op, lib, matrix id / singular, result class: "sol:<id>" | "nan" | "rhs" | "other" *)
OnCall(e) ==
    LET docfact == e.lib \in {"klu", "umfpack"} \/ e.op = "linsolve" \/ s.refresh
        isSolve == e.op \in {"solve", "linsolve"}
        v1 == Add(s.viol, ~(isSolve /\ docfact /\ ~e.sing) \/ e.result = e.expect, "SolvesCurrentMatrix:" \o e.lib \o ":" \o e.op)
        v2 == Add(v1, ~(isSolve /\ docfact /\ e.sing /\ e.lib # "spsolve") \/ e.result = "nan", "SingularSignalledByNaN:" \o e.lib \o ":" \o e.op)
        r2 == IF e.op \in {"set_factorize", "set_new_A"} THEN TRUE
              ELSE IF e.op = "solve" /\ e.lib = "spsolve" THEN FALSE ELSE s.refresh
    IN [s EXCEPT !.viol = v2, !.refresh = r2]
(* event "config": a routine result under one configuration against the reference configuration *)
OnConfig(e) ==
    [s EXCEPT !.viol = Add(Add(Add(s.viol, e.same_success, "SameSuccessAcrossConfigurations:" \o e.routine),
                               e.close, "ResultsAgreeAcrossConfigurations:" \o e.routine),
                           e.repeat_identical, "RepetitionBitIdentical:" \o e.routine)]
Consume ==
    /\ l <= Len(Ev(tid))
    /\ LET e == Ev(tid)[l] IN s' = CASE e.e = "call" -> OnCall(e) [] e.e = "config" -> OnConfig(e) [] OTHER -> s
    /\ l' = l + 1 /\ UNCHANGED tid
    /\ (l = Len(Ev(tid))) => PrintT(ToJson([tid |-> Traces[tid].meta.tid, viol |-> s'.viol, drift |-> s'.drift, n |-> Len(Ev(tid))]))
Spec == Init /\ [][Consume]_vars
====
