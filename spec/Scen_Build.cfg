
