---- MODULE Scen_Config ----
(* channel combinations x value kinds for replay *)
EXTENDS Integers, Sequences, FiniteSets, TLC, Json, IOUtils
Combos == { [file |-> f, option |-> o, dict |-> d] : f \in BOOLEAN, o \in BOOLEAN, d \in BOOLEAN }
Kinds == {"valid", "other_valid", "out_of_alternatives"}
ASSUME JsonSerialize(IOEnv.OUT, [combos |-> Combos, kinds |-> Kinds,
                                 malformed |-> {"no_equal", "two_equal", "no_dot", "two_dots"}])
====
