---------------------------- MODULE MC_TDSLoop ----------------------------
EXTENDS TDSLoop, MCC_TDSLoop
\* bound the exploration depth (a run of <= 40 units with h >= 1 is far shorter)
DepthBound == TLCGet("level") <= 400
===========================================================================
