---- MODULE Trace_Init ----
(* C05 clauses on records of TDS.init (+ undisturbed run) of real Systems *)
EXTENDS Integers, Sequences, FiniteSets, TLC, Json, IOUtils
Traces == JsonDeserialize(IOEnv.TRACE_FILE)
VARIABLES tid, l, s
vars == <<tid, l, s>>
Ev(i) == Traces[i].ev
Add(S, c, name) == IF c THEN S ELSE S \cup {name}
Init == tid \in 1..Len(Traces) /\ l = 1 /\ s = [viol |-> {}, drift |-> {}]
OnInit(e) ==
    LET v1 == Add(s.viol, e.bus_av_kept, "BusVoltagesArePowerFlowSolution")
        v2 == Add(v1, e.handover_exact, "StaticGenOffIffOnlineDynamicDevice")
        v3 == Add(v2, e.test_ok = e.residual_small, "VerdictMatchesResiduals")
        v4 == Add(v3, e.test_ok \/ e.exit_bumped, "FailedInitialisationReported")
        v5 == Add(v4, ~e.consistent \/ e.test_ok, "ConsistentDataInitialises")
        v6 == Add(v5, ~e.test_ok \/ e.bus_injection_kept, "BusInjectionPreserved")
        v7 == Add(v6, ~e.test_ok \/ e.shares_sum_one, "InconsistentSharesReported")
    IN [s EXCEPT !.viol = v7]
(* the library's own test asked again with one residual set to NaN / inf / above / below the tolerance *)
OnProbe(e) ==
    LET v1 == Add(s.viol, e.raised \/ (e.verdict = e.should_pass), "VerdictMatchesResiduals:probe_" \o e.kind)
        v2 == Add(v1, e.raised \/ e.verdict \/ e.exit_bumped, "FailedInitialisationReported:probe_" \o e.kind)
    IN [s EXCEPT !.viol = v2]
OnFlat(e) == [s EXCEPT !.viol = Add(Add(s.viol, ~e.init_ok \/ e.run_ok, "UndisturbedRunCompletes"), ~(e.init_ok /\ e.run_ok) \/ e.stays, "UndisturbedRunStaysAtEquilibrium")]
Consume ==
    /\ l <= Len(Ev(tid))
    /\ LET e == Ev(tid)[l] IN s' = CASE e.e = "init" -> OnInit(e) [] e.e = "probe" -> OnProbe(e) [] e.e = "flat" -> OnFlat(e) [] OTHER -> s
    /\ l' = l + 1 /\ UNCHANGED tid
    /\ (l = Len(Ev(tid))) => PrintT(ToJson([tid |-> Traces[tid].meta.tid, viol |-> s'.viol, drift |-> s'.drift, n |-> Len(Ev(tid))]))
Spec == Init /\ [][Consume]_vars
====
