---- MODULE Trace_CaseIO ----
(* C13 clauses on recorded round trips of real cases *)
EXTENDS Integers, Sequences, FiniteSets, TLC, Json, IOUtils
Traces == JsonDeserialize(IOEnv.TRACE_FILE)
VARIABLES tid, l, s
vars == <<tid, l, s>>
Ev(i) == Traces[i].ev
Add(S, c, name) == IF c THEN S ELSE S \cup {name}
Init == tid \in 1..Len(Traces) /\ l = 1 /\ s = [viol |-> {}, drift |-> {}]
OnRT(e) ==
    LET v0 == Add(s.viol, ~e.raised, "RoundTripNeverRaises:" \o e.fmt)
        v1 == Add(v0, e.raised \/ e.same_devices, "SameDevices:" \o e.fmt)
        v2 == Add(v1, e.raised \/ e.same_values, "SameInputValues:" \o e.fmt)
        v3 == Add(v2, e.raised \/ e.same_pflow, "SamePowerFlow:" \o e.fmt)
        v4 == Add(v3, e.raised \/ e.same_init, "SameInitialisation:" \o e.fmt)
    IN [s EXCEPT !.viol = v4]
(* a third-party file (PSS/E raw, MATPOWER) read by the library and solved: the reported voltages balance the network that an      *)
(* independent reader takes from the same file; a legal file never makes the reader raise                                          *)
OnSrc(e) ==
    LET v0 == Add(s.viol, ~e.raised, "SourceFileNeverRaises:" \o e.fmt)
        v1 == Add(v0, e.raised \/ ~e.converged \/ e.balanced, "ParsedDataAgreeWithSourceFile:" \o e.fmt)
        d0 == Add(s.drift, e.raised \/ e.converged, "source_file_variant_did_not_converge")
        d1 == Add(d0, e.raised \/ e.decided, "source_file_has_elements_the_independent_reader_does_not_model")
    IN [s EXCEPT !.viol = v1, !.drift = d1]
Consume ==
    /\ l <= Len(Ev(tid))
    /\ s' = IF Ev(tid)[l].e = "src" THEN OnSrc(Ev(tid)[l]) ELSE OnRT(Ev(tid)[l])
    /\ l' = l + 1 /\ UNCHANGED tid
    /\ (l = Len(Ev(tid))) => PrintT(ToJson([tid |-> Traces[tid].meta.tid, viol |-> s'.viol, drift |-> s'.drift, n |-> Len(Ev(tid))]))
Spec == Init /\ [][Consume]_vars
====
