---- MODULE Scen_EqLattice ----
(* The argument lattice for the equation-level comparison of C02: level index (0..10) for every (round, device, slot). *)
(* Slot k is the k-th named input of a model.  The design mixes three strides so that any two slots take equal and     *)
(* different levels, and the middle level (zero) and both signs, within a few rounds.                                  *)
EXTENDS Integers, Sequences, TLC, Json, IOUtils
Rounds == atoi(IOEnv.ROUNDS)
Devices == 4
Slots == 420
Levels == 11
Lv(r, d, k) == ((k % Levels) * r + (k \div Levels) * (d + r) + d * d * (r + 1) + 5 * r) % Levels
Table == [r \in 1..Rounds |-> [d \in 1..Devices |-> [k \in 1..Slots |-> Lv(r, d, k)]]]
(* every slot sees zero, a negative and a positive level, and every pair of neighbouring slots is equal at some point and different at some point *)
Pts == (1..Rounds) \X (1..Devices)
ASSUME Rounds < 12 \/ \A k \in 1..Slots : (\E p \in Pts : Lv(p[1], p[2], k) = 4) /\ (\E p \in Pts : Lv(p[1], p[2], k) < 4) /\ (\E p \in Pts : Lv(p[1], p[2], k) > 4)
ASSUME Rounds < 12 \/ \A k \in 1..(Slots - 1) : (\E p \in Pts : Lv(p[1], p[2], k) = Lv(p[1], p[2], k + 1)) /\ (\E p \in Pts : Lv(p[1], p[2], k) # Lv(p[1], p[2], k + 1))
ASSUME JsonSerialize(IOEnv.OUT, [table |-> Table])
====
