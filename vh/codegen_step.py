"""
One step of a code-generation protocol scenario, run in a FRESH interpreter (generated code for a new model is only
importable in a fresh process).  Usage: python -m vh.codegen_step '<json>'
The probe model's equation strings depend on the version numbers in the state file, so "editing the model" needs no
change to the repository.
"""
import json
import os
import sys


def define_probe(state):
    import andes
    from andes.core.model import Model, ModelData
    from andes.core.param import NumParam, IdxParam
    from andes.core.var import Algeb, ExtAlgeb
    from andes.core.service import ConstService
    import types

    E, V, I, S, X, J = state["e"], state["v"], state["iter"], state["svc"], state["ext"], state["iter2"]
    from andes.core.service import PostInitService

    class VProbeData(ModelData):
        def __init__(self):
            super().__init__()
            self.bus = IdxParam(model="Bus", mandatory=True)
            self.ka = NumParam(default=2.0, info="gain")
            self.kb = NumParam(default=0.5, info="offset")

    class VProbe(VProbeData, Model):
        """Harness-defined probe model (not part of the library).  Every knob of the state file changes exactly one
        declared string: E the residual of y, V the explicit initialiser of y, S a service, I the iterative initialiser
        of z, J the iterative initialisers of the mutually dependent pair (p, q), X the residual sent to an external
        (bus) equation."""

        def __init__(self, system, config):
            VProbeData.__init__(self)
            Model.__init__(self, system, config)
            self.group = "Undefined"
            self.flags.pflow = True
            self.flags.tds = True
            self.ksv = ConstService(v_str="ka + %d" % S, info="constant service")
            self.v = ExtAlgeb(model="Bus", src="v", indexer=self.bus)
            self.a = ExtAlgeb(model="Bus", src="a", indexer=self.bus, e_str="%d * kb" % X)
            self.y = Algeb(info="probe output", v_str="ksv * v + %d * kb" % V, e_str="ksv * v + %d * kb - y" % E)
            self.z = Algeb(info="iterative init", v_str="1.0", v_iter="z * z - (%d + v)" % I, e_str="kz - z")
            self.p = Algeb(info="iterative pair", v_str="1.0 + 0 * q", v_iter="p - q - %d" % J, e_str="kp - p")
            self.q = Algeb(info="iterative pair", v_str="1.0 + 0 * p", v_iter="p + q - (3 + %d)" % J, e_str="kq - q")
            # two variables whose declaration order is a knob: code generated for the other order delivers their
            # residuals to the wrong variable
            if state.get("order", 0) % 2 == 0:
                self.w1 = Algeb(info="order probe", v_str="1.0", e_str="3 * ka - w1")
                self.w2 = Algeb(info="order probe", v_str="1.0", e_str="5 * ka - w2")
            else:
                self.w2 = Algeb(info="order probe", v_str="1.0", e_str="5 * ka - w2")
                self.w1 = Algeb(info="order probe", v_str="1.0", e_str="3 * ka - w1")
            self.kz = PostInitService(v_str="z")
            self.kp = PostInitService(v_str="p")
            self.kq = PostInitService(v_str="q")

    mod = types.ModuleType("andes.models.vprobe")
    mod.VProbe = VProbe
    mod.VProbeData = VProbeData
    VProbe.__module__ = "andes.models.vprobe"
    VProbeData.__module__ = "andes.models.vprobe"
    sys.modules["andes.models.vprobe"] = mod
    import andes.models as am
    if not any(f == "vprobe" for f, _ in am.file_classes):
        am.file_classes.append(("vprobe", ["VProbe"]))
    return VProbe


def expected_values(state, v=1.0, ka=2.0, kb=0.5):
    ksv = ka + state["svc"]
    y0 = ksv * v + state["v"] * kb
    gy = ksv * v + state["e"] * kb - y0
    z0 = (state["iter"] + v) ** 0.5
    return dict(ksv=ksv, y0=y0, gy_at_init=gy, z0=z0, p0=1.5 + state["iter2"], q0=1.5, ae=state["ext"] * kb, gw1=3 * ka - 1.0, gw2=5 * ka - 1.0)


def main():
    args = json.loads(sys.argv[1])
    sys.path.insert(0, args["repo"])
    sys.path.insert(0, args["verif"])
    state = json.load(open(args["state"]))
    op = args["op"]
    out = dict(op=op, raised=False)
    devnull = os.open(os.devnull, os.O_WRONLY)
    saved = os.dup(1)
    os.dup2(devnull, 1)
    try:
        import andes
        import logging
        andes.config_logger(stream_level=50, file=False)
        define_probe(state)
        # code generation for one model does not need a pool of all cores (16 scenarios run side by side)
        dflt = list(andes.system.System.prepare.__defaults__)
        dflt[-1] = 2
        andes.system.System.prepare.__defaults__ = tuple(dflt)
        pyc = args["pycode"]
        probe_file = os.path.join(pyc, "VProbe.py")
        mt0 = os.path.getmtime(probe_file) if os.path.exists(probe_file) else None
        msgs = []

        class H(logging.Handler):
            def emit(self, record):
                msgs.append(record.getMessage())
        logging.getLogger("andes.system").addHandler(H())
        logging.getLogger("andes.system").setLevel(logging.INFO)
        if args.get("nested"):
            # a second process creates a System over the same directory of generated code at a chosen point of this one:
            # after this process has written its files and before it imports them again (CodegenConc: Write(p) ... Reload(p))
            import subprocess
            _orig_finalize = andes.system.System._finalize_pycode
            _state = dict(done=False)

            def _finalize(self_, pycode_path_):
                if not _state["done"]:
                    _state["done"] = True
                    pr = subprocess.run([sys.executable, "-m", "vh.codegen_step", json.dumps(args["nested"])], cwd=args["verif"],
                                        stdout=subprocess.PIPE, stderr=subprocess.PIPE, env=dict(os.environ), timeout=800)
                    for line in pr.stdout.decode(errors="replace").splitlines():
                        if line.startswith("RESULT "):
                            out["nested_result"] = json.loads(line[7:])
                return _orig_finalize(self_, pycode_path_)
            andes.system.System._finalize_pycode = _finalize
        if op == "prepare":
            ss = andes.System(default_config=True, pycode_path=pyc, no_undill=True, no_output=True)
            ss.prepare(quick=True, incremental=False, models=["VProbe"], nomp=True)
        else:
            ss = andes.System(default_config=True, pycode_path=pyc, no_output=True, autogen_stale=(op == "undill_auto"))
        out["stale_reported"] = any(("stale" in m and "VProbe" in m) for m in msgs)
        mt1 = os.path.getmtime(probe_file) if os.path.exists(probe_file) else None
        out["regenerated"] = bool(mt1 is not None and mt1 != mt0)
        out["md5_loaded"] = getattr(ss.VProbe.calls, "md5", None)
        out["md5_model"] = ss.VProbe.get_md5()
        # which version does the loaded code compute?  run it on a one-bus system
        ss.add("Bus", dict(idx=1, Vn=110.0))
        ss.add("Bus", dict(idx=2, Vn=110.0))
        ss.add("Line", dict(idx="L", bus1=1, bus2=2, r=0.01, x=0.1, Vn1=110.0, Vn2=110.0))
        ss.add("Slack", dict(idx="S", bus=1, Vn=110.0, v0=1.0, a0=0.0))
        ss.add("PQ", dict(idx="D", bus=2, Vn=110.0, p0=0.1, q0=0.02))
        ss.add("VProbe", dict(idx="P", bus=1))
        ss.setup()
        ss.PFlow.init()
        y0 = float(ss.VProbe.y.v[0])
        z0 = float(ss.VProbe.z.v[0])
        ss.PFlow.fg_update()
        gy = float(ss.dae.g[ss.VProbe.y.a[0]])
        out.update(y0=y0, z0=z0, gy=gy, ksv=float(ss.VProbe.ksv.v[0]), p0=float(ss.VProbe.p.v[0]), q0=float(ss.VProbe.q.v[0]),
                   ae=float(ss.VProbe.a.e[0]), gw1=float(ss.dae.g[ss.VProbe.w1.a[0]]), gw2=float(ss.dae.g[ss.VProbe.w2.a[0]]))
    except Exception as ex:
        out["raised"] = True
        import traceback
        out["raised_text"] = "%s: %s" % (type(ex).__name__, str(ex)[:200])
        out["tb"] = traceback.format_exc()[-1500:]
    finally:
        os.dup2(saved, 1)
    print("RESULT " + json.dumps(out))


if __name__ == "__main__":
    main()
