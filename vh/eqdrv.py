"""
C02 driver, equation level: for every shipped model the generated functions that are actually executed (loaded from the
pycode cache through System.undill, called through Model.f_update / g_update / s_update_var and the per-name initialiser
and service functions, with the library's own argument lookup and positional delivery) are compared with the model's
declared equation strings evaluated by an independent evaluator: the Python AST of the declared string interpreted
directly over numpy values with a small function table (no sympy parsing, simplification, printing or argument lists).

The argument points come from a lattice enumerated by TLC (Scen_EqLattice: level index for (round, device, slot)); every
named input of the model is a slot.  Device d of round r is one point; values include zeros, both signs and equal
values so that both outcomes of the comparisons inside Piecewise / Indicator terms occur (coverage is reported).

What is recorded per model (validated by TLC, EqBinding.tla): for every position of every delivering function the
variable the library delivered it to, whether the delivered numbers equal that variable's declared string at every
defined point, and the set of declared variables whose strings the numbers do equal (to name a permutation).
"""
import ast
import cmath
import math

import numpy as np

from .common import new_system

LEVELS = [-2.5, -1.25, -0.5, -0.25, 0.0, 0.25, 0.5, 1.0, 1.25, 2.0, 3.0]
N_DEV = 4


# ---------------------------------------------------------------------------------------- independent evaluator
def _piecewise(*pairs, **_kw):
    out = None
    for val, cond in reversed(pairs):
        cond_a = np.asarray(cond)
        val_a = np.asarray(val)
        if out is None:
            base = np.full(np.broadcast(cond_a, val_a).shape, np.nan, dtype=complex if np.iscomplexobj(val_a) else float)
            out = base
        if np.iscomplexobj(val_a) and not np.iscomplexobj(out):
            out = out.astype(complex)
        out = np.where(cond_a, val_a, out)
    return out


def _safe_div(a, b):
    a = np.asarray(a, dtype=float) if not np.iscomplexobj(a) else np.asarray(a)
    b = np.asarray(b)
    a, b = np.broadcast_arrays(a, b)
    out = np.zeros(a.shape, dtype=np.result_type(a, b, float))
    nz = b != 0
    out[nz] = a[nz] / b[nz]
    return out


FUNCS = {
    "sin": np.sin, "cos": np.cos, "tan": np.tan, "exp": np.exp, "log": np.log, "sqrt": np.sqrt,
    "abs": np.abs, "Abs": np.abs, "re": np.real, "im": np.imag, "conj": np.conj, "arg": np.angle,
    "atan": np.arctan, "atan2": np.arctan2, "radians": np.radians, "rad": np.radians,
    "Indicator": lambda c: np.where(np.asarray(c), 1.0, 0.0),
    "Le": lambda a, b: np.asarray(a) <= np.asarray(b), "Lt": lambda a, b: np.asarray(a) < np.asarray(b),
    "Ge": lambda a, b: np.asarray(a) >= np.asarray(b), "Gt": lambda a, b: np.asarray(a) > np.asarray(b),
    "Piecewise": _piecewise, "safe_div": _safe_div, "pi": math.pi, "True": True, "False": False,
}


class _Cov(ast.NodeTransformer):
    """wraps every comparison so that its outcomes are recorded"""

    def __init__(self, table, prefix):
        self.table = table
        self.prefix = prefix
        self.k = 0

    def visit_Compare(self, node):
        self.generic_visit(node)
        key = "%s#%d" % (self.prefix, self.k)
        self.k += 1
        self.table.setdefault(key, [False, False])
        return ast.copy_location(ast.Call(func=ast.Name(id="__cov", ctx=ast.Load()), args=[ast.Constant(key), node], keywords=[]), node)

    def visit_Call(self, node):
        self.generic_visit(node)
        if isinstance(node.func, ast.Name) and node.func.id in ("Le", "Lt", "Ge", "Gt"):
            key = "%s#%d" % (self.prefix, self.k)
            self.k += 1
            self.table.setdefault(key, [False, False])
            return ast.copy_location(ast.Call(func=ast.Name(id="__cov", ctx=ast.Load()), args=[ast.Constant(key), node], keywords=[]), node)
        return node


class Evaluator:
    def __init__(self):
        self.cov = {}
        self.code = {}

    def _cov(self, key, val):
        a = np.asarray(val)
        if a.any():
            self.cov[key][0] = True
        if (~a).any() if a.dtype == bool else (a == 0).any():
            self.cov[key][1] = True
        return val

    def eval(self, key, text, ns):
        if key not in self.code:
            tree = ast.parse(str(text).strip(), mode="eval")
            tree = _Cov(self.cov, key).visit(tree)
            ast.fix_missing_locations(tree)
            self.code[key] = compile(tree, key, "eval")
        env = dict(FUNCS)
        env.update(ns)
        env["__cov"] = self._cov
        with np.errstate(all="ignore"):
            return eval(self.code[key], {"__builtins__": {}}, env)


# ---------------------------------------------------------------------------------------- model set-up
def _levels(table, r, d, slot):
    return LEVELS[table[r][d][slot % len(table[r][d])]]


_PLAIN = {}


def _plain_v(obj):
    cls = obj.__class__
    if cls not in _PLAIN:
        def _get(self):
            return self.__dict__.get("_v_fixed")

        def _set(self, val):
            self.__dict__["_v_fixed"] = val
        _PLAIN[cls] = type(cls.__name__, (cls,), {"v": property(_get, _set)})
    obj.__class__ = _PLAIN[cls]


def prepare_model(ss, mdl, table, r):
    """Gives the model N_DEV fake devices whose every named input carries lattice values of round r.  Returns the
    independent namespace {name: array} built from the instances themselves, or raises."""
    n = N_DEV
    mdl.n = n
    names = []

    def put(obj, name, kind):
        slot = len(names)
        names.append(name)
        vals = np.array([_levels(table, r, d, slot) for d in range(n)], dtype=float)
        if kind == "flag":
            vals = (vals > 0.2).astype(float)
        return vals

    from andes.core.discrete import Switcher
    switch_inputs = {}
    for dsc in mdl.discrete.values():
        if isinstance(dsc, Switcher):
            switch_inputs[dsc.u.name] = list(dsc.options)
    for p in mdl.num_params.values():
        vals = put(p, p.name, "param")
        if p.name in switch_inputs:
            opts = switch_inputs[p.name]
            picked = [opts[int(abs(v) * 4) % len(opts)] for v in vals]
            try:
                vals = np.array(picked, dtype=float)
            except (TypeError, ValueError):
                vals = np.array(picked, dtype=object)
        p.v = vals
    for grp in (mdl.services, mdl.services_ext, mdl.services_ops):
        for s in grp.values():
            vals = put(s, s.name, "service")
            vals = vals.astype(complex) if getattr(s, "vtype", float) is complex else vals
            try:
                s.v = vals
            except AttributeError:
                # a service computed from device tables by library code (not generated code): give it lattice values
                # through a subclass whose ``v`` is a plain attribute
                _plain_v(s)
                s.v = vals
    for v in mdl.cache.all_vars.values():
        v.v = put(v, v.name, "var")
        v.e = np.zeros(n)
    for dsc in mdl.discrete.values():
        dsc.list2array(n)
        for fname, arr in zip(dsc.get_names(), dsc.get_values()):
            vals = put(dsc, fname, "flag")
            try:
                arr[:] = vals
            except (TypeError, ValueError):
                pass
    # configuration fields that generated functions take as arguments (e.g. the load-model weights of PQ) are changed
    # after the System exists, as the documentation tells users to do
    used = set()
    for lst in (mdl.calls.f_args, mdl.calls.g_args, mdl.calls.sns_args):
        used.update(lst)
    for dct in (mdl.calls.s_args, mdl.calls.ia_args, mdl.calls.ii_args, mdl.calls.j_args):
        for lst in dct.values():
            used.update(lst)
    for key in list(mdl.config.__dict__):
        if key.startswith("_") or key not in used:
            continue
        val = mdl.config.__dict__[key]
        if isinstance(val, bool) or not isinstance(val, (int, float)):
            continue
        slot = len(names)
        names.append("config." + key)
        mdl.config.__dict__[key] = float(_levels(table, r, 0, slot)) + 0.125 * (r % 3)
    ss.dae.t = np.array(0.75 + 0.5 * r)
    mdl.refresh_inputs()
    mdl.refresh_inputs_arg()
    return namespace(ss, mdl)


def namespace(ss, mdl):
    ns = {}
    for p in mdl.num_params.values():
        ns[p.name] = p.v
    for grp in (mdl.services, mdl.services_ext, mdl.services_ops):
        for s in grp.values():
            ns[s.name] = s.v
    for dsc in mdl.discrete.values():
        for fname, arr in zip(dsc.get_names(), dsc.get_values()):
            ns[fname] = arr
    for v in mdl.cache.all_vars.values():
        ns[v.name] = v.v
    for key, val in mdl.config.__dict__.items():       # the fields as they are now (not a cached copy)
        if not key.startswith("_"):
            ns[key] = np.array(val)
    ns["sys_f"] = float(ss.config.freq)
    ns["sys_mva"] = float(ss.config.mva)
    ns["dae_t"] = ss.dae.t
    # substitution services stand for their expression
    return ns


def _same(got, exp):
    """(defined mask, equal mask) over devices"""
    got = np.broadcast_to(np.asarray(got), (N_DEV,)) if np.ndim(got) <= 1 and np.size(got) in (1, N_DEV) else np.asarray(got)
    exp = np.asarray(exp)
    if exp.dtype == bool:
        exp = exp.astype(float)
    exp = np.broadcast_to(exp, (N_DEV,)) if exp.size in (1, N_DEV) else exp
    if got.shape != exp.shape:
        return None, None
    defined = np.isfinite(exp) & np.isfinite(got)
    tol = 1e-9 * np.maximum(1.0, np.abs(np.where(defined, exp, 0))) + 1e-12
    eq = np.abs(np.where(defined, got - exp, 0)) <= tol
    # a point where only one side is defined counts as different unless the declared value is undefined (division by zero ...)
    half = np.isfinite(exp) & ~np.isfinite(got)
    return defined | half, eq & ~half


class Tally:
    """per declared item: points defined / equal; which declared items the delivered numbers do equal"""

    def __init__(self):
        self.items = {}

    def add(self, key, group, position, delivered_to, defined, equal, alts=None, note=None):
        it = self.items.setdefault(key, dict(group=group, position=position, delivered_to=delivered_to, points=0, agree=0, undefined=0,
                                             alts=None, notes=[]))
        if defined is None:
            it["notes"].append(note or "shape mismatch")
            it["points"] += 1
            return
        it["points"] += int(defined.sum())
        it["agree"] += int((defined & equal).sum())
        it["undefined"] += int((~defined).sum())
        if alts is not None:
            it["alts"] = set(alts) if it["alts"] is None else (it["alts"] & set(alts))


def probe_model(ss, mname, table, rounds, ev=None):
    """returns the record of one model"""
    mdl = ss.models[mname]
    ev = ev or Evaluator()
    tally = Tally()
    problems = []
    subs = {}
    for name, svc in getattr(mdl, "services_subs", {}).items():
        subs[name] = svc.v_str
    for r in range(rounds):
        try:
            ns = prepare_model(ss, mdl, table, r)
        except Exception as ex:
            problems.append("set-up of fake devices failed: %s: %s" % (type(ex).__name__, str(ex)[:120]))
            break

        def declared(key, text, ns_=None):
            env = dict(ns if ns_ is None else ns_)
            for sname, stext in subs.items():
                if sname not in env:
                    try:
                        env[sname] = ev.eval("%s.subs.%s" % (mname, sname), stext, env)
                    except Exception:
                        pass
            return ev.eval(key, text, env)

        # ---- residuals through the library's own update (argument lookup + positional delivery) ----
        for group, upd, seq in (("f", mdl.f_update, mdl.cache.states_and_ext), ("g", mdl.g_update, mdl.cache.algebs_and_ext)):
            for v in seq.values():
                v.e = np.zeros(N_DEV)
            try:
                with np.errstate(all="ignore"):
                    upd()
            except Exception as ex:
                problems.append("%s_update raised %s: %s" % (group, type(ex).__name__, str(ex)[:120]))
                continue
            exp_all = {}
            for vname, v in seq.items():
                if v.e_str is not None:
                    try:
                        exp_all[vname] = declared("%s.%s.e_str" % (mname, vname), v.e_str)
                    except Exception as ex:
                        problems.append("declared %s.e_str not evaluable: %s: %s" % (vname, type(ex).__name__, str(ex)[:100]))
            for pos, (vname, v) in enumerate(seq.items()):
                got = np.array(v.e)
                if v.e_str is None:
                    dfn, eq = _same(got, np.zeros(N_DEV))
                    tally.add("%s.%s.e_str" % (mname, vname), group, pos, vname, dfn, eq)
                    continue
                if vname not in exp_all:
                    continue
                dfn, eq = _same(got, exp_all[vname])
                alts = []
                for other, ex_o in exp_all.items():
                    d2, e2 = _same(got, ex_o)
                    if d2 is not None and d2.any() and (e2 | ~d2).all():
                        alts.append(other)
                tally.add("%s.%s.e_str" % (mname, vname), group, pos, vname, dfn, eq, alts=alts)
        # ---- explicit initialisers (one generated function per variable, looked up by name) ----
        for vname, v in mdl.cache.all_vars.items():
            if v.v_str is None:
                continue
            key = "%s.%s.v_str" % (mname, vname)
            fn = mdl.calls.ia.get(vname)
            if fn is None:
                tally.add(key, "ia", 0, vname, None, None, note="no generated initialiser loaded")
                continue
            try:
                with np.errstate(all="ignore"):
                    got = fn(*mdl.ia_args[vname])
                exp = declared(key, v.v_str)
            except Exception as ex:
                problems.append("initialiser of %s: %s: %s" % (vname, type(ex).__name__, str(ex)[:100]))
                continue
            dfn, eq = _same(got, exp)
            tally.add(key, "ia", 0, vname, dfn, eq)
        # ---- iterative initialisers: residual vector of v_iter for a variable or a set of mutually dependent variables ----
        for item in mdl.calls.init_seq:
            group = item if isinstance(item, list) else [item]
            if any(mdl.cache.all_vars[x].v_iter is None for x in group if x in mdl.cache.all_vars) or any(x not in mdl.cache.all_vars for x in group):
                continue
            cname = "_".join(group)
            fn = mdl.calls.ii.get(cname)
            for k, vname in enumerate(group):
                key = "%s.%s.v_iter" % (mname, vname)
                if fn is None:
                    tally.add(key, "ii", k, vname, None, None, note="no generated iterative initialiser loaded")
                    continue
                try:
                    exp = declared(key, mdl.cache.all_vars[vname].v_iter)
                    gots = []
                    for d in range(N_DEV):
                        with np.errstate(all="ignore"):
                            ret = np.ravel(fn(*[np.asarray(a)[d] if np.ndim(a) else a for a in mdl.ii_args[cname]]))
                        gots.append(ret[k])
                    got = np.array(gots)
                except Exception as ex:
                    problems.append("iterative initialiser of %s: %s: %s" % (vname, type(ex).__name__, str(ex)[:100]))
                    continue
                dfn, eq = _same(got, exp)
                tally.add(key, "ii", k, vname, dfn, eq)
        # ---- services: per-name functions ----
        for sname, svc in mdl.services.items():
            if getattr(svc, "v_str", None) is None or sname in subs:
                continue
            key = "%s.%s.svc" % (mname, sname)
            fn = mdl.calls.s.get(sname)
            if fn is None:
                if sname in mdl.services_var_nonseq:
                    continue
                tally.add(key, "s", 0, sname, None, None, note="no generated service function loaded")
                continue
            try:
                exp = declared(key, svc.v_str)
                with np.errstate(all="ignore"):
                    got = fn(*mdl.s_args[sname]) if callable(fn) else fn
            except Exception as ex:
                problems.append("service %s: %s: %s" % (sname, type(ex).__name__, str(ex)[:100]))
                continue
            dfn, eq = _same(got, exp)
            tally.add(key, "s", 0, sname, dfn, eq)
        # ---- constant services through the library's update: evaluated in declaration order, each holding its own value ----
        if not mdl.flags.s_num and all(getattr(sv, "v_numeric", None) is None for sv in mdl.services.values()) and len(mdl.calls.s):
            ns2 = dict(ns)
            expected = {}
            try:
                for sname, svc in mdl.services.items():
                    if sname in mdl.calls.s and getattr(svc, "v_str", None) is not None:
                        val = np.asarray(declared("%s.%s.svc" % (mname, sname), svc.v_str, ns2))
                        val = np.broadcast_to(val, (N_DEV,)).copy() if val.size in (1, N_DEV) else val
                        expected[sname] = val
                        ns2[sname] = val
                with np.errstate(all="ignore"):
                    mdl.s_update()
                after = {sname: np.array(mdl.services[sname].v) for sname in expected}
                for pos, (sname, val) in enumerate(expected.items()):
                    dfn, eq = _same(after[sname], val)
                    tally.add("%s.%s.svc_update" % (mname, sname), "su", pos, sname, dfn, eq)
                # every input is now changed in place: a constant service must keep the value it was given
                for obj in list(mdl.num_params.values()) + list(mdl.cache.all_vars.values()) + list(mdl.services_ext.values()):
                    arr = getattr(obj, "v", None)
                    if isinstance(arr, np.ndarray) and arr.dtype.kind in "fc" and arr.shape == (N_DEV,):
                        arr += 0.37
                for pos, sname in enumerate(expected):
                    if sname in mdl.services_var:
                        continue            # recomputed from the variables at every iteration by design
                    now = np.array(mdl.services[sname].v)
                    same = bool(now.shape == after[sname].shape and np.array_equal(now, after[sname], equal_nan=True))
                    ok = np.full(N_DEV, same)
                    tally.add("%s.%s.svc_holds_value" % (mname, sname), "sh", pos, sname, np.ones(N_DEV, dtype=bool), ok)
                ns = prepare_model(ss, mdl, table, r)        # restore the lattice values of this round
            except Exception as ex:
                problems.append("s_update: %s: %s" % (type(ex).__name__, str(ex)[:100]))
        # ---- variable services through the library's update (sequential ones in order, the others delivered by position) ----
        if len(mdl.services_var) and not mdl.flags.sv_num and all(s.v_numeric is None for s in mdl.services_var.values()):
            ns2 = dict(ns)
            expected = {}
            try:
                for sname, svc in mdl.services_var_seq.items():
                    if svc.v_str is not None:
                        val = np.broadcast_to(np.asarray(declared("%s.%s.svc" % (mname, sname), svc.v_str, ns2), dtype=float), (N_DEV,)).copy()
                        expected[sname] = val
                        ns2[sname] = val
                for sname, svc in mdl.services_var_nonseq.items():
                    if svc.v_str is not None:
                        expected[sname] = declared("%s.%s.svc" % (mname, sname), svc.v_str, ns2)
                with np.errstate(all="ignore"):
                    mdl.s_update_var()
                for pos, (sname, val) in enumerate(expected.items()):
                    dfn, eq = _same(np.array(mdl.services_var[sname].v), val)
                    tally.add("%s.%s.svc_var_update" % (mname, sname), "sv", pos, sname, dfn, eq)
            except Exception as ex:
                problems.append("s_update_var: %s: %s" % (type(ex).__name__, str(ex)[:100]))
    items = []
    for key, it in sorted(tally.items.items()):
        items.append(dict(key=key, group=it["group"], position=it["position"], delivered_to=it["delivered_to"], points=it["points"],
                          agree=it["agree"], undefined=it["undefined"],
                          equals_declared_of=sorted(it["alts"]) if it["alts"] is not None else [],
                          has_alts=it["alts"] is not None, notes=it["notes"][:2]))
    cov = {k: v for k, v in ev.cov.items() if k.startswith(mname + ".")}
    return dict(model=mname, items=items, problems=sorted(set(problems))[:8],
                conditions=len(cov), conditions_both=sum(1 for v in cov.values() if v[0] and v[1]),
                one_sided=sorted(k for k, v in cov.items() if not (v[0] and v[1]))[:10])


def task(sc):
    ss = new_system()
    out = []
    for m in sc["models"]:
        try:
            out.append(probe_model(ss, m, sc["table"], sc["rounds"]))
        except Exception as ex:
            import traceback
            out.append(dict(model=m, items=[], problems=["probe failed: " + traceback.format_exc()[-600:]], conditions=0, conditions_both=0, one_sided=[]))
    return out
