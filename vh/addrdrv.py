"""
C10 driver: observes the address tables of a real System after set-up (phase 1) and after TDS.init
(phase 2) and projects them for Trace_Addressing.
"""
import numpy as np

from .common import load_case
from . import netbuild


def _isnone(v):
    return v is None or (isinstance(v, (float, np.floating)) and np.isnan(v))


def indexer_values(ss, mdl, indexer):
    """The index-field values an ExtVar/ExtParam must follow, read from the *data* (not through services)."""
    from andes.core.service import DataSelect, BackRef, RefFlatten
    if isinstance(indexer, RefFlatten):
        # a flattened back-reference list: follow the data of the referring devices (below)
        return [i for sub in indexer_values(ss, mdl, indexer.ref) for i in sub]
    if isinstance(indexer, DataSelect):
        opt = indexer.optional.v
        fb = indexer.fallback.v
        return [fb[k] if _isnone(opt[k]) else opt[k] for k in range(len(fb))]
    if isinstance(indexer, BackRef):
        # back-references: for each device of this model, the devices of the referring group / model whose index field
        # names it - read from the referrers' data, in the order of models and devices
        owner = indexer.owner
        out = []
        for k in range(owner.n):
            mine = owner.idx.v[k]
            lst = []
            for rname, rm in ss.models.items():
                if rm.n == 0 or not (rm.group == indexer.name or rm.class_name == indexer.name):
                    continue
                for pname, par in rm.idx_params.items():
                    if par.model in (owner.class_name, owner.group):
                        lst += [rm.idx.v[j] for j in range(rm.n) if not _isnone(par.v[j]) and par.v[j] == mine]
            out.append(lst)
        return out
    return list(indexer.v)


def _resolve(ss, parent_name, idx):
    """(model instance, uid) of the device ``idx`` of model-or-group ``parent_name``; None if idx is None."""
    if _isnone(idx):
        return None
    obj = ss.__dict__[parent_name]
    if parent_name in ss.groups:
        mdl = obj._idx2model[idx]
    else:
        mdl = obj
    return mdl, mdl.uid[idx]


def name_matches(name, var, model, idx):
    toks = name.split()
    if not toks or toks[0] != var:
        return False
    tail = " ".join(toks[1:])
    sidx = str(idx).replace("_", " ")
    return tail.endswith(sidx) and (model in tail)


def observe(ss, phase):
    dae = ss.dae
    models = ss.exist.pflow if phase == 1 else ss.exist.pflow_tds
    xs, ys, ext = [], [], []
    names_ok = True
    params_ok = True
    for mname, mdl in models.items():
        if mdl.n == 0:
            continue
        for vname, var in mdl.states.items():
            xs.append(dict(key="%s.%s" % (mname, vname), a=[int(a) for a in var.a]))
            for k, a in enumerate(var.a):
                names_ok = names_ok and name_matches(dae.x_name[int(a)], vname, mname, mdl.idx.v[k])
        for vname, var in mdl.algebs.items():
            ys.append(dict(key="%s.%s" % (mname, vname), a=[int(a) for a in var.a]))
            for k, a in enumerate(var.a):
                names_ok = names_ok and name_matches(dae.y_name[int(a)], vname, mname, mdl.idx.v[k])
        for vname, var in list(mdl.states_ext.items()) + list(mdl.algebs_ext.items()):
            try:
                idxs = indexer_values(ss, mdl, var.indexer)
                if len(idxs) and isinstance(idxs[0], (list, np.ndarray)):
                    idxs = [i for sub in idxs for i in sub]
                exp = []
                for i in idxs:
                    r = _resolve(ss, var.model, i)
                    if r is None:
                        exp.append(0)
                    else:
                        pm, uid = r
                        exp.append(int(pm.__dict__[var.src].a[uid]))
                ext.append(dict(key="%s.%s" % (mname, vname), a=[int(a) for a in var.a], expected=exp))
            except (KeyError, AttributeError):
                ext.append(dict(key="%s.%s" % (mname, vname), a=[int(a) for a in var.a], expected=[-1]))
        # external parameters follow the index field too
        for pname, par in mdl.params_ext.items():
            try:
                idxs = indexer_values(ss, mdl, par.indexer)
                for k, i in enumerate(idxs):
                    r = _resolve(ss, par.model, i)
                    if r is None:
                        continue
                    pm, uid = r
                    src = pm.__dict__[par.src]
                    if phase != 1 and not isinstance(src.v, list):
                        continue        # numeric values are converted / updated after linking; borrowed index values are not
                    sv = src.v[uid]
                    pv = par.v[k]
                    same = (sv == pv) or (_isnone(sv) and _isnone(pv)) or \
                        (isinstance(sv, float) and isinstance(pv, float) and np.isnan(sv) and np.isnan(pv))
                    params_ok = params_ok and bool(same)
            except (KeyError, AttributeError, IndexError, TypeError):
                pass
    # three views: write distinct numbers into the global vectors, propagate, read through model and group
    views_ok = True
    x_save, y_save = np.array(dae.x), np.array(dae.y)
    dae.x[:] = 1000.0 + np.arange(len(dae.x)) * 0.5
    dae.y[:] = -1000.0 - np.arange(len(dae.y)) * 0.25
    ss.vars_to_models()
    for mname, mdl in models.items():
        if mdl.n == 0:
            continue
        grp = ss.groups[mdl.group]
        for vname, var in list(mdl.states.items()) + list(mdl.algebs.items()):
            arr = dae.x if var.v_code == "x" else dae.y
            for k in range(mdl.n):
                g = arr[int(var.a[k])]
                views_ok = views_ok and (var.v[k] == g)
                views_ok = views_ok and (mdl.get(src=vname, idx=mdl.idx.v[k], attr="v") == g)
                if vname in grp.common_vars:
                    views_ok = views_ok and (grp.get(src=vname, idx=mdl.idx.v[k], attr="v") == g)
        for vname, var in list(mdl.states_ext.items()) + list(mdl.algebs_ext.items()):
            arr = dae.x if var.v_code == "x" else dae.y
            if len(var.a) == len(var.v):
                views_ok = views_ok and bool(np.array_equal(np.asarray(var.v), arr[np.asarray(var.a, dtype=int)]) or
                                             np.any(np.asarray(var.a) == 0))
    dae.x[:] = x_save
    dae.y[:] = y_save
    ss.vars_to_models()
    return dict(e="addr", phase=phase, n=int(dae.n), m=int(dae.m), x=xs, y=ys, ext=ext, names_ok=bool(names_ok),
                xflat=[a for v in xs for a in v["a"]], yflat=[a for v in ys for a in v["a"]],
                xnames=list(dae.x_name[:dae.n]), ynames=list(dae.y_name[:dae.m]), views_ok=bool(views_ok),
                params_ok=bool(params_ok))


def run_addr(sc):
    if "case" in sc:
        ss = load_case(sc["case"], setup=False)
    else:
        ss, ids, ok = netbuild.build(sc["spec"], setup=False)
    for m in sc.get("collate", []):
        ss.models[m].flags.collate = True
    for model, d in sc.get("add_before_setup", []):
        ss.add(model, dict(d))
    for mname, pname, vals in sc.get("set_before_setup", []):
        par = ss.models[mname].__dict__[pname]
        for k, v in enumerate(vals[:ss.models[mname].n]):
            par.v[k] = v
    ok = ss.setup()
    ev = []
    if not ok:
        return dict(meta=dict(tid=sc["tid"], sid=sc["sid"]), ev=[], setup_failed=True)
    ev.append(observe(ss, 1))
    pf = ss.PFlow.run()
    if sc.get("reset"):
        # set-up again on the same System (allowed before the simulation is initialised): the address tables must again be a
        # bijection onto 0..n-1 / 0..m-1
        ss.reset()
        ev.append(observe(ss, 1))
        pf = ss.PFlow.run()
    if pf and sc.get("tds", True) and len(ss.exist.tds) > 0:
        ss.TDS.config.no_tqdm = 1
        ss.TDS.init()
        ev.append(observe(ss, 2))
    return dict(meta=dict(tid=sc["tid"], sid=sc["sid"]), ev=ev, pflow=bool(pf))
