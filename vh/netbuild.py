"""
Build real ANDES Systems from small abstract network descriptions (used by C01/C03/C10/C11/C12/C19).

spec = {"devices": [{"model": "Bus", "idx": 1, ...params}, ...], "config": {...}}
Devices are added through System.add in the given order; idx may be absent (auto), int or str.
"""
from .common import new_system, andes_mod


def build(spec, setup=True):
    andes_mod()
    ss = new_system(**spec.get("sys_kw", {}))
    assigned = []
    for dev in spec["devices"]:
        d = dict(dev)
        model = d.pop("model")
        idx = ss.add(model, d)
        assigned.append(idx)
    ok = None
    if setup:
        ok = ss.setup()
    return ss, assigned, ok


def bus_id(i, n, idx_kind):
    """bus index of position i (1-based): numbers, strings, or numbers with the last bus named by a string (one index column
    holding both kinds)"""
    if idx_kind == "int":
        return i
    if idx_kind == "mixed":
        return "B%d" % i if i == n else i
    return "B%d" % i


def simple_network(nbus, edges, slack_buses, pv_buses=(), pq_buses=(), shunt_buses=(), line_u=None, bus_u=None,
                   slack_u=None, idx_kind="int", vn=110.0):
    """edges: list of (i, j) with buses numbered 1..nbus.  Returns a spec."""
    def bid(i):
        return bus_id(i, nbus, idx_kind)
    devs = []
    for i in range(1, nbus + 1):
        devs.append(dict(model="Bus", idx=bid(i), name="Bus %d" % i, Vn=vn, u=(bus_u[i - 1] if bus_u else 1)))
    for k, (i, j) in enumerate(edges):
        devs.append(dict(model="Line", idx=("L%d" % (k + 1) if idx_kind == "str" else k + 1), bus1=bid(i), bus2=bid(j),
                         Vn1=vn, Vn2=vn, r=0.01, x=0.1, b=0.02, u=(line_u[k] if line_u else 1)))
    for k, b in enumerate(slack_buses):
        devs.append(dict(model="Slack", idx=("S%d" % (k + 1) if idx_kind == "str" else 100 + k), bus=bid(b), Vn=vn, v0=1.0,
                         a0=0.0, p0=0.5, u=(slack_u[k] if slack_u else 1)))
    for k, b in enumerate(pv_buses):
        devs.append(dict(model="PV", idx=("G%d" % (k + 1) if idx_kind == "str" else 200 + k), bus=bid(b), Vn=vn, v0=1.0, p0=0.2))
    for k, b in enumerate(pq_buses):
        devs.append(dict(model="PQ", idx=("D%d" % (k + 1) if idx_kind == "str" else 300 + k), bus=bid(b), Vn=vn, p0=0.1, q0=0.03))
    for k, b in enumerate(shunt_buses):
        devs.append(dict(model="Shunt", idx=("H%d" % (k + 1) if idx_kind == "str" else 400 + k), bus=bid(b), Vn=vn, b=0.05))
    return dict(devices=devs)
