"""
Independent complex power balance of a whole network (C01), computed from the *input* data of the devices
(``vin`` values in the devices' own bases, the ratings Sn / Vn, the bus nominal voltages and the system MVA base) with the
formulation of spec/ACNetwork.tla summed over all devices of a bus:

    Yff = (ys + yh) / t^2,  Yft = -ys / (t e^{-j phi}),  Ytf = -ys / (t e^{+j phi}),  Ytt = ys + yk
    yh = (g1 + g/2) + j (b1 + b/2),  yk = (g2 + g/2) + j (b2 + b/2),  ys = 1 / (r + j x)
    z-type data x (Vn1^2 / Sn) / (Vb1^2 / Sb);  y-type data x (Sn / Vn1^2) / (Sb / Vb1^2)

Nothing of the library's own per-unit conversion, services, equation strings or adders is used: only parameter input values,
device statuses, and the reported solution (bus voltages, q of PV, p / q of Slack).  Networks that contain other devices
injecting into AC buses during power flow are reported as undecided (None).
"""
import numpy as np

SUPPORTED = {"Bus", "Line", "PQ", "PV", "Slack", "Shunt", "Area", "Summary", "ACEc", "Toggle", "Toggler", "Fault", "Alter",
             "Output", "TimeSeries", "Owner", "Region", "Zone"}


def _vin(model, name):
    p = getattr(model, name)
    vin = getattr(p, "vin", None)
    if vin is None or len(np.atleast_1d(vin)) != model.n:
        vin = p.v
    return np.asarray(vin, dtype=float)


def other_pflow_models(ss):
    out = []
    for name, m in ss.models.items():
        if m.n > 0 and getattr(m.flags, "pflow", False) and name not in SUPPORTED:
            out.append(name)
    return out


def balance(ss):
    """Return dict(mis = complex mismatch per bus (power leaving - power entering), scale) or None when undecided."""
    others = other_pflow_models(ss)
    if others:
        return None
    sb = float(ss.config.mva)
    nb = ss.Bus.n
    uid = {idx: k for k, idx in enumerate(ss.Bus.idx.v)}
    vb = np.asarray(ss.Bus.Vn.v, dtype=float)
    V = np.asarray(ss.Bus.v.v, dtype=float) * np.exp(1j * np.asarray(ss.Bus.a.v, dtype=float))
    Y = np.zeros((nb, nb), dtype=complex)
    reg = np.zeros(nb)                           # bound on the effect of the library's 1e-8 series-impedance regularisation
    ln = ss.Line
    if ln.n:
        r, x = _vin(ln, "r"), _vin(ln, "x")
        g, b, g1, b1, g2, b2 = (_vin(ln, k) for k in ("g", "b", "g1", "b1", "g2", "b2"))
        tap, phi, u = _vin(ln, "tap"), _vin(ln, "phi"), np.asarray(ln.u.v, dtype=float)
        sn, vn1 = _vin(ln, "Sn"), _vin(ln, "Vn1")
        for k in range(ln.n):
            if u[k] == 0:
                continue
            i, j = uid[ln.bus1.v[k]], uid[ln.bus2.v[k]]
            kz = (vn1[k] ** 2 / sn[k]) / (vb[i] ** 2 / sb)
            ky = 1.0 / kz
            z = complex(r[k], x[k]) * kz
            if abs(z) < 1e-6:
                return None                      # a zero-impedance branch is regularised by the library: not comparable
            ys = 1.0 / z
            yh = complex(g1[k] + 0.5 * g[k], b1[k] + 0.5 * b[k]) * ky
            yk = complex(g2[k] + 0.5 * g[k], b2[k] + 0.5 * b[k]) * ky
            t = tap[k]
            Y[i, i] += (ys + yh) / t ** 2
            Y[i, j] += -ys / (t * np.exp(-1j * phi[k]))
            Y[j, i] += -ys / (t * np.exp(1j * phi[k]))
            Y[j, j] += ys + yk
            dv = abs(V[i] / (t * np.exp(1j * phi[k])) - V[j])
            reg[i] += 1.5e-8 * abs(ys) ** 2 * dv * abs(V[i]) / t
            reg[j] += 1.5e-8 * abs(ys) ** 2 * dv * abs(V[j])
    sh = ss.Shunt
    if sh.n:
        g, b, sn, vn, u = _vin(sh, "g"), _vin(sh, "b"), _vin(sh, "Sn"), _vin(sh, "Vn"), np.asarray(sh.u.v, dtype=float)
        for k in range(sh.n):
            if u[k] == 0:
                continue
            i = uid[sh.bus.v[k]]
            ky = (sn[k] / vn[k] ** 2) / (sb / vb[i] ** 2)
            Y[i, i] += complex(g[k], b[k]) * ky
    S = V * np.conj(Y @ V)                       # power leaving each bus through branches and shunts
    pq = ss.PQ
    if pq.n:
        p0, q0, vmin, vmax, u = _vin(pq, "p0"), _vin(pq, "q0"), _vin(pq, "vmin"), _vin(pq, "vmax"), np.asarray(pq.u.v, dtype=float)
        pq2z = int(getattr(pq.config, "pq2z", 1))
        for k in range(pq.n):
            if u[k] == 0:
                continue
            i = uid[pq.bus.v[k]]
            vm = abs(V[i])
            f = 1.0
            if pq2z:
                if vm < vmin[k]:
                    f = vm ** 2 / vmin[k] ** 2
                elif vm > vmax[k]:
                    f = vm ** 2 / vmax[k] ** 2
            S[i] += complex(p0[k], q0[k]) * f
    pv = ss.PV
    if pv.n:
        p0, u = _vin(pv, "p0"), np.asarray(pv.u.v, dtype=float)
        q = np.asarray(pv.q.v, dtype=float)
        for k in range(pv.n):
            if u[k] == 0:
                continue
            S[uid[pv.bus.v[k]]] -= complex(p0[k], q[k])
    sl = ss.Slack
    if sl.n:
        u = np.asarray(sl.u.v, dtype=float)
        p, q = np.asarray(sl.p.v, dtype=float), np.asarray(sl.q.v, dtype=float)
        for k in range(sl.n):
            if u[k] == 0:
                continue
            S[uid[sl.bus.v[k]]] -= complex(p[k], q[k])
    return dict(mis=S, reg=reg)


def verdict(ss, tol=None):
    """(ok, worst, where) over the buses the library does not report as islanded; ok is None when undecided."""
    bal = balance(ss)
    if bal is None:
        return None, None, "other power-flow devices present: %s" % ",".join(other_pflow_models(ss)[:5])
    tol = float(ss.PFlow.config.tol) if tol is None else tol
    mis = np.array(bal["mis"])
    keep = np.ones(len(mis), dtype=bool)
    for b in getattr(ss.Bus, "islanded_buses", []) or []:
        keep[int(b)] = False
    for isl in getattr(ss.Bus, "island_sets", []) or []:
        pass
    off = np.asarray(ss.Bus.u.v) == 0
    keep &= ~off
    if not keep.any():
        return None, None, "no bus left"
    lim = 3 * tol + 3 * bal["reg"]
    a = (np.abs(mis) - lim) * keep - 1e30 * (~keep)
    k = int(np.argmax(a))
    return bool(a[k] <= 0), float(abs(mis[k])), "bus %s (limit %.2e)" % (ss.Bus.idx.v[k], lim[k])
