"""
M3 for C04: drive the library's real ``ImplicitIter.step`` / ``calc_q`` / ``calc_jac`` on the lattice
points that TLC emitted from ITMRule.tla and compare with the exact rational values.

``step`` is run on a stub ``tds`` whose residual/Jacobian providers are frozen to the lattice
matrices and whose linear solver records the assembled ``Ac`` and ``qg`` and returns a zero
increment (so the Newton loop exits at once).  Everything between "Jacobians and residuals are
available" and "linear system handed to the solver" - g_scale handling, block placement, the
pegged-state override - is the library's code.
"""
from fractions import Fraction
from types import SimpleNamespace

import numpy as np


def fr(p):
    return Fraction(p[0], p[1])


def fl(p):
    return float(fr(p))


def close(a, b, rtol=1e-12):
    return abs(a - b) <= rtol * max(1.0, abs(a), abs(b))


def check_q(points):
    """calc_q of both methods at every grid point.  Returns list of mismatching points."""
    from andes.routines.daeint import method_map
    bad = []
    for p in points:
        cls = method_map[p["m"]]
        got = cls.calc_q(np.array([fl(p["x"])]), np.array([fl(p["f"])]), np.array([fl(p["T"])]), fl(p["h"]),
                         np.array([fl(p["x0"])]), np.array([fl(p["f0"])]))
        exp = fl(p["q"])
        if not close(float(got[0]), exp):
            bad.append(dict(point={k: p[k] for k in ("m", "T", "x", "x0", "h", "f", "f0")}, expected=exp,
                            got=float(got[0])))
    return bad


def _mat(m):
    from andes.shared import matrix, sparse
    a = np.array([[fl(m[i][j]) for j in range(2)] for i in range(2)], dtype=float)
    return sparse(matrix(a)), a


def run_step(p, pegged=None, linsolve=0):
    """Run the real ImplicitIter.step on a stub with the matrices of lattice point ``p``."""
    from andes.routines.daeint import method_map
    from andes.shared import matrix, spdiag
    n = m = 2
    fx, fxa = _mat(p["fx"])
    fy, fya = _mat(p["fy"])
    gx, gxa = _mat(p["gx"])
    gy, gya = _mat(p["gy"])
    T = np.array([fl(t) for t in p["T"]])
    h = fl(p["h"])
    x1 = np.array([1.25, -0.5])
    y1 = np.array([0.75, 2.0])
    fval = np.array([1.5, -0.25])
    gval = np.array([0.375, -1.125])
    x0 = np.array([0.5, 1.0])
    f0 = np.array([-0.75, 0.625])
    captured = {}

    dae = SimpleNamespace(x=np.array(x0), y=np.array(y1), f=np.array(f0), g=np.array(gval), Tf=T, n=n, m=m,
                          t=np.array(1.0), fx=fx, fy=fy, gx=gx, gy=gy, xy_name=["x1", "x2", "y1", "y2"])
    aw = []
    if pegged is not None:
        aw = [SimpleNamespace(x_set=[(np.array([pegged]), None, 0.0)])]
    system = SimpleNamespace(dae=dae, exist=SimpleNamespace(pflow_tds={}), antiwindups=aw, options={},
                             j_update=lambda models, info=None: None, vars_to_models=lambda: None)

    class Solver:
        worker = SimpleNamespace(factorize=False)

        def solve(self, A, b):
            captured["Ac"] = np.array(matrix(A))
            captured["qg"] = np.array(b).ravel().copy()
            captured["entry"] = "solve"
            return np.zeros(n + m)

        def linsolve(self, A, b):
            captured["Ac"] = np.array(matrix(A))
            captured["qg"] = np.array(b).ravel().copy()
            captured["entry"] = "linsolve"
            return np.zeros(n + m)

    tds = SimpleNamespace(system=system, h=h, mis=[1], mis_inc=[1], niter=0, converged=False,
                          x0=np.zeros(n), y0=np.zeros(m), f0=np.zeros(n), custom_event=False, last_converged=True,
                          _last_switch_t=-999, solver=Solver(), Teye=spdiag(T.tolist()), qg=np.zeros(n + m),
                          method=method_map[p["m"]](), tol_zero=1e-10, chatter=False, busted=False, err_msg="",
                          config=SimpleNamespace(honest=0, g_scale=fl(p["gs"]), linsolve=linsolve, reset_tiny=1,
                                                 tol=1e-4, chatter_iter=4, max_iter=15),
                          Ac=None, inc=None)

    def fg_update(models):
        # the "model equations": set x to the trial point once, then f, g are those of the lattice
        dae.x[:] = x1
        dae.f[:] = fval
        dae.g[:] = gval
    tds.fg_update = fg_update
    ret = method_map[p["m"]].step(tds)
    return ret, captured, dict(x0=x0, f0=f0, x1=x1, f=fval, g=gval, T=T, h=h), tds


def check_jac(points):
    """Assembled Ac and qg of the real ``step`` against the exact lattice values."""
    bad = []
    n_eval = 0
    for p in points:
        for pegged in (None, 1):
            for linsolve in (0, 1):
                ret, cap, v, tds = run_step(p, pegged=pegged, linsolve=linsolve)
                n_eval += 1
                where = dict(m=p["m"], T=p["T"], h=p["h"], gs=p["gs"], pegged=pegged, linsolve=linsolve)
                if not ret or "Ac" not in cap:
                    bad.append(dict(point=where, what="step did not converge on a zero increment"))
                    continue
                if cap["entry"] != ("linsolve" if linsolve else "solve"):
                    bad.append(dict(point=where, what="wrong solver entry point used: %s" % cap["entry"]))
                Ac = cap["Ac"]
                exp = np.zeros((4, 4))
                for i in range(2):
                    for j in range(2):
                        exp[i, j] = fl(p["ac"]["xx"][i][j])
                        exp[i, 2 + j] = fl(p["ac"]["xy"][i][j])
                        exp[2 + i, j] = fl(p["ac"]["yx"][i][j])
                        exp[2 + i, 2 + j] = fl(p["ac"]["yy"][i][j])
                for i in range(4):
                    for j in range(4):
                        if not close(Ac[i, j], exp[i, j]):
                            bad.append(dict(point=where, what="Ac[%d,%d]" % (i, j), expected=exp[i, j], got=float(Ac[i, j])))
                # residual vector: rule on the differential part (pegged state overridden), scaled g on the rest
                c = 0.5 if p["m"] == "trapezoid" else 1.0
                gs = fl(p["gs"])
                for i in range(2):
                    if p["m"] == "trapezoid":
                        q = v["T"][i] * (v["x1"][i] - v["x0"][i]) - v["h"] * c * (v["f"][i] + v["f0"][i])
                    else:
                        q = v["T"][i] * (v["x1"][i] - v["x0"][i]) - v["h"] * v["f"][i]
                    if pegged is not None and i == pegged:
                        q = 0.0
                    if not close(cap["qg"][i], q):
                        bad.append(dict(point=where, what="qg[%d] (differential part)" % i, expected=q, got=float(cap["qg"][i])))
                s = gs * v["h"] if gs > 0 else 1.0
                for i in range(2):
                    if not close(cap["qg"][2 + i], s * v["g"][i]):
                        bad.append(dict(point=where, what="qg[%d] (algebraic part)" % (2 + i), expected=s * v["g"][i],
                                        got=float(cap["qg"][2 + i])))
    return bad, n_eval


def check_restore():
    """A non-converging stub step must restore x, y, f bit-exactly and report False."""
    from andes.routines.daeint import method_map
    out = []
    for mname in method_map:
        p = dict(m=mname, T=[[1, 1], [2, 1]], h=[1, 30], gs=[1, 1],
                 fx=[[[1, 2], [0, 1]], [[0, 1], [1, 3]]], fy=[[[1, 1], [0, 1]], [[0, 1], [1, 1]]],
                 gx=[[[1, 1], [0, 1]], [[0, 1], [1, 1]]], gy=[[[2, 1], [0, 1]], [[0, 1], [3, 1]]], ac=None)
        # make the solver return a constant non-zero increment so that the loop runs to max_iter
        import andes.routines.daeint as di  # noqa
        ret, cap, v, tds = _run_nonconv(p)
        out.append((mname, ret, cap))
    return out


def _run_nonconv(p):
    from andes.routines.daeint import method_map
    from andes.shared import spdiag
    import numpy as np
    n = m = 2
    fx, _ = _mat(p["fx"])
    fy, _ = _mat(p["fy"])
    gx, _ = _mat(p["gx"])
    gy, _ = _mat(p["gy"])
    T = np.array([fl(t) for t in p["T"]])
    x0 = np.array([0.5, 1.0])
    y0 = np.array([0.25, -2.0])
    f0 = np.array([-0.75, 0.625])
    dae = SimpleNamespace(x=np.array(x0), y=np.array(y0), f=np.array(f0), g=np.zeros(m), Tf=T, n=n, m=m,
                          t=np.array(1.0), fx=fx, fy=fy, gx=gx, gy=gy, xy_name=["x1", "x2", "y1", "y2"])
    system = SimpleNamespace(dae=dae, exist=SimpleNamespace(pflow_tds={}), antiwindups=[], options={},
                             j_update=lambda models, info=None: None, vars_to_models=lambda: None)

    class Solver:
        worker = SimpleNamespace(factorize=False)

        def solve(self, A, b):
            return np.array([0.01, -0.02, 0.03, 0.005])
        linsolve = solve

    tds = SimpleNamespace(system=system, h=fl(p["h"]), mis=[1], mis_inc=[1], niter=0, converged=False,
                          x0=np.zeros(n), y0=np.zeros(m), f0=np.zeros(n), custom_event=False, last_converged=True,
                          _last_switch_t=-999, solver=Solver(), Teye=spdiag(T.tolist()), qg=np.zeros(n + m),
                          method=method_map[p["m"]](), tol_zero=1e-10, chatter=False, busted=False, err_msg="",
                          config=SimpleNamespace(honest=0, g_scale=1.0, linsolve=0, reset_tiny=1, tol=1e-4,
                                                 chatter_iter=40, max_iter=15),
                          Ac=None, inc=None, _debug_g=lambda i: None, _debug_ac=lambda i: None)

    def fg_update(models):
        dae.f[:] = dae.x * 2.0
        dae.g[:] = dae.y * 0.5
    tds.fg_update = fg_update
    ret = method_map[p["m"]].step(tds)
    restored = bool(np.array_equal(dae.x, x0) and np.array_equal(dae.y, y0) and np.array_equal(dae.f, f0))
    return ret, dict(restored=restored, niter=tds.niter, converged=tds.converged, last_converged=tds.last_converged), None, tds
