"""
C18 driver (M3): extracts, exactly over rationals, the linear realisation of each control block from the block's own
equation strings (Block.define()), computes a candidate response to u = 1 at rational values of s and the declared
initial values for a constant input, and hands everything to TLC (Blocks.tla), which verifies the candidate against the
realisation and the documented transfer function.
"""
import itertools
from fractions import Fraction as Fr

from .common import andes_mod


def _blocks():
    andes_mod()
    from andes.core import block as b
    return b


# block name -> (constructor kwargs as parameter names, parameter grid, output variable)
GRID2 = [Fr(3, 4), Fr(5, 2)]
SPECS = {
    "Gain": dict(args=dict(u="u", K="K"), params=dict(K=GRID2), out="y"),
    "Integrator": dict(args=dict(u="u", T="T", K="K", y0="y0"), params=dict(T=GRID2, K=[Fr(2), Fr(-1, 3)], y0=[Fr(7, 5)]), out="y"),
    "Lag": dict(args=dict(u="u", T="T", K="K", D="D"), params=dict(T=GRID2 + [Fr(0)], K=[Fr(2), Fr(-1, 3)], D=[Fr(1), Fr(3, 2)]), out="y"),
    "LeadLag": dict(args=dict(u="u", T1="T1", T2="T2", K="K"), params=dict(T1=[Fr(0), Fr(1, 2), Fr(3)], T2=[Fr(0), Fr(2), Fr(1, 4)], K=[Fr(1), Fr(5, 2)]), out="y"),
    "Washout": dict(args=dict(u="u", T="T", K="K"), params=dict(T=GRID2, K=[Fr(2), Fr(-1, 3)]), out="y"),
    "WashoutOrLag": dict(args=dict(u="u", T="T", K="K", name="B"), params=dict(T=GRID2, K=[Fr(2), Fr(-1, 3), Fr(0)]), out="y"),
    "Lag2ndOrd": dict(args=dict(u="u", K="K", T1="T1", T2="T2"), params=dict(K=[Fr(2), Fr(-1, 3)], T1=GRID2, T2=[Fr(1, 5), Fr(3)]), out="y"),
    "LeadLag2ndOrd": dict(args=dict(u="u", T1="T1", T2="T2", T3="T3", T4="T4"), params=dict(T1=GRID2, T2=[Fr(1, 5), Fr(3)], T3=[Fr(0), Fr(2, 3)], T4=[Fr(0), Fr(7, 4)]), out="y"),
    "PIController": dict(args=dict(u="u", kp="kp", ki="ki", ref="ref", x0="x0"), params=dict(kp=GRID2, ki=[Fr(2), Fr(1, 3)], ref=[Fr(0), Fr(4, 3)], x0=[Fr(0), Fr(1, 2)]), out="y"),
    "PIDController": dict(args=dict(u="u", kp="kp", ki="ki", kd="kd", Td="Td", ref="ref", x0="x0", name="B"),
                          params=dict(kp=GRID2, ki=[Fr(2), Fr(1, 3)], kd=[Fr(3, 2), Fr(1, 7)], Td=[Fr(1, 10), Fr(2)], ref=[Fr(0)], x0=[Fr(0)]), out="y"),
    "IntegratorAntiWindup": dict(args=dict(u="u", T="T", K="K", y0="y0", lower="lo", upper="hi"),
                                 params=dict(T=GRID2, K=[Fr(2)], y0=[Fr(7, 5)], lo=[Fr(-100)], hi=[Fr(100)]), out="y"),
    "LagAntiWindup": dict(args=dict(u="u", T="T", K="K", lower="lo", upper="hi", D="D"),
                          params=dict(T=GRID2, K=[Fr(2), Fr(-1, 3)], D=[Fr(1), Fr(3, 2)], lo=[Fr(-100)], hi=[Fr(100)]), out="y"),
    "LeadLagLimit": dict(args=dict(u="u", T1="T1", T2="T2", lower="lo", upper="hi"),
                         params=dict(T1=[Fr(1, 2), Fr(3)], T2=[Fr(2), Fr(1, 4)], lo=[Fr(-100)], hi=[Fr(100)]), out="y"),
    "GainLimiter": dict(args=dict(u="u", K="K", R="R", lower="lo", upper="hi"),
                        params=dict(K=GRID2, R=[Fr(1), Fr(2, 3)], lo=[Fr(-100)], hi=[Fr(100)]), out="y"),
    "PIAWHardLimit": dict(args=dict(u="u", kp="kp", ki="ki", aw_lower="alo", aw_upper="ahi", lower="lo", upper="hi", ref="ref", x0="x0"),
                          params=dict(kp=GRID2, ki=[Fr(2), Fr(1, 3)], alo=[Fr(-100)], ahi=[Fr(100)], lo=[Fr(-100)], hi=[Fr(100)], ref=[Fr(0)], x0=[Fr(0)]), out="y"),
}
S_VALUES = [Fr(1, 2), Fr(2), Fr(3), Fr(-1, 3)]     # deg + 1 distinct points decide a rational identity of degree <= 3


def collect(blk):
    """Flatten a (possibly nested) block: states, algebraic variables, services, discrete flags - with final names."""
    b = _blocks()
    from andes.core.var import State, Algeb
    from andes.core.discrete import Discrete, LessThan, Limiter
    from andes.core.service import BaseService
    states, algebs, services, discretes = [], [], [], []

    def name_all(bl):
        # what Model.__setattr__ does when it picks the block up: exported elements get their final names
        for key, item in bl.vars.items():
            if isinstance(item, b.Block):
                name_all(item)
            else:
                item.name = "%s_%s" % (bl.name, key)
                if getattr(item, "tex_name", None) is None:
                    item.tex_name = item.name
    name_all(blk)

    def walk(bl):
        for key, item in bl.export().items():
            if isinstance(item, b.Block):
                walk(item)
            elif isinstance(item, State):
                states.append(("%s_%s" % (bl.name, key), item))
            elif isinstance(item, Algeb):
                algebs.append(("%s_%s" % (bl.name, key), item))
            elif isinstance(item, Discrete):
                discretes.append(("%s_%s" % (bl.name, key), item))
            elif isinstance(item, BaseService):
                services.append(("%s_%s" % (bl.name, key), item))
    walk(blk)
    return states, algebs, services, discretes


def flag_values(discretes, ns):
    from andes.core.discrete import LessThan, Limiter
    out = {}
    for name, d in discretes:
        if isinstance(d, LessThan):
            u = _ev(d.u.name, ns)
            bound = _ev(d.bound.name, ns) if getattr(d.bound, "name", None) else Fr(0)
            z1 = 1 if ((u <= bound) if d.equal else (u < bound)) else 0
            out[name + "_z1"] = Fr(z1)
            out[name + "_z0"] = Fr(1 - z1)
        elif isinstance(d, Limiter):
            out[name + "_zi"] = Fr(1)      # inside the limits
            out[name + "_zl"] = Fr(0)
            out[name + "_zu"] = Fr(0)
            if hasattr(d, "sign_lower"):
                out[d.sign_lower.name if hasattr(d.sign_lower, "name") and d.sign_lower.name else name + "_sl"] = Fr(1)
                out[d.sign_upper.name if hasattr(d.sign_upper, "name") and d.sign_upper.name else name + "_su"] = Fr(1)
    return out


def _ev(expr, ns):
    if expr is None:
        return Fr(0)
    if isinstance(expr, (int, float)):
        return Fr(expr)
    import re
    src = re.sub(r"(?<![\w.])(\d+\.\d*|\.\d+)(?![\w.])", lambda m: 'Fr("%s")' % m.group(1), str(expr))
    env = dict(ns)
    env["Fr"] = Fr
    return Fr(eval(src, {"__builtins__": {}}, env))


def _solve(A, rhs):
    """exact Gaussian elimination over Fractions"""
    n = len(A)
    M = [list(A[i]) + [rhs[i]] for i in range(n)]
    for c in range(n):
        piv = next((r for r in range(c, n) if M[r][c] != 0), None)
        if piv is None:
            return None
        M[c], M[piv] = M[piv], M[c]
        pv = M[c][c]
        M[c] = [v / pv for v in M[c]]
        for r in range(n):
            if r != c and M[r][c] != 0:
                f = M[r][c]
                M[r] = [a - f * bb for a, bb in zip(M[r], M[c])]
    return [M[i][n] for i in range(n)]


def fr2(x):
    return [x.numerator, x.denominator]


def records_for(block_name):
    b = _blocks()
    spec = SPECS[block_name]
    cls = getattr(b, block_name)
    out = []
    skipped = []
    names = sorted(spec["params"])
    for combo in itertools.product(*[spec["params"][n] for n in names]):
        p = dict(zip(names, combo))
        from andes.core.common import dummify
        kwargs = {}
        for arg, pname in spec["args"].items():
            kwargs[arg] = pname if arg == "name" else dummify(pname)
        if "name" not in kwargs:
            kwargs["name"] = "B"
        for arg in kwargs:
            if arg != "name" and getattr(kwargs[arg], "tex_name", None) is None:
                kwargs[arg].tex_name = kwargs[arg].name
        blk = cls(**kwargs)
        states, algebs, services, discretes = collect(blk)
        base = dict(p)
        base.update({"u": Fr(0)})
        ns0 = dict(base)
        ns0.update(flag_values(discretes, ns0))
        varnames = [n for n, _ in states] + [n for n, _ in algebs]
        z_names = ["u"] + varnames
        try:
            # services (constants of the block) first
            for sname, svc in services:
                if getattr(svc, "v_str", None) is not None:
                    ns0[sname] = _ev(svc.v_str, dict(ns0, **{v: Fr(0) for v in varnames}))

            def resid(item, zvals):
                ns = dict(ns0)
                ns.update(dict(zip(z_names, zvals)))
                return _ev(item.e_str, ns)
            eqs = []
            zero = [Fr(0)] * len(z_names)
            for k, (vname, item) in enumerate(states + algebs):
                c0 = resid(item, zero)
                coef = []
                for j in range(len(z_names)):
                    e = list(zero)
                    e[j] = Fr(1)
                    coef.append(resid(item, e) - c0)
                # linearity check on a second point (affine class membership of the implementation)
                probe = [Fr(j + 2, 3) for j in range(len(z_names))]
                lin = c0 + sum(cj * pj for cj, pj in zip(coef, probe))
                if lin != resid(item, probe):
                    raise ValueError("equation of %s is not affine in (u, x, y)" % vname)
                kind = "f" if k < len(states) else "g"
                T = Fr(1)
                if kind == "f" and item.t_const is not None:
                    T = _ev(item.t_const.name, ns0)
                eqs.append(dict(kind=kind, var=1 + k + 1 - 1, coef=coef, const=c0, T=T))
        except (NameError, SyntaxError, TypeError, ZeroDivisionError, ValueError) as ex:
            skipped.append("%s %s: %s" % (block_name, {k: str(v) for k, v in p.items()}, ex))
            continue
        nz = len(z_names)
        out_idx = 1 + varnames.index("B_" + spec["out"])
        # declared initial values for constant input u0
        u0 = Fr(4, 3)
        if block_name in ("Integrator", "IntegratorAntiWindup"):
            u0 = Fr(0)                      # an integrator is at rest only with zero input
        if "ref" in p:
            u0 = p["ref"]                   # PI family: at rest when the input equals the reference
        nsi = dict(ns0)
        nsi["u"] = u0
        init = [u0]
        try:
            todo = list(states + algebs)
            for _ in range(len(todo) + 1):       # initial values may depend on each other: resolve in dependency order
                rest = []
                for vname, item in todo:
                    try:
                        nsi[vname] = _ev(item.v_str if item.v_str is not None else 0, nsi)
                    except NameError:
                        rest.append((vname, item))
                todo = rest
                if not todo:
                    break
            if todo:
                raise NameError("circular initial values: %s" % [v for v, _ in todo])
            init = [u0] + [nsi[v] for v in varnames]
        except (NameError, SyntaxError, TypeError, ZeroDivisionError) as ex:
            skipped.append("%s init: %s" % (block_name, ex))
            continue
        for s in S_VALUES:
            # unknowns: all variables; equations: s T x_k = f_k (states), 0 = g_k (algebs); u = 1
            A, rhs = [], []
            for e in eqs:
                row = [e["coef"][1 + j] for j in range(len(varnames))]
                if e["kind"] == "f":
                    row[e["var"] - 1] -= s * e["T"]
                A.append(row)
                rhs.append(-(e["coef"][0] * 1 + e["const"]))
            sol = _solve(A, rhs)
            if sol is None:
                skipped.append("%s %s: singular at s=%s" % (block_name, {k: str(v) for k, v in p.items()}, s))
                continue
            resp = [Fr(1)] + sol
            big = max(abs(v.numerator) for v in resp + [c for e in eqs for c in e["coef"]] + [s]) if resp else 0
            bigd = max(v.denominator for v in resp)
            if big > 30000 or bigd > 30000:
                skipped.append("%s: numbers too large for 32-bit TLC at s=%s" % (block_name, s))
                continue
            out.append(dict(block=block_name, p={k: fr2(v) for k, v in p.items()}, s=fr2(s), out=out_idx + 1,
                            eqs=[dict(kind=e["kind"], var=e["var"] + 1, T=fr2(e["T"]), coef=[fr2(c) for c in e["coef"]],
                                      const=fr2(e["const"]), coef0=[fr2(c) for c in e["coef"]], const0=fr2(e["const"])) for e in eqs],
                            resp=[fr2(v) for v in resp], init=[fr2(v) for v in init], names=z_names))
    return out, skipped


# ------------------------------------------------------------------------------------------------------------
# limited blocks: which quantity each limiter watches and which pair of parameters bounds it
LIM_VALUES = dict(alo=Fr(-5), ahi=Fr(5), lo=Fr(-1), hi=Fr(2), rlo=Fr(-7), rhi=Fr(7))
LIMITED = {
    "PIAWHardLimit": dict(u="u", kp="kp", ki="ki", aw_lower="alo", aw_upper="ahi", lower="lo", upper="hi"),
    "PIDAWHardLimit": dict(u="u", kp="kp", ki="ki", kd="kd", Td="Td", aw_lower="alo", aw_upper="ahi", lower="lo", upper="hi"),
    "PITrackAW": dict(u="u", kp="kp", ki="ki", ks="ks", lower="lo", upper="hi"),
    "PIDTrackAW": dict(u="u", kp="kp", ki="ki", kd="kd", Td="Td", ks="ks", lower="lo", upper="hi"),
    "IntegratorAntiWindup": dict(u="u", T="T", K="K", y0="y0", lower="lo", upper="hi"),
    "LagAntiWindup": dict(u="u", T="T", K="K", lower="lo", upper="hi"),
    "LagAWFreeze": dict(u="u", T="T", K="K", lower="lo", upper="hi", freeze="fr"),
    "LagAntiWindupRate": dict(u="u", T="T", K="K", lower="lo", upper="hi", rate_lower="rlo", rate_upper="rhi"),
    "LeadLagLimit": dict(u="u", T1="T1", T2="T2", lower="lo", upper="hi"),
    "GainLimiter": dict(u="u", K="K", R="R", lower="lo", upper="hi"),
}
X_LATTICE = [Fr(-6), Fr(-5), Fr(-3), Fr(-1), Fr(0), Fr(1), Fr(2), Fr(3), Fr(5), Fr(6)]


def limit_records(block_name):
    """Flags returned by the block's own limiter objects on a lattice of the watched quantity, with distinct values for
    every pair of limit parameters."""
    import numpy as np
    b = _blocks()
    from andes.core.common import dummify
    from andes.core.discrete import Limiter, AntiWindup
    cls = getattr(b, block_name)
    objs = {}
    kwargs = {}
    for arg, pname in LIMITED[block_name].items():
        o = dummify(pname)
        if getattr(o, "tex_name", None) is None:
            o.tex_name = o.name
        objs[pname] = o
        kwargs[arg] = o
    kwargs["name"] = "B"
    blk = cls(**kwargs)
    states, algebs, services, discretes = collect(blk)
    pts = [(x, e) for x in X_LATTICE for e in (-1, 0, 1)]
    n = len(pts)
    for pname, o in objs.items():
        o.v = np.full(n, float(LIM_VALUES.get(pname, Fr(1))))
    out = []
    for dname, d in discretes:
        if not isinstance(d, Limiter):
            continue
        d.u.v = np.array([float(x) for x, _ in pts])
        st = getattr(d, "state", None)
        if st is not None:
            st.v = np.array(d.u.v) if st is d.u else np.zeros(n)
            st.e = np.array([float(e) for _, e in pts])
            st.a = np.arange(n)
        d.list2array(n)
        d.check_var()
        if d.has_check_eq:
            if hasattr(d, "rate_lower"):
                AntiWindup.check_eq(d, niter=0)     # the bounds part only: rate limits act on the derivative
            else:
                d.check_eq(niter=0)
        short = dname[len(blk.name) + 1:]
        for k, (x, e) in enumerate(pts):
            if not isinstance(d, AntiWindup) and e != 0:
                continue
            out.append(dict(kind="limit", block=block_name, limiter=short, watched=d.u.name, x=fr2(x), e=e,
                            p={q: fr2(v) for q, v in LIM_VALUES.items()},
                            zi=int(d.zi[k]), zl=int(d.zl[k]), zu=int(d.zu[k])))
    return out
