"""
C15 driver: runs a scenario with file output into a scratch directory under the tracer and compares,
bit for bit, what the solver held at every stored step (private copies taken by the DAE.store
wrapper) with the in-memory series, the npz/lst files, the plotting loader, the csv export, device
queries and a replay from csv.  The comparisons are logged as booleans in a ``files`` event that
Trace_TDSLoop evaluates (property layer of C15).
"""
import os
import shutil

import numpy as np

from .common import scratch_dir, andes_mod
from . import tdsdrv


def _arr_eq(a, b):
    a = np.asarray(a, dtype=float)
    b = np.asarray(b, dtype=float)
    return a.shape == b.shape and bool(np.array_equal(a, b))


def run_store_scenario(sc):
    andes = andes_mod()
    d = scratch_dir("out")
    try:
        sc = dict(sc)
        kw = dict(sc.get("load_kw", {}))
        kw.update(no_output=False, output_path=d)
        sc["load_kw"] = kw
        sc["keep_rows"] = True
        ss = tdsdrv.build_system_with_output(sc)
        pf = ss.PFlow.run()
        tr = tdsdrv.Tracer(ss, sc)
        tr.install()
        for k, tf in enumerate(sc["segs"]):
            tr.run_segment(tf, k + 1)
            ss.TDS.load_plotter()          # as a notebook user does after every run; it must show the run so far
        tr.ev.append(_file_checks(ss, tr, sc, d))
        res = dict(sid=sc.get("sid"), pflow=bool(pf), events=tr.ev, timers=tr.timers,
                   targets=["|".join(t) for t in tr.targets])
        return tdsdrv.encode_trace(res, sc["tid"], sc)
    finally:
        shutil.rmtree(d, ignore_errors=True)


def _file_checks(ss, tr, sc, d):
    dae = ss.dae
    tds = ss.TDS
    rows = tr.rows                      # [(t, x, y)] in store order
    # later stores at an identical time stamp overwrite the earlier row (dict keyed by t)
    seen = {}
    for t, x, y in rows:
        seen[t] = (x, y)
    n_x, n_y = len(dae.x), len(dae.y)
    if ss.Output.n > 0:
        # the selection as the *specification* reads it: the set of addresses named by the Output
        # entries, in address order, each once (independent of System.set_output_subidx)
        sx, sy = set(), set()
        for model, var, dev in zip(ss.Output.model.v, ss.Output.varname.v, ss.Output.dev.v):
            mdl = ss.models.get(model)
            if mdl is None or mdl.n == 0 or not (mdl.flags.tds or mdl.flags.pflow):
                continue
            allv = mdl.cache.all_vars
            if var is not None and var not in allv:
                continue
            if dev is not None and dev not in mdl.idx.v:
                continue
            for item in (allv.values() if var is None else [allv[var]]):
                addrs = item.a if dev is None else [item.a[mdl.idx2uid(dev)]]
                (sx if item.v_code == "x" else sy).update(int(a) for a in addrs)
        xidx = sorted(sx)
        yidx = sorted(sy)
        out_sel_same = (list(ss.Output.xidx) == xidx and list(ss.Output.yidx) == yidx)
    else:
        xidx = list(range(n_x))
        yidx = list(range(n_y))
    exp_t = np.array([r[0] for r in rows])
    exp = np.array([np.hstack([[r[0]], np.asarray(r[1])[xidx], np.asarray(r[2])[yidx]]) for r in rows]) \
        if rows else np.zeros((0, 1 + len(xidx) + len(yidx)))
    out = dict(e="files", n_expected=len(rows), limit_store=bool(tds.config.limit_store))

    # --- memory -------------------------------------------------------------------------
    dae.ts.unpack(warn_empty=False)
    if not tds.config.limit_store:
        mem = np.hstack([dae.ts.t.reshape((-1, 1)), dae.ts.x, dae.ts.y]) if len(dae.ts.t) else np.zeros((0, exp.shape[1]))
        out["mem_equal"] = _arr_eq(mem, exp)
    else:
        out["mem_equal"] = True
    # --- npz / lst ------------------------------------------------------------------------
    npz = ss.files.npz
    lst = ss.files.lst
    out["files_exist"] = bool(npz and os.path.isfile(npz) and lst and os.path.isfile(lst))
    out["npz_equal"] = True
    out["labels_ok"] = True
    out["plotter_ok"] = True
    out["csv_ok"] = True
    out["query_ok"] = True
    out["replay_ok"] = True
    out["n_file"] = -1
    if out["files_exist"]:
        data = np.load(npz)["data"]
        nz = data.shape[1] - exp.shape[1] if data.ndim == 2 else 0
        out["n_file"] = int(data.shape[0])
        core = data[:, :exp.shape[1]] if data.ndim == 2 and nz >= 0 else data
        out["npz_equal"] = _arr_eq(core, exp) if len(rows) else (data.shape[0] == 0)
        # labels: every column's label names the variable whose address the values came from
        names = []
        for line in open(lst):
            parts = [p.strip() for p in line.split(",")]
            names.append(parts[1])
        ok = len(names) >= 1 + len(xidx) + len(yidx) and names[0] == "Time [s]"
        if ok and len(rows):
            X = np.array([np.asarray(r[1]) for r in rows])
            Y = np.array([np.asarray(r[2]) for r in rows])
            for j, nm in enumerate(names[1:1 + len(xidx) + len(yidx)]):
                col = core[:, 1 + j]
                if j < len(xidx):
                    ok = ok and nm == dae.x_name[xidx[j]] and bool(np.array_equal(col, X[:, xidx[j]]))
                else:
                    a = yidx[j - len(xidx)]
                    ok = ok and nm == dae.y_name[a] and bool(np.array_equal(col, Y[:, a]))
        out["labels_ok"] = bool(ok)
        # plotting loader from file
        try:
            from andes.plot import TDSData
            pl = TDSData(full_name=lst, mode="file")
            pd_ = np.asarray(pl._data)
            out["plotter_ok"] = (_arr_eq(pd_[:, :exp.shape[1]], exp) if len(rows) else pd_.shape[0] == 0) and \
                list(pl._uname[:len(names)]) == names
            # a name query returns the column carrying that name
            if len(rows) and len(yidx):
                nm = dae.y_name[yidx[-1]]
                idx, found = pl.find(nm)
                hit = [i for i, f in zip(idx, found) if f == nm]
                out["plotter_ok"] = out["plotter_ok"] and len(hit) == 1 and bool(
                    np.array_equal(pl.get_values(hit)[:, 0], Y[:, yidx[-1]]))
            csv = os.path.join(d, "export.csv")
            pl.export_csv(path=csv)
            back = np.loadtxt(csv, delimiter=",", skiprows=1, ndmin=2)
            out["csv_ok"] = _arr_eq(back[:, :exp.shape[1]], exp) if len(rows) else True
            header = open(csv).readline().strip().split(",")
            out["csv_ok"] = out["csv_ok"] and [h.strip() for h in header][:len(names)] == names
            # a selection of columns in the caller's own (not ascending) order: every value under the label of its column
            ncol = exp.shape[1]
            if len(rows) and ncol >= 4:
                pick = [ncol - 1, 1, ncol - 2, 2]
                for sort_idx in (True, False):
                    csv2 = os.path.join(d, "export_sel%d.csv" % int(sort_idx))
                    pl.export_csv(path=csv2, idx=list(pick), sort_idx=sort_idx)
                    head2 = [h.strip() for h in open(csv2).readline().strip().split(",")]
                    back2 = np.loadtxt(csv2, delimiter=",", skiprows=1, ndmin=2)
                    off = 1 if (len(head2) == len(pick) + 1) else 0            # a leading time column
                    ok2 = back2.shape[1] == len(head2) and len(head2) - off == len(pick)
                    for j, h_ in enumerate(head2[off:]):
                        if not ok2:
                            break
                        if h_ not in names:
                            ok2 = False
                            break
                        ok2 = _arr_eq(back2[:, off + j:off + j + 1], exp[:, names.index(h_):names.index(h_) + 1])
                    ok2 = ok2 and sorted(head2[off:]) == sorted(names[c_] for c_ in pick)
                    if not ok2:
                        out["csv_ok"] = False
                        out["csv_error"] = "selected columns %s (sort_idx=%s): a value is not under the label of its column" % (pick, sort_idx)
        except Exception as ex:   # loader failing on files the library wrote is an observation
            out["plotter_ok"] = False
            out["loader_error"] = "%s: %s" % (type(ex).__name__, str(ex)[:200])
    # --- the in-memory plotter (TDS.load_plotter): the whole run so far, and queries by variable ---------------------
    out["memplot_ok"] = True
    if len(rows) and not tds.config.limit_store:
        try:
            tds.load_plotter()
            pm = tds.plotter
            data = np.asarray(pm._data)
            okm = data.shape[0] == len(rows) and _arr_eq(data[:, 0], exp_t) and _arr_eq(data[:, :exp.shape[1]], exp)
            X = np.array([np.asarray(r[1]) for r in rows])
            Y = np.array([np.asarray(r[2]) for r in rows])
            # a query by variable returns the stored values of exactly that variable's devices, under their names
            for var, M, sel in ((ss.Bus.v, Y, yidx), (ss.Bus.a, Y, yidx)) + (((ss.GENROU.omega, X, xidx),) if ss.GENROU.n else ()) \
                    + (((ss.GENROU.vd, Y, yidx),) if ss.GENROU.n else ()):
                want = [int(a_) for a_ in var.a if int(a_) in sel]
                cols = pm._process_yidx(var, None)
                cols = [int(c_) for c_ in np.atleast_1d(cols)] if cols is not None and len(np.atleast_1d(cols)) else []
                if len(cols) != len(want):
                    okm = False
                    out["memplot_error"] = "query %s: %d columns for %d stored devices" % (var.name, len(cols), len(want))
                    break
                if not cols:
                    continue
                got = pm.get_values(cols)
                names = pm.get_header(cols)
                for j, a_ in enumerate(want):
                    okm = okm and bool(np.array_equal(got[:, j], M[:, a_]))
                    okm = okm and names[j] == (dae.x_name[a_] if M is X else dae.y_name[a_])
            out["memplot_ok"] = bool(okm)
        except Exception as ex:
            out["memplot_ok"] = False
            out["memplot_error"] = "%s: %s" % (type(ex).__name__, str(ex)[:200])
    # --- replay from the exported csv -----------------------------------------------------
    if sc.get("replay") and out["files_exist"] and len(rows) > 1 and os.path.isfile(os.path.join(d, "export.csv")):
      # the replaying system has the configuration of the run, or its own coarser step: the rows of the file are what is replayed
      for coarse in (False, True):
        if out.get("replay_ok") is False:
            break
        try:
            sc2 = dict(sc)
            sc2["load_kw"] = {}
            sc2["events"] = []
            if coarse:
                sc2["tds"] = dict(sc.get("tds", {}), tstep=4.0 * float(tds.config.tstep), fixt=1)
            ss2 = tdsdrv.build_system(sc2)
            ss2.PFlow.run()
            r2 = ss2.TDS.run(no_summary=True, from_csv=os.path.join(d, "export.csv"))
            ss2.dae.ts.unpack(warn_empty=False)
            t2 = np.asarray(ss2.dae.ts.t)
            v2 = np.hstack([ss2.dae.ts.x, ss2.dae.ts.y]) if len(t2) else np.zeros((0, 0))
            # a csv file cannot tell apart two rows whose time stamps differ by an ulp (a last step of 3e-17 s that lands
            # exactly on tf): such rows count as one (the later one) when the replay is compared
            keep = [k for k in range(len(exp_t)) if k == len(exp_t) - 1 or exp_t[k + 1] - exp_t[k] > 1e-10]
            exp_tk = exp_t[keep]
            ok = bool(r2) and len(t2) == len(keep) and bool(np.max(np.abs(t2 - exp_tk)) <= 1e-10)
            if ok:
                first = [0] + [k + 1 for k in keep[:-1]]          # first row of every cluster of indistinguishable stamps
                ok = v2.shape == exp[keep, 1:].shape
                for j in range(len(keep)):
                    if not ok:
                        break
                    close = [bool(np.max(np.abs(v2[j] - exp[m_, 1:]) / (1 + np.abs(exp[m_, 1:]))) <= 1e-10) for m_ in range(first[j], keep[j] + 1)]
                    ok = any(close)
            out["replay_ok"] = bool(ok)
            if not ok:
                out["replay_error"] = "replay on a system with %s: %d rows for %d kept rows" % (
                    "a coarser step of its own" if coarse else "the configuration of the run", len(t2), len(keep))
        except Exception as ex:
            out["replay_ok"] = False
            out["replay_error"] = "%s: %s" % (type(ex).__name__, str(ex)[:200])
    # --- queries through the time-series API ---------------------------------------------
    if len(rows) and not tds.config.limit_store:
        Y = np.array([np.asarray(r[2]) for r in rows])
        X = np.array([np.asarray(r[1]) for r in rows])
        ok = True
        for var, M in ((ss.Bus.v, Y), (ss.Bus.a, Y)) + (((ss.GENROU.omega, X),) if ss.GENROU.n else ()):
            for k in range(min(var.n, 4)):
                if ss.Output.n > 0 and int(var.a[k]) not in (yidx if M is Y else xidx):
                    continue
                try:
                    if ss.Output.n > 0:
                        full = ss.Output.to_output_addr(var)
                        devs = [int(i) for i in (np.asarray(var.a)[np.isin(var.a, yidx if M is Y else xidx)])]
                        pos = devs.index(int(var.a[k]))
                        got = dae.ts.get_data(var, a=[pos])
                    else:
                        got = dae.ts.get_data(var, a=[k])
                    ok = ok and got is not None and got.shape[1] == 1 and bool(np.array_equal(got[:, 0], M[:, int(var.a[k])]))
                except Exception:
                    ok = False
        out["query_ok"] = bool(ok)
    return out
