"""
Evidence writer, known-findings matcher and the VIOLATION / KNOWN-FINDING protocol.
"""
import hashlib
import json
import os
import sys
import time

from .common import EVID, REPLAYS, VERIF, dump_json, seed

KNOWN = os.path.join(VERIF, "known_findings.txt")


def load_known():
    """Return {(property, key): text} for ``finding:`` lines.  ``fixed:`` lines suppress nothing."""
    out = {}
    if not os.path.exists(KNOWN):
        return out
    for line in open(KNOWN):
        line = line.strip()
        if not line.startswith("finding:"):
            continue
        parts = line[len("finding:"):].split()
        prop = key = None
        rest = []
        for p in parts:
            if p.startswith("property=") and prop is None:
                prop = p[len("property="):]
            elif p.startswith("key=") and key is None:
                key = p[len("key="):]
            else:
                rest.append(p)
        if prop and key:
            out[(prop, key)] = " ".join(rest)
    return out


def _tail(out):
    i = out.find("Error:")
    return out[i:i + 1500] if i >= 0 else out[-1500:]


class Report:
    def __init__(self, pid, tier, level="model_checking"):
        self.pid = pid
        self.tier = tier
        self.level = level
        self.t0 = time.time()
        self.states = 0
        self.transitions = 0
        self.traces = 0
        self.evaluations = 0
        self.nontrivial = set()
        self.samples = []
        self.assumptions = []
        self.notes = []
        self.violations = []      # unlisted
        self.known_seen = {}      # key -> what
        self.extra = {}
        self.exhaustive = None
        self.rule = ""
        self.known = load_known()
        self.machinery_errors = []
        self.tlc_runs = []

    def phase(self, name):
        """Record wall time per phase of the check (written to the evidence)."""
        now = time.time()
        if getattr(self, "_ph", None):
            self.extra.setdefault("phase_wall_s", {})[self._ph[0]] = round(now - self._ph[1], 1)
        self._ph = (name, now) if name else None

    # --- accumulation -------------------------------------------------------------------
    def add_tlc(self, res, label=""):
        self.states += int(res.get("distinct") or 0)
        self.transitions += int(res.get("generated") or 0)
        self.tlc_runs.append({"label": label, "distinct": res.get("distinct"), "generated": res.get("generated"),
                              "depth": res.get("depth"), "wall_s": round(res.get("wall_s", 0), 1),
                              "violation": res.get("violation")})
        if not res.get("machinery_ok"):
            self.machinery("TLC run %s failed: %s" % (label, res.get("fatal") or ("timeout" if res.get("timed_out") else "rc=%s" % res.get("rc"))),
                           _tail(res.get("out", "")))

    def count(self, n=1):
        self.evaluations += n

    def nontriv(self, key):
        self.nontrivial.add(key if isinstance(key, str) else json.dumps(key, sort_keys=True, default=str))

    def sample(self, obj, limit=6):
        if len(self.samples) < limit:
            self.samples.append(obj)

    def assume(self, text):
        if text not in self.assumptions:
            self.assumptions.append(text)

    def note(self, text):
        if text not in self.notes:
            self.notes.append(text)
            print("NOTE: " + text)

    def machinery(self, text, detail=""):
        self.machinery_errors.append(text)
        sys.stderr.write("MACHINERY: %s\n%s\n" % (text, detail))

    # --- verdicts -----------------------------------------------------------------------
    def violation(self, key, what, replay=None):
        """
        Report a property-layer violation observed on the real code.  ``key`` is the narrow
        signature compared with known_findings.txt.
        """
        k = (self.pid, key)
        if k in self.known:
            if key not in self.known_seen:
                self.known_seen[key] = what
                print("KNOWN-FINDING: property=%s key=%s %s" % (self.pid, key, self.known[k] or what))
            return False
        for v in self.violations:
            if v["key"] == key:
                v["count"] += 1
                return True
        os.makedirs(REPLAYS, exist_ok=True)
        h = hashlib.sha1(("%s:%s" % (self.pid, key)).encode()).hexdigest()[:10]
        path = os.path.join(REPLAYS, "%s-%s.json" % (self.pid, h))
        dump_json(path, {"property": self.pid, "key": key, "what": what, "replay": replay})
        self.violations.append({"key": key, "what": what, "path": path, "count": 1})
        if len(self.violations) <= 12:
            print("VIOLATION property=%s replay=%s" % (self.pid, path))
            print("  key=%s %s" % (key, what))
        elif len(self.violations) == 13:
            print("  ... further violations are counted in the evidence file and written to replays/ without a line each")
        return True

    # --- output -------------------------------------------------------------------------
    def finish(self):
        self.phase(None)
        wall = time.time() - self.t0
        cov = {
            "states": max(self.states, 0),
            "transitions": max(self.transitions, self.states, 0),
            "traces_validated_against_impl": self.traces,
            "evaluations": self.evaluations,
            "distinct_nontrivial": len(self.nontrivial),
            "rule": self.rule,
            "samples": self.samples if self.samples else ["(none recorded)"],
            "tlc_runs": self.tlc_runs,
            "known_findings_observed": sorted(self.known_seen),
            "notes": self.notes,
        }
        if self.exhaustive is not None:
            cov["exhaustive"] = bool(self.exhaustive)
        cov.update(self.extra)
        ev = {
            "property_id": self.pid,
            "tier": self.tier,
            "seed": seed(),
            "level": self.level,
            "coverage": cov,
            "assumptions": self.assumptions,
            "wall_s": round(wall, 2),
            "violations": len(self.violations),
        }
        if self.machinery_errors:
            ev["coverage"]["machinery_errors"] = self.machinery_errors
        dump_json(os.path.join(EVID, self.pid + ".json"), ev)
        if self.machinery_errors:
            print("MACHINERY-FAILURE property=%s (%d); no verdict" % (self.pid, len(self.machinery_errors)))
            return 2
        if self.violations:
            print("FAILED property=%s tier=%s violations=%d (distinct keys)" % (self.pid, self.tier, len(self.violations)))
            return 1
        print("OK property=%s tier=%s states=%d traces=%d evaluations=%d nontrivial=%d wall=%.1fs" % (
            self.pid, self.tier, self.states, self.traces, self.evaluations, len(self.nontrivial), wall))
        return 0
