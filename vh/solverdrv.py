"""
C16 drivers: (1) call sequences on real solver wrappers with unimodular integer matrices (exact solutions);
(2) routine results across the configuration product {sparselib} x linsolve x ipadd x Newton variant, and
repetition in a fresh process.
"""
import hashlib
import json
import subprocess
import sys

import numpy as np

from .common import andes_mod, load_case, clean_env, PY, VERIF, REPO


def matrices():
    """id -> (kvxopt spmatrix, exact solution for b = [1, 2, 3, 4], singular?)"""
    andes_mod()
    from andes.shared import spmatrix, matrix
    out = {}
    n = 4
    # pattern P: tridiagonal; pattern Q: P plus corner entries.  Unimodular-ish integer matrices with small exact inverses.
    P1 = {(0, 0): 2.0, (1, 1): 3.0, (2, 2): 2.0, (3, 3): 5.0, (0, 1): 1.0, (1, 0): 1.0, (1, 2): 1.0, (2, 1): 1.0, (2, 3): 1.0, (3, 2): 1.0}
    P2 = {k: v * (1.5 if k[0] == k[1] else 0.5) + (1.0 if k == (0, 0) else 0.0) for k, v in P1.items()}
    Q1 = dict(P1)
    Q1.update({(0, 3): 0.5, (3, 0): -0.5})
    S1 = {k: (0.0 if k[0] == 2 else v) for k, v in P1.items()}          # row 2 all zero on pattern P (explicit zeros)
    S2 = {k: (0.0 if k[0] == 1 else v) for k, v in Q1.items()}
    for mid, d, sing in ((1, P1, False), (2, P2, False), (3, Q1, False), (4, S1, True), (5, S2, True)):
        I = [k[0] for k in d]
        J = [k[1] for k in d]
        V = [d[k] for k in d]
        A = spmatrix(V, I, J, (n, n), "d")
        dense = np.zeros((n, n))
        for k, v in d.items():
            dense[k] = v
        b = np.array([1.0, 2.0, 3.0, 4.0])
        x = None if sing else np.linalg.solve(dense, b)
        out[mid] = (A, x, sing)
    return out


def run_calls(sc):
    andes_mod()
    from andes.linsolvers.solverbase import Solver
    from andes.shared import matrix
    mats = matrices()
    sol = Solver(sparselib=sc["lib"])
    ev = []
    for c in sc["calls"]:
        op = c["op"]
        if op == "set_factorize":
            sol.worker.factorize = True
            ev.append(dict(e="call", op=op, lib=sc["lib"], sing=False, result="", expect=""))
            continue
        if op == "set_new_A":
            sol.worker.new_A = True
            ev.append(dict(e="call", op=op, lib=sc["lib"], sing=False, result="", expect=""))
            continue
        if op == "clear":
            sol.clear()
            ev.append(dict(e="call", op=op, lib=sc["lib"], sing=False, result="", expect=""))
            continue
        A, x, sing = mats[c["A"]]
        b = matrix([1.0, 2.0, 3.0, 4.0])
        try:
            r = sol.solve(A, b) if op == "solve" else sol.linsolve(A, b)
            r = np.ravel(np.array(r, dtype=float))
            if np.isnan(r).all():
                res = "nan"
            elif np.array_equal(r, np.array([1.0, 2.0, 3.0, 4.0])):
                res = "rhs"
            else:
                res = "other"
                for mid, (_, xs, sg) in mats.items():
                    if xs is not None and np.allclose(r, xs, rtol=1e-9, atol=1e-12):
                        res = "sol:%d" % mid
        except Exception as ex:
            res = "raised:%s" % type(ex).__name__
        ev.append(dict(e="call", op=op, lib=sc["lib"], sing=bool(sing), result=res, expect="sol:%d" % c["A"]))
    return dict(meta=dict(tid=sc["tid"], sid=sc["sid"]), ev=ev)


def _digest(ss):
    h = hashlib.sha256()
    h.update(np.ascontiguousarray(ss.dae.x).tobytes())
    h.update(np.ascontiguousarray(ss.dae.y).tobytes())
    return h.hexdigest()


def _load_early_event(case):
    """The case with its own timed events moved so that the first one happens at 0.1 s (a disturbance inside the short runs)."""
    ss = load_case(case, setup=False)
    times = []
    for name in ("Toggle", "Fault", "Alter"):
        mdl = ss.models[name]
        for par in mdl.timer_params.values():
            times += [float(v) for k, v in enumerate(par.v) if mdl.u.v[k] == 1 and float(v) > 0]
    if times:
        f = 0.1 / min(times)
        for name in ("Toggle", "Fault", "Alter"):
            mdl = ss.models[name]
            for par in mdl.timer_params.values():
                for k in range(mdl.n):
                    if float(par.v[k]) > 0:
                        par.v[k] = float(par.v[k]) * f
    ss.setup()
    return ss


def interleave(sc):
    """Two Systems used alternately in one process: the trajectory of the first must not depend on the second having been
    solved in between (solver objects, cached factorisations and flags belong to one routine of one System)."""
    import hashlib as _h

    def setlib(ss):
        for r in (ss.PFlow, ss.TDS, ss.EIG):
            if sc["lib"] != "klu":
                from andes.linsolvers.solverbase import Solver
                r.solver = Solver(sparselib=sc["lib"])
                r.config.sparselib = sc["lib"]
        ss.TDS.config.no_tqdm = 1

    def run_a(with_b):
        a = _load_early_event(sc["case"])
        setlib(a)
        a.PFlow.run()
        a.TDS.config.tf = 0.25
        ok = bool(a.TDS.run(no_summary=True))
        if with_b:
            b = _load_early_event(sc["other"])
            setlib(b)
            b.PFlow.run()
            b.TDS.config.tf = 0.15
            b.TDS.run(no_summary=True)
        a.TDS.config.tf = 0.6
        ok = bool(a.TDS.run(no_summary=True)) and ok
        return ok, np.hstack([a.dae.x, a.dae.y])
    ev = []
    try:
        ok0, v0 = run_a(False)
        ok1, v1 = run_a(True)
        same = bool(ok0 == ok1)
        ident = bool(same and v0.shape == v1.shape and np.array_equal(v0, v1))
        ev.append(dict(e="config", routine="tds", same_success=same, close=ident, repeat_identical=ident,
                       cfg="%s/two systems interleaved" % sc["lib"],
                       dmax_ppb=int(min(2e9, np.max(np.abs(v1 - v0) / (1 + np.abs(v0))) * 1e9)) if v0.shape == v1.shape and len(v0) else 2000000000))
    except Exception as ex:
        ev.append(dict(e="config", routine="tds", same_success=False, close=False, repeat_identical=False,
                       cfg="%s/two systems interleaved (raised %s)" % (sc["lib"], type(ex).__name__), dmax_ppb=2000000000))
    return dict(meta=dict(tid=sc["tid"], sid=sc["sid"]), ev=ev)


def routine_result(sc):
    """Run one routine under one configuration; returns the state vectors (lists) and a digest."""
    ss = _load_early_event(sc["case"])
    ss.TDS.config.honest = int(sc.get("honest", 0))
    for r in (ss.PFlow, ss.TDS, ss.EIG):
        if sc["lib"] != "klu":
            from andes.linsolvers.solverbase import Solver
            r.solver = Solver(sparselib=sc["lib"])
            r.config.sparselib = sc["lib"]
        r.config.linsolve = sc["linsolve"]
    ss.config.ipadd = sc["ipadd"]
    for k in sc.get("lines_off", []):            # branches taken out of service before the first routine (isolates a bus)
        ss.Line.u.v[k] = 0
    ss.PFlow.config.method = sc["method"]
    ss.TDS.config.no_tqdm = 1
    ss.TDS.config.tf = sc.get("tf", 0.5)
    ok = bool(ss.PFlow.run())
    out = dict(ok=ok)
    if sc["routine"] == "pflow":
        out["vec"] = np.hstack([ss.dae.x, ss.dae.y]).tolist()
    elif sc["routine"] == "tds" and ok:
        out["ok"] = bool(ss.TDS.run(no_summary=True))
        out["vec"] = np.hstack([ss.dae.x, ss.dae.y]).tolist()
    elif sc["routine"] == "eig" and ok:
        out["ok"] = bool(ss.EIG.run())
        mu = np.sort_complex(np.asarray(ss.EIG.mu))
        out["vec"] = np.hstack([mu.real, mu.imag]).tolist()
    out["digest"] = hashlib.sha256(np.asarray(out.get("vec", []), dtype=float).tobytes()).hexdigest()
    return out


def fresh_process_digest(sc):
    code = ("import sys, json\nsys.path.insert(0, %r)\nfrom vh import solverdrv\nimport os\n"
            "devnull = os.open(os.devnull, os.O_WRONLY); saved = os.dup(1); os.dup2(devnull, 1)\n"
            "r = solverdrv.routine_result(json.loads(sys.argv[1]))\nos.dup2(saved, 1)\nprint(r['digest'])\n" % VERIF)
    p = subprocess.run([PY, "-c", code, json.dumps(sc)], stdout=subprocess.PIPE, stderr=subprocess.DEVNULL,
                       env=clean_env({"VERIF_REPO": REPO}), timeout=600)
    return p.stdout.decode().strip().splitlines()[-1] if p.returncode == 0 and p.stdout.strip() else "failed"


def config_product(sc):
    """All configurations of one (case, routine) against the reference configuration."""
    ref = dict(sc, lib="klu", linsolve=0, ipadd=1, method="NR")
    r0 = routine_result(ref)
    v0 = np.asarray(r0.get("vec", []), dtype=float)
    tol = sc["tol"]
    ev = []
    for cfg in sc["configs"]:
        c = dict(sc, **cfg)
        try:
            r = routine_result(c)
        except Exception as ex:
            r = dict(ok=False, vec=[], digest="raised:%s" % type(ex).__name__)
        v = np.asarray(r.get("vec", []), dtype=float)
        same = bool(r["ok"] == r0["ok"])
        close = bool(same and len(v) == len(v0) and (len(v) == 0 or np.max(np.abs(v - v0) / (1 + np.abs(v0))) <= tol))
        rep_ok = True
        if cfg.get("repeat"):
            rep_ok = (fresh_process_digest(c) == r["digest"])
        ev.append(dict(e="config", routine=sc["routine"], same_success=same, close=close, repeat_identical=bool(rep_ok),
                       cfg="%s/lin%d/ipadd%d/%s/honest%d" % (cfg["lib"], cfg["linsolve"], cfg["ipadd"], cfg["method"], cfg.get("honest", 0)),
                       dmax_ppb=int(min(2e9, (np.max(np.abs(v - v0) / (1 + np.abs(v0))) * 1e9) if len(v) == len(v0) and len(v) else 2e9))))
    return dict(meta=dict(tid=sc["tid"], sid=sc["sid"]), ev=ev)
