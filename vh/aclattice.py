"""Shared by C01 and C03: enumerate the ACNetwork lattice with TLC (parallel chunks) and evaluate it on the real code."""
import json
import os
import random
import shutil
from concurrent.futures import ThreadPoolExecutor

from .common import scratch_dir, NCPU, seed
from .pool import run_tasks
from .tlc import run_tlc
from . import acdrv


def run_lattice(rep, quick, tag):
    rnd = random.Random("%s-%d" % (tag, seed()))
    must = [0, 8191, 4095, 1365, 2730, 5]
    ns = sorted(set(must + rnd.sample(range(8192), 42 if quick else 800)))
    jobs = 8
    parts = [ns[i::jobs] for i in range(jobs)]
    d = scratch_dir("ac")
    cases = []
    try:
        def one(k):
            nsf, out = os.path.join(d, "ns%d.json" % k), os.path.join(d, "o%d.json" % k)
            json.dump(parts[k], open(nsf, "w"))
            r = run_tlc("Scen_ACNetwork", "Scen_ACNetwork.cfg", workers=1, timeout=3000, env={"OUT": out, "NS": nsf}, heap="3g")
            return r, out
        with ThreadPoolExecutor(max_workers=jobs) as ex:
            res = list(ex.map(one, [k for k in range(jobs) if parts[k]]))
        for r, out in res:
            rep.add_tlc(r, "ACNetwork (exact residuals and Jacobian of the lattice; sanity ASSUMEs)")
            if os.path.exists(out):
                cases += json.load(open(out))["cases"]
    finally:
        shutil.rmtree(d, ignore_errors=True)
    for c in cases:
        c["ptkey"] = (acdrv.f(c["pt"]["v1"]), c["pt"]["k1"], acdrv.f(c["pt"]["v2"]), c["pt"]["k2"])
    tuples = {}
    for c in cases:
        tuples[c["n"]] = c["d"]
    items = sorted(tuples.items())
    chunks = [items[i::NCPU] for i in range(NCPU)]
    tasks = []
    for ch in chunks:
        if ch:
            keep = {n for n, _ in ch}
            tasks.append(dict(tuples=ch, cases=[c for c in cases if c["n"] in keep]))
    res = run_tasks("vh.acdrv:evaluate", tasks, nproc=NCPU, timeout=1800)
    bad, neval = [], 0
    for x in res:
        if x["status"] == "ok":
            bad += x["result"]["bad"]
            neval += x["result"]["neval"]
        else:
            rep.machinery("lattice evaluation worker %s" % x["status"], x.get("error", "")[-1200:])
    rep.states += len(cases)
    return cases, bad, neval, len(tuples)
