"""
C02 driver: protocol scenarios (edit / prepare / System() with and without automatic regeneration / corrupt / delete) on a
scratch pycode directory with a harness-defined probe model, one fresh interpreter per step; and determinism of
code generation for shipped models (two generations, byte-for-byte).
"""
import hashlib
import json
import os
import shutil
import subprocess

from .common import PY, REPO, VERIF, clean_env, scratch_dir, pycode_path
from . import codegen_step


def _step(args):
    p = subprocess.run([PY, "-m", "vh.codegen_step", json.dumps(args)], cwd=VERIF, stdout=subprocess.PIPE, stderr=subprocess.PIPE,
                       env=clean_env(), timeout=900)
    for line in p.stdout.decode(errors="replace").splitlines():
        if line.startswith("RESULT "):
            return json.loads(line[7:])
    return dict(raised=True, raised_text="step process failed rc=%s: %s" % (p.returncode, p.stderr.decode(errors="replace")[-400:]), op=args["op"])


INITIAL_STATE = dict(e=1, v=1, iter=3, svc=0, ext=1, iter2=0, order=0)


def make_base(pyc, statef=None):
    """A pycode directory in which the shipped models are up to date (copy of the harness cache) and the probe model has
    been generated at version 1.  Returns an error text or None."""
    shutil.copytree(pycode_path(), pyc, ignore=shutil.ignore_patterns("__pycache__", "*.lock"))
    own = statef is None
    if own:
        statef = pyc + ".state.json"
        json.dump(INITIAL_STATE, open(statef, "w"))
    try:
        r0 = _step(dict(repo=REPO, verif=VERIF, pycode=pyc, state=statef, op="prepare"))
    finally:
        if own:
            os.remove(statef)
    shutil.rmtree(os.path.join(pyc, "__pycache__"), ignore_errors=True)
    return r0.get("raised_text") if r0.get("raised") else None


def run_sequence(sc):
    d = scratch_dir("cg")
    ev = []
    try:
        pyc = os.path.join(d, "pycode")
        statef = os.path.join(d, "state.json")
        state = dict(INITIAL_STATE)
        json.dump(state, open(statef, "w"))
        base = dict(repo=REPO, verif=VERIF, pycode=pyc, state=statef)
        # every scenario starts from a consistent generated state
        if sc.get("base"):
            shutil.copytree(sc["base"], pyc, ignore=shutil.ignore_patterns("__pycache__", "*.lock"))
        else:
            err = make_base(pyc, statef)
            if err:
                return dict(meta=dict(tid=sc["tid"], sid=sc["sid"]), ev=[], setup_error=err)
        def content_key(st):
            return json.dumps(dict(st, order=st["order"] % 2), sort_keys=True)
        versions = {content_key(state): 1}      # content id of every definition seen (the same strings = the same content)
        for op in sc["ops"]:
            rec = dict(e="op", op=op, is_edit=op.startswith("edit_"), is_load=op in ("undill_auto", "undill_noauto"), autogen=(op == "undill_auto"),
                       raised=False, used_ver=0, reported_stale=False, values_ok=True)
            if op.startswith("edit_"):
                key = {"edit_e": "e", "edit_v": "v", "edit_iter": "iter", "edit_svc": "svc", "edit_ext": "ext", "edit_iter2": "iter2", "edit_order": "order"}[op]
                state[key] += 1
                json.dump(state, open(statef, "w"))
                versions.setdefault(content_key(state), len(versions) + 1)
                rec["content"] = versions[content_key(state)]
            elif op == "corrupt":
                f = os.path.join(pyc, "VProbe.py")
                if os.path.exists(f):
                    open(f, "w").write("this is not python (\n")
            elif op in ("trunc_funcs", "trunc_lists"):
                # a writer killed mid-file: keep the lines before the argument lists / before the last lists
                f = os.path.join(pyc, "VProbe.py")
                if os.path.exists(f):
                    lines = open(f).read().splitlines(True)
                    mark = "f_args = " if op == "trunc_funcs" else "j_names = "
                    cut = next((k for k, ln in enumerate(lines) if ln.startswith(mark)), None)
                    if cut is not None:
                        open(f, "w").write("".join(lines[:cut]))
                shutil.rmtree(os.path.join(pyc, "__pycache__"), ignore_errors=True)
            elif op == "delete":
                f = os.path.join(pyc, "VProbe.py")
                if os.path.exists(f):
                    os.remove(f)
                shutil.rmtree(os.path.join(pyc, "__pycache__"), ignore_errors=True)
            else:
                r = _step(dict(base, op=op))
                rec["raised"] = bool(r.get("raised"))
                if not rec["raised"]:
                    # which version do the observed numbers belong to?
                    # (several definitions can compute the same numbers, e.g. two declaration orders each with its own
                    # code: code that computes what the current definition declares counts as the current version)
                    matches = []
                    for sjson, vnum in versions.items():
                        ex = codegen_step.expected_values(json.loads(sjson))
                        if abs(r["y0"] - ex["y0"]) < 1e-9 and abs(r["gy"] - ex["gy_at_init"]) < 1e-9 and abs(r["ksv"] - ex["ksv"]) < 1e-9 \
                                and abs(r["z0"] - ex["z0"]) < 1e-3 and abs(r["p0"] - ex["p0"]) < 1e-3 and abs(r["q0"] - ex["q0"]) < 1e-3 \
                                and abs(r["ae"] - ex["ae"]) < 1e-9 and abs(r["gw1"] - ex["gw1"]) < 1e-9 and abs(r["gw2"] - ex["gw2"]) < 1e-9:       # iterative initialisation stops at TDS.config.tol
                            matches.append(vnum)
                    current = versions[content_key(state)]
                    match = current if current in matches else (matches[-1] if matches else 0)
                    rec["used_ver"] = match
                    rec["values_ok"] = bool(match != 0)
                    rec["reported_stale"] = bool(r.get("stale_reported"))
                    rec["regenerated"] = bool(r.get("regenerated"))
                else:
                    rec["raised_text"] = r.get("raised_text")
                    rec["tb"] = r.get("tb")
            ev.append(rec)
    finally:
        shutil.rmtree(d, ignore_errors=True)
    return dict(meta=dict(tid=sc["tid"], sid=sc["sid"]), ev=ev)


def concurrent(sc):
    """CodegenConc schedules on the real code: process A creates a System (automatic regeneration) over a directory whose probe
    model is stale for it; at A's point between writing and importing again, process B creates a System over the same
    directory (fresh interpreter), with the same model definition as A (parallel workers of one checkout) or with another
    one (two checkouts sharing the directory).  Recorded: which definition the code A ends up running computes."""
    d = scratch_dir("cgc")
    try:
        pyc = os.path.join(d, "pycode")
        err = make_base(pyc)
        if err:
            return dict(sid=sc["sid"], setup_error=err)
        sa, sb = os.path.join(d, "a.json"), os.path.join(d, "b.json")
        va = dict(INITIAL_STATE, e=2, v=2)                       # A's definition differs from the generated one (version 1)
        vb = dict(va) if sc["same"] else dict(INITIAL_STATE, e=3, v=3)
        json.dump(va, open(sa, "w"))
        json.dump(vb, open(sb, "w"))
        nested = dict(repo=REPO, verif=VERIF, pycode=pyc, state=sb, op="undill_auto")
        ra = _step(dict(repo=REPO, verif=VERIF, pycode=pyc, state=sa, op="undill_auto", nested=nested))
        ea, eb = codegen_step.expected_values(va), codegen_step.expected_values(vb)
        rb = ra.get("nested_result") or {}

        def runs(r, exp):
            return bool(not r.get("raised") and all(abs(r.get(k, 1e9) - exp[k]) < 1e-9 for k in ("y0", "gy_at_init".replace("_at_init", ""))
                                                    if k in r)) if r else False
        def which(r):
            if not r or r.get("raised"):
                return "raised"
            for name, exp in (("own_a", ea), ("b", eb)):
                if abs(r.get("y0", 1e9) - exp["y0"]) < 1e-9:
                    return name
            return "other"
        return dict(sid=sc["sid"], same=bool(sc["same"]), a_runs=which(ra), b_runs=("own_b" if which(rb) == "b" else which(rb)),
                    a_md5_match=bool(ra.get("md5_loaded") == ra.get("md5_model")), a_raised=bool(ra.get("raised")),
                    a_text=ra.get("raised_text"), nested_ran=bool(rb))
    finally:
        shutil.rmtree(d, ignore_errors=True)


def determinism(sc):
    """Generate code twice for a set of shipped models into two directories, with different hash seeds and once serially,
    once through the process pool: the recorded checksum must be the model's; files that are not byte-identical are compared
    functionally (both must pass the equation-level comparison with the declared strings on the same lattice)."""
    d = scratch_dir("cgd")
    try:
        outs = []
        for k in (1, 2):
            p = os.path.join(d, "p%d" % k)
            shutil.copytree(pycode_path(), p, ignore=shutil.ignore_patterns("__pycache__", "*.lock"))
            for m in sc["models"]:
                f = os.path.join(p, m + ".py")
                if os.path.exists(f):
                    os.remove(f)
            code = ("import sys, json\nsys.path.insert(0, %r)\nimport andes\nandes.config_logger(stream_level=50, file=False)\n"
                    "ss = andes.System(default_config=True, no_undill=True, pycode_path=%r, no_output=True)\n"
                    "ss.prepare(quick=True, incremental=False, models=%r, nomp=%r, ncpu=4)\n"
                    "print('MD5 ' + json.dumps({m: ss.models[m].get_md5() for m in %r}))\n" % (REPO, p, sc["models"], bool(k == 2), sc["models"]))
            r = subprocess.run([PY, "-c", code], stdout=subprocess.PIPE, stderr=subprocess.PIPE, env=clean_env({"PYTHONHASHSEED": str(k)}), timeout=3000)
            md5 = {}
            for line in r.stdout.decode(errors="replace").splitlines():
                if line.startswith("MD5 "):
                    md5 = json.loads(line[4:])
            outs.append((p, md5, r.returncode, r.stderr.decode(errors="replace")[-400:]))
        if not outs[0][1] or not outs[1][1]:
            return dict(meta=dict(tid=sc["tid"], sid=sc["sid"]), ev=[], setup_error="generation failed: %s | %s" % (outs[0][3], outs[1][3]))
        md5_ok = True
        diff, missing = [], []
        for m in sc["models"]:
            f1, f2 = os.path.join(outs[0][0], m + ".py"), os.path.join(outs[1][0], m + ".py")
            if not (os.path.exists(f1) and os.path.exists(f2)):
                missing.append(m)
                continue
            b1, b2 = open(f1, "rb").read(), open(f2, "rb").read()
            if b1 != b2:
                diff.append(m)
            for b, o in ((b1, outs[0]), (b2, outs[1])):
                rec = [ln for ln in b.decode(errors="replace").splitlines() if ln.startswith("md5 = ")]
                if not rec or o[1].get(m) is None or o[1][m] not in rec[0]:
                    md5_ok = False
        functional = True
        bad_items = []
        if diff:
            # not byte-identical: both versions must still compute the declared strings
            for p, _, _, _ in outs:
                code = ("import sys, json\nsys.path.insert(0, %r)\nsys.path.insert(0, %r)\nimport vh.common as C\n"
                        "C.pycode_path = lambda build=True: %r\nfrom vh import eqdrv\n"
                        "res = eqdrv.task(dict(models=%r, table=json.load(open(%r)), rounds=%d))\n"
                        "bad = [it['key'] for r in res for it in r['items'] if it['agree'] != it['points'] or it['notes']]\n"
                        "print('BAD ' + json.dumps(bad))\n" % (REPO, VERIF, p, diff, sc["table_file"], sc["rounds"]))
                r = subprocess.run([PY, "-c", code], stdout=subprocess.PIPE, stderr=subprocess.PIPE, env=clean_env(), timeout=3000)
                got = None
                for line in r.stdout.decode(errors="replace").splitlines():
                    if line.startswith("BAD "):
                        got = json.loads(line[4:])
                if got is None:
                    return dict(meta=dict(tid=sc["tid"], sid=sc["sid"]), ev=[], setup_error="functional comparison failed: " + r.stderr.decode(errors="replace")[-400:])
                if got:
                    functional = False
                    bad_items += got
        return dict(meta=dict(tid=sc["tid"], sid=sc["sid"]),
                    ev=[dict(e="determinism", identical=bool(functional and not missing), md5_matches=bool(md5_ok), n=len(sc["models"]),
                             byte_identical=bool(not diff))],
                    diff=diff[:20], missing=missing[:10], bad_items=bad_items[:10])
    finally:
        shutil.rmtree(d, ignore_errors=True)


def task(sc):
    return determinism(sc) if sc["kind"] == "det" else run_sequence(sc)
