"""
TDS scenario driver and run-time tracer.

``run_scenario(sc)`` builds a real System from a stock case, adds the scenario's timed events,
runs ``TDS.run()`` once per segment under method wrappers and returns the recorded event
stream (raw floats).  ``encode_trace`` turns the floats into ranks / ticks / booleans - the only
representation TLC sees (DESIGN section 3).

The wrappers only *read*.  The fault plan is injected through the library's own
``TDS.callpert`` hook by setting ``TDS.config.tol = -1`` for the planned attempts, which drives
the real Newton loop through its real non-convergence / restore path.
"""
import math
import os

import numpy as np

from .common import load_case, andes_mod

TICK = 1e-7


def _f(x):
    try:
        return float(x)
    except Exception:
        return float(np.asarray(x).ravel()[0])


class Tracer:
    def __init__(self, ss, sc):
        self.ss = ss
        self.sc = sc
        self.ev = []
        self.attempt = 0
        self.fail_plan = set(sc.get("fail", []))
        self.nan_plan = set(sc.get("nan", []))
        self.tol0 = ss.TDS.config.tol
        self.rows = []           # private copies of (t, x, y) at each store
        self.timers = []         # [{id, model, idx, param, tau, en, kind, target}]
        self.targets = []        # [(model, idx, field)]
        self._pre = None
        self._cb_log = None
        self.keep_rows = sc.get("keep_rows", False)

    # ---------------------------------------------------------------- projections
    def status_vector(self):
        """u of every device of every model (+ Fault.uf), as {(model, idx): value}."""
        out = {}
        for name, mdl in self.ss.models.items():
            if mdl.n == 0 or not hasattr(mdl, "u"):
                continue
            uv = np.asarray(mdl.u.v)
            for i, idx in enumerate(mdl.idx.v):
                out[(name, str(idx), "u")] = float(uv[i])
        flt = self.ss.Fault
        for i, idx in enumerate(flt.idx.v):
            out[("Fault", str(idx), "uf")] = float(flt.uf.v[i])
        return out

    def observe_limits(self):
        """At a stored instant: every anti-windup limited state lies within its limits (10*tol), a pegged state has
        zero right-hand side, and the flags of every comparison / anti-windup limiter are one-hot."""
        ss = self.ss
        tol = 10 * float(ss.TDS.config.tol)
        st = self.__dict__.setdefault("_lim", dict(within=True, pegged_zero=True, onehot=True, n_aw=0, active_steps=0, worst=""))
        from andes.core.discrete import AntiWindup, Limiter
        act = False
        for mdl in ss.exist.tds.values():
            if mdl.n == 0:
                continue
            for name, d in mdl.discrete.items():
                if not isinstance(d, Limiter) or not getattr(d, "enable", True):
                    continue
                zu = np.asarray(d.zu) if not d.no_upper else np.zeros(mdl.n)
                zl = np.asarray(d.zl) if not d.no_lower else np.zeros(mdl.n)
                zi = np.asarray(d.zi)
                if len(zi) != mdl.n:
                    continue
                zu = zu if len(zu) == mdl.n else np.zeros(mdl.n)
                zl = zl if len(zl) == mdl.n else np.zeros(mdl.n)
                if not np.all(zu + zl + zi == 1):
                    # lower = upper is a degenerate pair (known finding); anything else is not one-hot
                    lo = np.asarray(d.lower.v) * (d.sign_lower.v if hasattr(d.sign_lower, "v") else 1)
                    hi = np.asarray(d.upper.v) * (d.sign_upper.v if hasattr(d.sign_upper, "v") else 1)
                    if not np.all((zu + zl + zi == 1) | (lo >= hi)):
                        st["onehot"] = False
                        st["worst"] = "%s.%s flags" % (mdl.class_name, name)
                if isinstance(d, AntiWindup):
                    st["n_aw"] += 1
                    x = np.asarray(d.state.v)
                    hi = -np.asarray(d.upper.v) if d.sign_upper.v == -1 else np.asarray(d.upper.v)
                    lo = -np.asarray(d.lower.v) if d.sign_lower.v == -1 else np.asarray(d.lower.v)
                    ok = np.ones(mdl.n, dtype=bool)
                    if not d.no_upper:
                        ok &= x <= hi + tol * (1 + np.abs(hi))
                    if not d.no_lower:
                        ok &= x >= lo - tol * (1 + np.abs(lo))
                    ok |= lo > hi
                    if not np.all(ok):
                        st["within"] = False
                        st["worst"] = "%s.%s state outside limits" % (mdl.class_name, name)
                    peg = zi == 0
                    if np.any(peg):
                        act = True
                        f = np.asarray(ss.dae.f)[np.asarray(d.state.a)[peg]]
                        if not np.all(f == 0):
                            st["pegged_zero"] = False
                            st["worst"] = "%s.%s pegged state with non-zero derivative" % (mdl.class_name, name)
        if act:
            st["active_steps"] += 1

    def alter_values(self):
        """Current value of the field each Alter device points to (None if it cannot be read)."""
        ss = self.ss
        alt = ss.Alter
        out = []
        for i in range(alt.n):
            try:
                mdl = ss.__dict__[alt.model.v[i]]
                out.append(float(mdl.get(src=alt.src.v[i], idx=alt.dev.v[i], attr=alt.attr.v[i])))
            except Exception:
                out.append(None)
        return out

    def alter_check(self, pre, post, eff_ids):
        """
        Effect of Alter devices across one do_switch: an acting Alter changes its field to
        op(v0, amount) exactly once; a non-acting one leaves it alone (unless another acting Alter
        or Toggle addresses the same field - then the pair is skipped).
        """
        ss = self.ss
        alt = ss.Alter
        if alt.n == 0:
            return True
        acting = {tm["pos"] for tm in self.timers if tm["model"] == "Alter" and tm["id"] in eff_ids}
        fields = [(alt.model.v[i], str(alt.dev.v[i]), alt.src.v[i], alt.attr.v[i]) for i in range(alt.n)]
        ok = True
        for i in range(alt.n):
            if pre[i] is None or post[i] is None:
                continue
            same = [j for j in range(alt.n) if fields[j] == fields[i]]
            act_same = [j for j in same if j in acting]
            if not act_same:
                if fields[i][2] == "u":
                    continue          # a Toggle may legitimately change it
                ok = ok and (post[i] == pre[i])
            elif len(act_same) == 1 and act_same[0] == i:
                m = alt.method.v[i]
                a = float(alt.amount.v[i])
                if alt.rand.v[i] == 1:
                    continue
                v0 = pre[i]
                exp = {"+": v0 + a, "-": v0 - a, "*": v0 * a, "/": (v0 / a if a != 0 else None), "=": a}.get(m)
                if exp is not None:
                    ok = ok and (post[i] == exp)
        return bool(ok)

    def collect_timers(self):
        ss = self.ss
        self.timers = []
        for name, mdl in ss.models.items():
            if mdl.n == 0 or not mdl.timer_params:
                continue
            for pname, par in mdl.timer_params.items():
                for i, idx in enumerate(mdl.idx.v):
                    if name == "Toggle":
                        kind = "toggle"
                        tgt_model = mdl.model.v[i]
                        tgt = None
                        # a group name resolves to the model that holds the idx
                        obj = ss.__dict__[tgt_model]
                        if hasattr(obj, "idx2model"):
                            try:
                                tgt_model = obj.idx2model(mdl.dev.v[i]).class_name
                            except Exception:
                                pass
                        tgt = (tgt_model, str(mdl.dev.v[i]), "u")
                    elif name == "Fault":
                        kind = "on" if pname == "tf" else "off"
                        tgt = ("Fault", str(idx), "uf")
                    elif name == "Alter":
                        kind = "alter"
                        tgt = ("Alter", str(idx), "alter")
                    else:
                        kind = "other"
                        tgt = (name, str(idx), "other")
                    self.timers.append(dict(id=len(self.timers) + 1, model=name, idx=str(idx), pos=i, param=pname,
                                            tau=_f(par.v[i]), en=bool(mdl.u.v[i] == 1), kind=kind, target=tgt))
        tg = []
        for tm in self.timers:
            if tm["target"] not in tg:
                tg.append(tm["target"])
        self.targets = tg

    # ---------------------------------------------------------------- wrappers
    def install(self):
        ss = self.ss
        tds = ss.TDS
        dae = ss.dae
        T = self
        andes = andes_mod()

        o_init = tds.init
        o_calc_h = tds.calc_h
        o_itm = tds.itm_step
        o_switch = tds.do_switch
        o_store = dae.store
        o_crit = tds.check_criteria
        o_save = tds.save_output
        o_tsreset = dae.ts.reset

        def w_init():
            was = tds.initialized
            ec0 = ss.exit_code
            r = o_init()
            if not was:
                T.collect_timers()
                T.wrap_callbacks()
                T.ev.append(dict(e="init", t=_f(dae.t), sw=[_f(x) for x in ss.switch_times],
                                 owners=[sorted(ss.switch_dict[k].keys()) for k in ss.switch_times],
                                 test_ok=tds.test_ok, exit_delta=ss.exit_code - ec0,
                                 sw_idx=int(tds._switch_idx), n=int(dae.n), m=int(dae.m),
                                 status={"|".join(tg): v for tg, v in T.status_vector().items() if tg in T.targets}))
            return r

        def w_calc_h(resume=False):
            pre = dict(t=_f(dae.t), dt=_f(tds.deltat), conv=bool(tds.converged), niter=int(tds.niter),
                       idx=int(tds._switch_idx), busted=bool(tds.busted), dmin=_f(tds.deltatmin), dmax=_f(tds.deltatmax))
            r = o_calc_h(resume=resume)
            T.ev.append(dict(e="calc_h", resume=bool(resume), pre=pre, dt=_f(tds.deltat), h=_f(tds.h),
                             idx=int(tds._switch_idx), busted=bool(tds.busted), dmin=_f(tds.deltatmin),
                             dmax=_f(tds.deltatmax), tf=_f(tds.config.tf), tstep=_f(tds.config.tstep),
                             fixt=bool(tds.config.fixt), shrinkt=bool(tds.config.shrinkt),
                             nsw=int(ss.n_switches),
                             nxt=T._next_switch(pre["t"], resume)))
            return r

        def w_itm():
            x0 = np.array(dae.x)
            y0 = np.array(dae.y)
            f0 = np.array(dae.f)
            t = _f(dae.t)
            h = _f(tds.h)
            pegged = []
            r = o_itm()
            restored = bool(np.array_equal(x0, dae.x) and np.array_equal(y0, dae.y) and np.array_equal(f0, dae.f))
            inc_last = abs(_f(tds.mis_inc[-1])) if getattr(tds, "mis_inc", None) else None
            nan_state = bool(np.isnan(dae.x).any() or np.isnan(dae.y).any())
            # the mass matrix the step was taken with (dae.Tf in the residual, TDS.Teye in the iteration matrix) carries the
            # time constants the models have now (they can be altered by an event or between two segments)
            mass_current = True
            if r and dae.n and not np.isnan(np.asarray(dae.Tf, dtype=float)).any():
                Tm = np.ones(dae.n)
                for mdl in ss.exist.pflow_tds.values():
                    if mdl.n == 0:
                        continue
                    for st in mdl.states.values():
                        if st.t_const is not None:
                            Tm[np.asarray(st.a, dtype=int)] = np.asarray(st.t_const.v, dtype=float)
                teye = tds.Teye
                td = np.array([teye[i, i] for i in range(dae.n)]) if teye is not None and teye.size[0] == dae.n else Tm
                mass_current = bool(np.array_equal(np.asarray(dae.Tf, dtype=float), Tm) and np.array_equal(td, Tm))
            # the implicit rule recomputed from the values the step started from and ended with (not from the routine's own residual
            # vector, whose rows are zeroed through the limiters' lists of pegged states): T (x1 - x0) = h (theta f1 + (1 - theta) f0)
            # for every state that no anti-windup limiter reports as pegged now
            rule_resid = None
            if r and h > 0 and dae.n and not nan_state:
                try:
                    theta = 1.0 if tds.method.__class__.__name__.lower().startswith("back") else 0.5
                    x1, f1 = np.array(dae.x), np.array(dae.f)
                    Tf_ = np.asarray(dae.Tf, dtype=float)
                    res = Tf_ * (x1 - x0) - h * (theta * f1 + (1 - theta) * f0)
                    free = np.ones(dae.n, dtype=bool)
                    for mdl in ss.exist.pflow_tds.values():
                        if mdl.n == 0:
                            continue
                        for dsc in mdl.discrete.values():
                            if hasattr(dsc, "x_set") and hasattr(dsc, "state") and hasattr(dsc, "zi"):
                                a_ = np.asarray(dsc.state.a, dtype=int)
                                zi_ = np.asarray(dsc.zi)
                                if len(zi_) == len(a_):
                                    free[a_[zi_ == 0]] = False
                            elif dsc.__class__.__name__ in ("RateLimiter",) and hasattr(dsc, "u"):
                                free[np.asarray(dsc.u.a, dtype=int)] = False
                    scale = np.maximum(1.0, np.maximum(np.abs(Tf_ * x1), h * np.abs(f1)))
                    q = np.abs(res) / scale
                    q[~free] = 0.0
                    q[Tf_ == 0] = 0.0
                    k_ = int(np.argmax(q)) if len(q) else 0
                    rule_resid = [float(q[k_]), str(dae.x_name[k_])] if len(q) else [0.0, ""]
                except Exception:
                    rule_resid = None
            T.ev.append(dict(e="step", t=t, h=h, ret=bool(r), niter=int(tds.niter), conv=bool(tds.converged), mass_current=mass_current, rule_resid=rule_resid,
                             busted=bool(tds.busted), chatter=bool(tds.chatter), restored=restored,
                             inc_last=inc_last, tol=_f(T.tol0), max_iter=int(tds.config.max_iter),
                             nan_state=nan_state, planned_fail=bool(T._planned), last_conv=bool(tds.last_converged),
                             pegged=pegged))
            if T._planned:
                tds.config.tol = T.tol0
            if T._tf_saved is not None:
                dae.Tf[0] = T._tf_saved
                T._tf_saved = None
            return r

        def w_store():
            if T.sc.get("watch_limits"):
                T.observe_limits()
            r = o_store()
            t = _f(dae.t)
            rid = len(T.rows)
            if T.keep_rows:
                T.rows.append((t, np.array(dae.x), np.array(dae.y)))
            else:
                T.rows.append((t,))
            T.ev.append(dict(e="store", t=t, row=rid, mem=len(dae.ts._xs), kcount=int(dae.kcount),
                             save_every=int(tds.config.save_every)))
            return r

        def w_crit():
            r = o_crit()
            T.ev.append(dict(e="criteria", ret=bool(r), t=_f(dae.t)))
            return r

        def w_switch():
            pre = T.status_vector()
            apre = T.alter_values()
            T._cb_log = []
            idx0 = int(tds._switch_idx)
            last0 = _f(tds._last_switch_t)
            r = o_switch()
            post = T.status_vector()
            apost = T.alter_values()
            eff_ids = set()
            for c in T._cb_log:
                eff_ids.update(c["eff"])
            alter_ok = T.alter_check(apre, apost, eff_ids)
            changed = sorted(k for k in post if pre.get(k) != post[k])
            T.ev.append(dict(e="switch", t=_f(dae.t), ret=bool(r), idx0=idx0, idx=int(tds._switch_idx),
                             last_sw=_f(tds._last_switch_t), last0=last0, calls=T._cb_log, changed=[list(c) for c in changed],
                             alter_ok=alter_ok,
                             status={"|".join(tg): post.get(tg) for tg in T.targets if tg in post}))
            T._cb_log = None
            return r

        def w_save(npz=True):
            before = len(dae.ts._xs)
            r = o_save(npz=npz)
            T.ev.append(dict(e="save_output", mem=before, idx_ptr=int(dae.ts.idx_ptr), append=bool(dae._write_append)))
            return r

        def w_tsreset():
            before = len(dae.ts._xs)
            r = o_tsreset()
            T.ev.append(dict(e="ts_reset", mem=before))
            return r

        def callpert(t, system):
            T.attempt += 1
            T._planned = False
            if T.attempt in T.fail_plan:
                tds.config.tol = -1.0
                T._planned = True
            if T.attempt in T.nan_plan and len(dae.Tf) > 0:
                T._tf_saved = float(dae.Tf[0])
                dae.Tf[0] = float("nan")
            T.ev.append(dict(e="top", t=_f(dae.t), h=_f(tds.h), tf=_f(tds.config.tf), attempt=T.attempt,
                             tstep=_f(tds.config.tstep), fixt=bool(tds.config.fixt), kcount=int(dae.kcount)))
            if T.user_pert is not None:
                T.user_pert(t, system)

        self._planned = False
        self._tf_saved = None
        self.user_pert = None
        tds.init = w_init
        tds.calc_h = w_calc_h
        tds.itm_step = w_itm
        tds.do_switch = w_switch
        dae.store = w_store
        tds.check_criteria = w_crit
        tds.save_output = w_save
        dae.ts.reset = w_tsreset
        self._callpert = callpert
        self._orig = dict(init=o_init, calc_h=o_calc_h, itm_step=o_itm, do_switch=o_switch, store=o_store,
                          check_criteria=o_crit, save_output=o_save, ts_reset=o_tsreset)

    def _next_switch(self, t, resume):
        """The switch time the clipping has to respect: the pending entry, or the one after it when the
        pending entry equals the current time (it is applied by do_switch, not stepped to)."""
        ss = self.ss
        j = int(ss.TDS._switch_idx)
        if j < ss.n_switches and (not resume) and _f(ss.switch_times[j]) == t:
            j += 1
        return _f(ss.switch_times[j]) if j < ss.n_switches else None

    def uninstall(self):
        """Remove the wrappers (needed before pickling a system)."""
        tds = self.ss.TDS
        dae = self.ss.dae
        for k in ("init", "calc_h", "itm_step", "do_switch", "check_criteria", "save_output"):
            tds.__dict__.pop(k, None)
        dae.__dict__.pop("store", None)
        dae.ts.__dict__.pop("reset", None)
        tds.callpert = None
        for par, _ in getattr(self, "_wrapped", []):
            if hasattr(par, "_vh_orig"):
                par.callback = par._vh_orig
                del par._vh_orig

    def wrap_callbacks(self):
        T = self
        self._wrapped = []
        by = {}
        for tm in self.timers:
            by.setdefault((tm["model"], tm["param"]), []).append(tm)
        for (mname, pname), tms in by.items():
            mdl = self.ss.models[mname]
            par = mdl.timer_params[pname]
            if par.callback is None or hasattr(par, "_vh_orig"):
                continue
            orig = par.callback
            par._vh_orig = orig

            def make(orig, tms, mdl, par):
                def cb(is_time):
                    it = np.asarray(is_time).astype(bool).ravel()
                    u = np.asarray(mdl.u.v).ravel()
                    act = orig(is_time)
                    if T._cb_log is not None:
                        T._cb_log.append(dict(model=tms[0]["model"], param=tms[0]["param"],
                                              true=[tm["id"] for tm in tms if tm["pos"] < len(it) and it[tm["pos"]]],
                                              eff=[tm["id"] for tm in tms if tm["pos"] < len(it) and it[tm["pos"]]
                                                   and u[tm["pos"]] == 1],
                                              acted=bool(act)))
                    return act
                return cb
            par.callback = make(orig, tms, mdl, par)
            self._wrapped.append((par, orig))

    # ---------------------------------------------------------------- run
    def run_segment(self, tf, seg):
        ss = self.ss
        tds = ss.TDS
        tds.config.tf = tf
        tds.callpert = self._callpert
        ec0 = ss.exit_code
        self.ev.append(dict(e="run_begin", seg=seg, tf=_f(tf), t=_f(ss.dae.t), resume=bool(ss.dae.t >= 0),
                            fixt=bool(tds.config.fixt), shrinkt=bool(tds.config.shrinkt), tstep=_f(tds.config.tstep),
                            save_every=int(tds.config.save_every)))
        raised = None
        ret = None
        try:
            ret = tds.run(no_summary=True)
        except Exception as ex:   # a raise is an observation
            raised = "%s: %s" % (type(ex).__name__, ex)
        # the callback may have left tol at -1 if the run ended inside a planned failure
        tds.config.tol = self.tol0
        dae = ss.dae
        # stability criterion re-evaluated from the stored trajectory, independently of the addresses the routine keeps: the rotor
        # angles of the in-service synchronous machines of a network in one piece must never be ddelta_limit apart at a stored
        # step of a run that goes on (a run stopped by the criterion stores the offending step last)
        unstable = False
        try:
            if int(tds.config.criteria) == 1 and len(ss.Bus.island_sets) <= 1 and len(dae.ts._xs) > 1:
                addr = []
                for mdl in ss.SynGen.models.values():
                    for k in range(mdl.n):
                        if mdl.u.v[k] == 1 and not (ss.Bus.idx2uid(mdl.bus.v[k]) in list(ss.Bus.islanded_buses)):
                            addr.append(int(mdl.delta.a[k]))
                if len(addr) >= 2:
                    xs = np.asarray(dae.ts.x)[:, addr]
                    spread = xs.max(axis=1) - xs.min(axis=1)
                    rows = spread[:-1] if not ret else spread
                    unstable = bool(np.any(rows >= np.deg2rad(float(tds.config.ddelta_limit))))
        except Exception:
            unstable = False
        self.ev.append(dict(e="run_end", seg=seg, ret=(bool(ret) if ret is not None else None), raised=raised, unstable=unstable,
                            t=_f(dae.t), tf=_f(tds.config.tf), h=_f(tds.h), busted=bool(tds.busted),
                            exit_delta=int(ss.exit_code - ec0),
                            nan_state=bool(np.isnan(dae.x).any() or np.isnan(dae.y).any()),
                            mem=len(dae.ts._xs), ts_t=[_f(x) for x in np.asarray(dae.ts.t).ravel()][:5000],
                            status={"|".join(tg): v for tg, v in self.status_vector().items() if tg in self.targets}))
        return ret


def build_system(sc):
    """Load the case, neutralise its own timed events, add the scenario's, set the configuration."""
    ss = load_case(sc["case"], setup=False, **sc.get("load_kw", {}))
    if sc.get("drop_stock_events", True):
        for name in ("Toggle", "Fault", "Alter"):
            mdl = ss.models[name]
            for i in range(mdl.n):
                mdl.u.v[i] = 0
                for par in mdl.timer_params.values():
                    par.v[i] = -1.0
    for evd in sc.get("events", []):
        d = dict(evd)
        model = d.pop("add")
        ss.add(model, d)
    for od in sc.get("output", []):
        ss.add("Output", dict(od))
    ss.setup()
    cfg = ss.TDS.config
    for k, v in sc.get("tds", {}).items():
        setattr(cfg, k, v)
    for k, v in sc.get("sysconf", {}).items():
        setattr(ss.config, k, v)
    return ss


build_system_with_output = build_system


def run_scenario(sc):
    """Worker entry: returns {"sid", "events", "timers", "targets", "pflow"}."""
    ss = build_system(sc)
    pf = ss.PFlow.run()
    tr = Tracer(ss, sc)
    tr.install()
    if sc.get("explicit_init"):
        # the user initialises first (to look at the initial values) and runs afterwards
        ss.TDS.config.tf = sc["segs"][0]
        ss.TDS.init()
    for k, tf in enumerate(sc["segs"]):
        tr.run_segment(tf, k + 1)
        if sc.get("snapshot") and k + 1 < len(sc["segs"]):
            ss = _snapshot_roundtrip(tr, sc)
    if sc.get("watch_limits"):
        st = tr.__dict__.get("_lim", dict(within=True, pegged_zero=True, onehot=True, n_aw=0, active_steps=0, worst=""))
        tr.ev.append(dict(e="limits", **st))
    if sc.get("compare_single") and len(sc["segs"]) >= 1:
        tr.ev.append(_compare_single(sc, tr, ss))
    out = dict(sid=sc.get("sid"), pflow=bool(pf), events=tr.ev, timers=tr.timers,
               targets=["|".join(t) for t in tr.targets])
    if sc.get("want_final"):
        out["final_x"] = ss.dae.x.tolist()
        out["final_y"] = ss.dae.y.tolist()
        out["ts_t"] = [float(v) for v in ss.dae.ts.t]
    return out


def _fired_set(events):
    out = set()
    for e in events:
        if e["e"] == "switch":
            for c in e["calls"]:
                for i in c["eff"]:
                    out.add((i, e["t"]))
    return out


def _compare_single(sc, tr, ss):
    """Run the same scenario uninterrupted (one segment, no snapshot) and compare (C14)."""
    sc1 = dict(sc)
    sc1["segs"] = [sc["segs"][-1]]
    sc1["snapshot"] = False
    sc1["compare_single"] = False
    ss1 = build_system(sc1)
    ss1.PFlow.run()
    tr1 = Tracer(ss1, sc1)
    tr1.install()
    ret1 = tr1.run_segment(sc1["segs"][0], 1)
    ret = [e for e in tr.ev if e["e"] == "run_end"][-1]["ret"]
    tol = float(ss.TDS.config.tol)
    k = float(sc.get("equiv_factor", 10.0))
    both = bool(ret) and bool(ret1)
    if both and len(ss.dae.x) == len(ss1.dae.x) and len(ss.dae.y) == len(ss1.dae.y):
        dx = np.abs(ss.dae.x - ss1.dae.x) / (1 + np.abs(ss1.dae.x))
        dy = np.abs(ss.dae.y - ss1.dae.y) / (1 + np.abs(ss1.dae.y))
        dmax = float(max(dx.max() if len(dx) else 0.0, dy.max() if len(dy) else 0.0))
        close = bool(dmax <= k * tol)
    else:
        dmax = -1.0
        close = not both
    ts_s = [float(v) for v in ss.dae.ts.t]
    ts_1 = [float(v) for v in ss1.dae.ts.t]
    # rows present in both runs (same time stamp): where the grids coincide the values must agree too
    f_s, f_1 = _fired_set(tr.ev), _fired_set(tr1.ev)
    st_s = {t: v for t, v in tr.status_vector().items() if t in tr.targets}
    st_1 = {t: v for t, v in tr1.status_vector().items() if t in tr1.targets}
    evt = sorted({tm["tau"] for tm in tr.timers if tm["en"] and 0 <= tm["tau"] <= sc["segs"][-1]})
    axis_has_events = all((t in ts_s) for t in evt) if (both and int(ss.TDS.config.save_every) == 1) else True
    return dict(e="compare", both_ok=both, ret_single=bool(ret1), ret_split=bool(ret), final_close=close, dmax=dmax,
                fired_same=bool(f_s == f_1) if both else True, status_same=bool(st_s == st_1) if both else True,
                axis_has_events=bool(axis_has_events), n_split=len(ts_s), n_single=len(ts_1),
                same_success=bool(bool(ret) == bool(ret1)))


def _snapshot_roundtrip(tr, sc):
    """save_ss -> load_ss between segments (same process; the fresh-process variant lives in c14)."""
    import io
    from andes.utils.snapshot import save_ss, load_ss
    from .common import scratch_dir
    import shutil
    old = tr.ss
    tr.uninstall()
    d = scratch_dir("snap")
    try:
        p = os.path.join(d, "s.pkl")
        save_ss(p, old)
        new = load_ss(p)
    finally:
        shutil.rmtree(d, ignore_errors=True)
    tr.ss = new
    tr.install()
    tr.collect_timers()
    tr.wrap_callbacks()
    return new


# ------------------------------------------------------------------------------------------
# encoding for TLC
# ------------------------------------------------------------------------------------------

def _tick(x):
    if x is None or (isinstance(x, float) and (math.isnan(x) or math.isinf(x))):
        return 0
    v = int(round(x / TICK))
    return max(min(v, 2_000_000_000), -2_000_000_000)


def encode_trace(res, tid, sc):
    """
    Ranks: every time-like float of the run is replaced by its rank in the sorted set of all
    distinct time-like floats of that run, so that every float comparison the code makes is
    reproduced exactly by integer comparison.  Arithmetic laws use 1e-7 s ticks with tolerance.
    """
    evs = res["events"]
    times = set()

    def add(x):
        if x is not None and not (isinstance(x, float) and math.isnan(x)):
            times.add(float(x))

    add(0.0)
    for tm in res["timers"]:
        add(tm["tau"])
    for e in evs:
        for k in ("t", "tf", "last_sw", "last0", "nxt"):
            if k in e:
                add(e[k])
        if e["e"] == "init":
            for s in e["sw"]:
                add(s)
        if e["e"] == "calc_h":
            add(e["pre"]["t"])
    order = sorted(times)
    rank = {v: i + 1 for i, v in enumerate(order)}

    def R(x):
        if x is None or (isinstance(x, float) and math.isnan(x)):
            return 0
        return rank[float(x)]

    _rej_from = [None]
    tgt_id = {t: i + 1 for i, t in enumerate(res["targets"])}
    timers = []
    for tm in res["timers"]:
        timers.append(dict(id=tm["id"], tau=R(tm["tau"]), en=tm["en"], kind=tm["kind"],
                           nonneg=bool(tm["tau"] >= 0), target=tgt_id["|".join(tm["target"])],
                           model=tm["model"]))
    out = []
    for e in evs:
        k = e["e"]
        if k == "run_begin":
            out.append(dict(e=k, seg=e["seg"], tf=R(e["tf"]), t=R(e["t"]), resume=e["resume"], fixt=e["fixt"],
                            shrinkt=e["shrinkt"], save_every=e["save_every"]))
        elif k == "init":
            status = [int(round(e["status"].get(t, -1))) if e["status"].get(t) is not None else -1
                      for t in res["targets"]]
            out.append(dict(e=k, t=R(e["t"]), sw=[R(s) for s in e["sw"]], sw_idx=e["sw_idx"], status=status,
                            test_ok=(e["test_ok"] is True), exit_delta=e["exit_delta"],
                            sw_tick=[_tick(s) for s in e["sw"]], owners=e["owners"]))
        elif k == "top":
            h = e["h"]
            out.append(dict(e=k, t=R(e["t"]), hsign=(0 if h == 0 else (1 if h > 0 else -1)),
                            h_le_tstep=bool(h <= e["tstep"] * (1 + 1e-12)), t_le_tf=bool(e["t"] <= e["tf"]),
                            loop_cond=bool(e["t"] - h < e["tf"]), fixt=e["fixt"], attempt=e["attempt"],
                            kcount=e["kcount"], h_tick=_tick(h)))
        elif k == "step":
            # a rejected step gives the time back: the next step-size calculation starts from the time the attempt started from
            _rej_from[0] = (e["t"] - e["h"]) if not e["ret"] else None
            inc_ok = (e["inc_last"] is not None) and (e["inc_last"] <= e["tol"])
            cls = 1 if e["niter"] <= 6 else (3 if e["niter"] >= 15 else 2)
            out.append(dict(e=k, t=R(e["t"]), hsign=(0 if e["h"] == 0 else (1 if e["h"] > 0 else -1)),
                            ret=e["ret"], niter=min(e["niter"], 1000), cls=cls, conv=e["conv"], busted=e["busted"],
                            chatter=e["chatter"], restored=e["restored"], inc_ok=bool(inc_ok or e["chatter"]),
                            rule_ok=bool(e.get("rule_resid") is None or e["chatter"] or e["rule_resid"][0] <= 50 * max(e["tol"], 1e-6)),
                            niter_le_max=bool(e["niter"] <= e["max_iter"] + 1), nan_state=e["nan_state"],
                            planned_fail=e["planned_fail"], last_conv=e["last_conv"], mass_current=e.get("mass_current", True)))
        elif k == "store":
            out.append(dict(e=k, t=R(e["t"]), row=e["row"], mem=e["mem"], kcount=e["kcount"]))
        elif k == "criteria":
            out.append(dict(e=k, ret=e["ret"]))
        elif k == "switch":
            calls = []
            for c in e["calls"]:
                calls.append(dict(true=c["true"], eff=c["eff"], acted=c["acted"]))
            changed = sorted({tgt_id.get("|".join(c), 0) for c in e["changed"]})
            status = [int(round(e["status"].get(t, -1))) if e["status"].get(t) is not None else -1
                      for t in res["targets"]]
            out.append(dict(e=k, t=R(e["t"]), ret=e["ret"], idx0=e["idx0"], idx=e["idx"], last_sw=R(e["last_sw"]),
                            calls=calls, changed=changed, status=status, alter_ok=e.get("alter_ok", True)))
        elif k == "calc_h":
            p = e["pre"]
            out.append(dict(e=k, resume=e["resume"], t=R(p["t"]), conv=p["conv"], niter=min(p["niter"], 1000),
                            idx0=p["idx"], idx=e["idx"], busted0=p["busted"], busted=e["busted"],
                            dt0=_tick(p["dt"]), dt=_tick(e["dt"]), h=_tick(e["h"]), dmin=_tick(e["dmin"]),
                            dmax=_tick(e["dmax"]), dmin0=_tick(p["dmin"]), dmax0=_tick(p["dmax"]),
                            tstep=_tick(e["tstep"]), fixt=e["fixt"], shrinkt=e["shrinkt"],
                            rem=_tick(e["tf"] - p["t"]), hsign=(0 if e["h"] == 0 else (1 if e["h"] > 0 else -1)),
                            has_next=(e["nxt"] is not None), nxt=R(e["nxt"]),
                            gap=_tick((e["nxt"] - p["t"]) if e["nxt"] is not None else 0.0),
                            nxt_eq_t=bool(e["nxt"] is not None and e["nxt"] == p["t"]),
                            lands_on_next=bool(e["nxt"] is not None and p["t"] + e["h"] == e["nxt"]),
                            passes_next=bool(e["nxt"] is not None and p["t"] + e["h"] > e["nxt"]),
                            first=bool(p["t"] == 0 and p["niter"] == 0),
                            reject_keeps_time=bool(_rej_from[0] is None or e["resume"] or p["t"] == _rej_from[0]),
                            # the configured fixed step is the step in use: at the start of a run or segment, and after a step that
                            # converged in a few iterations when the step was already (nearly) the configured one
                            fixed_is_configured=bool(
                                not e["fixt"] or e["busted"] or e["tstep"] <= 0 or
                                not ((p["t"] == 0 and p["niter"] == 0) or e["resume"] or
                                     (p["conv"] and p["niter"] <= 6 and p["dt"] * 1.1 >= e["tstep"])) or
                                e["dt"] == e["tstep"])))
        elif k == "run_end":
            status = [int(round(e["status"].get(t, -1))) if e["status"].get(t) is not None else -1
                      for t in res["targets"]]
            ts = e["ts_t"]
            mono = all(ts[i] < ts[i + 1] for i in range(len(ts) - 1))
            out.append(dict(e=k, seg=e["seg"], ret=(e["ret"] is True), raised=(e["raised"] is not None), t=R(e["t"]),
                            tf=R(e["tf"]), t_eq_tf=bool(e["t"] == e["tf"]), busted=e["busted"],
                            exit_delta=e["exit_delta"], nan_state=e["nan_state"], mem=e["mem"], ts_mono=bool(mono), unstable=bool(e.get("unstable", False)),
                            status=status))
        elif k == "limits":
            out.append(dict(e=k, within=e["within"], pegged_zero=e["pegged_zero"], onehot=e["onehot"],
                            active_steps=e["active_steps"]))
        elif k == "compare":
            out.append(dict(e=k, both_ok=e["both_ok"], final_close=e["final_close"], fired_same=e["fired_same"],
                            status_same=e["status_same"], axis_has_events=e["axis_has_events"],
                            same_success=e["same_success"], dmax_ppm=int(min(max(e["dmax"], 0) * 1e6, 2e9))))
        elif k == "files":
            out.append(dict(e=k, n_expected=e["n_expected"], n_file=e["n_file"], limit_store=e["limit_store"],
                            mem_equal=e["mem_equal"], files_exist=e["files_exist"], npz_equal=e["npz_equal"],
                            labels_ok=e["labels_ok"], plotter_ok=e["plotter_ok"], csv_ok=e["csv_ok"],
                            query_ok=e["query_ok"], replay_ok=e["replay_ok"], memplot_ok=e.get("memplot_ok", True)))
        elif k in ("save_output", "ts_reset"):
            out.append(dict(e=k, mem=e["mem"], idx_ptr=e.get("idx_ptr", 0), append=e.get("append", False)))
    meta = dict(tid=tid, sid=sc.get("sid"), ntargets=len(res["targets"]), timers=timers, pflow=res["pflow"],
                rank0=R(0.0), nranks=len(order), init_status=sc.get("init_status", 1))
    return dict(meta=meta, ev=out)
