"""The table of registered checks (bin/mkmanifest turns it into MANIFEST.json)."""

TLC = "TLA+ spec model-checked by TLC"
TRUSTED = ("Trusted base: TLC 1.8 and the CommunityModules Json/IOUtils overrides; the projection functions of the "
           "run-time tracer (vh/tdsdrv.py: ranks of floats, booleans computed on floats); Python drives and records only. ")

ENGINES = [
    {"name": "tdsloop", "path": "spec/TDSLoop.tla spec/TDSLaws.tla spec/Trace_TDSLoop.tla spec/MC_TDSLoop*.cfg spec/Scen_*.tla spec/Trace_TimeSeries.tla vh/tdsdrv.py vh/tdsfam.py vh/tsdrv.py",
     "serves_properties": ["C04", "C06", "C14", "C15", "C17"],
     "kind_free_text": "explicit TLA+ model of the TDS time-stepping loop, exhaustively checked by TLC; scenarios enumerated by TLC are "
                       "replayed into the real code under a run-time tracer and the recorded traces are validated by TLC"},
    {"name": "itmrule", "path": "spec/ITMRule.tla spec/Rat.tla vh/itm_lattice.py", "serves_properties": ["C04"],
     "kind_free_text": "integration rules over exact rationals in TLA+, lattice enumerated by TLC, evaluated on the library's real step code"},
    {"name": "storage", "path": "spec/Storage.tla spec/Scen_Storage.tla vh/storedrv.py", "serves_properties": ["C15"],
     "kind_free_text": "TLA+ model of the time-series storage and npz off-loading; configuration product enumerated by TLC and run on the real code"},
    {"name": "addressing", "path": "spec/Addressing.tla spec/Trace_Addressing.tla vh/addrdrv.py vh/netbuild.py", "serves_properties": ["C10"],
     "kind_free_text": "TLA+ model of slot allocation; address tables of real Systems validated by TLC"},
    {"name": "codegen", "path": "spec/Codegen.tla spec/Scen_Codegen.tla spec/Trace_Codegen.tla spec/EqBinding.tla spec/CodegenConc.tla spec/MC_CodegenConc.tla vh/codegendrv.py vh/codegen_step.py vh/eqdrv.py",
     "serves_properties": ["C02"],
     "kind_free_text": "TLA+ model of the generated-code staleness protocol, sequences replayed on a scratch pycode directory; declared "
                       "equation strings evaluated independently against the executed generated functions on a TLC-enumerated lattice"},
    {"name": "build", "path": "spec/Build.tla spec/Trace_Build.tla spec/Scen_Build.tla vh/builddrv.py", "serves_properties": ["C19"],
     "kind_free_text": "TLA+ model of device registration; add sequences enumerated by TLC, executed on real Systems, validated by TLC"},
    {"name": "perunit", "path": "spec/PerUnitK.tla spec/PerUnit.tla spec/Scen_PerUnit.tla spec/Trace_PerUnit.tla vh/pudrv.py", "serves_properties": ["C11"],
     "kind_free_text": "exact-rational per-unit factors in TLA+; alter/set/reset state machine; sequences replayed on real Systems"},
    {"name": "config", "path": "spec/Config.tla spec/Scen_Config.tla spec/Trace_Config.tla vh/confdrv.py", "serves_properties": ["C20"],
     "kind_free_text": "TLA+ model of configuration channel precedence; channel combinations replayed on real Systems"},
    {"name": "solvercache", "path": "spec/SolverCache.tla spec/Scen_Solver.tla spec/Trace_SolverCache.tla vh/solverdrv.py", "serves_properties": ["C16"],
     "kind_free_text": "TLA+ model of the sparse-solver wrappers' caching protocol; call sequences replayed on the real wrappers"},
    {"name": "discrete", "path": "spec/Discrete.tla spec/Scen_Discrete.tla spec/ShuntSw.tla spec/MC_ShuntSw.tla spec/Scen_ShuntSw.tla vh/discdrv.py", "serves_properties": ["C09"],
     "kind_free_text": "definitions of discrete components in TLA+; lattices and histories enumerated by TLC with prescribed outputs"},
    {"name": "eigreduce", "path": "spec/EigReduce.tla spec/Trace_Eig.tla spec/Rat.tla vh/eigdrv.py", "serves_properties": ["C08"],
     "kind_free_text": "exact rational reduction and characteristic polynomials in TLA+, evaluated on the real EIG routines"},
    {"name": "blocks", "path": "spec/Blocks.tla spec/Rat.tla vh/blockdrv.py", "serves_properties": ["C18"],
     "kind_free_text": "documented block transfer functions in TLA+ over exact rationals, verified on extracted realisations"},
    {"name": "acnetwork", "path": "spec/ACNetwork.tla spec/Scen_ACNetwork.tla spec/NewtonPF.tla spec/Trace_PF.tla vh/acdrv.py vh/pfdrv.py vh/aclattice.py vh/ybus.py vh/jacdrv.py vh/srcread.py",
     "serves_properties": ["C01", "C03"], "kind_free_text": "exact power balance and Jacobian in TLA+ on a lattice; Newton loop model"},
    {"name": "inithandover", "path": "spec/InitHandover.tla spec/Scen_InitHandover.tla spec/Trace_Init.tla vh/initdrv.py", "serves_properties": ["C05"],
     "kind_free_text": "TLA+ model of the PF -> dynamics hand-over; scenarios and stock cases initialised and validated by TLC"},
    {"name": "caseio", "path": "spec/CaseIO.tla spec/Trace_CaseIO.tla vh/iodrv.py vh/srcread.py", "serves_properties": ["C13"],
     "kind_free_text": "TLA+ model of value normalisation across formats; round trips of real cases validated by TLC"},
    {"name": "connectivity", "path": "spec/Connectivity.tla spec/Trace_Connectivity.tla spec/Scen_Connectivity.tla vh/conndrv.py vh/netbuild.py",
     "serves_properties": ["C12"], "kind_free_text": "graph definitions in TLA+ evaluated by TLC on logged graphs of real Systems; ConnMan model-checked"},
    {"name": "lifecycle", "path": "spec/Lifecycle.tla spec/Trace_Lifecycle.tla spec/Scen_Lifecycle.tla vh/lifecycle.py vh/infeasible.py",
     "serves_properties": ["C17", "C14"],
     "kind_free_text": "TLA+ model of routine gating / success flags / exit code; TLC-enumerated operation sequences run on real Systems, "
                       "records validated by TLC"},
]

CHECKS = {
    "C04": dict(
        engine="tdsloop+itmrule", design_ref="DESIGN.md 4 (C04), 2.4",
        technique="TLC model checking of TDSLoop + TLC-enumerated exact-rational lattice of ITMRule evaluated on ImplicitIter.step + "
                  "TLC trace validation of runs with injected Newton failures",
        text="TLC explores the step-size controller / reject / busted logic exhaustively within small constants; the implicit rule and "
             "the iteration matrix are stated over exact rationals in TLA+ and the library's real step code is evaluated on the complete "
             "multilinear lattice TLC enumerates; every attempt of real runs with injected failures is validated by TLC against the "
             "C04 clauses (reject restores state bit-exactly, accepted step within tol, step bounds).",
        note=TRUSTED + "Lattice completeness assumes calc_q / Ac entries are multilinear in their arguments. Order-of-convergence "
                       "clause (numeric accuracy) is not decided."),
    "C06": dict(
        engine="tdsloop", design_ref="DESIGN.md 4 (C06), 3",
        technique="TLC exhaustive model checking of TDSLoop (event scheduler, clipping, switch pointer) + replay of TLC-enumerated "
                  "schedules into the real code + TLC trace validation with exact float ranks",
        text="The faithful model of the loop (one action per call site) is checked for ExactlyOnce / NoStepCrossesSwitch / "
             "StoredIncreasing / SuccessIffAtTf over all schedules within the constants; the same schedule space (plus Fault / "
             "Alter / refresh_event spaces, seeded float schedules, schedules beyond 10 s and stock cases) is run on the real code and "
             "every recorded trace is validated by TLC with the property formulas evaluated at every step; time-series updates: "
             "TLC-enumerated sets of stamps (at t0, on and off the grid, 1 ms apart, at a segment boundary, at and beyond tf, beyond "
             "10 s) x step size x segmentation are run with a data file and TLC checks that each row takes effect exactly at its stamp, "
             "on the addressed device only, with a step ending at the stamp.",
        note=TRUSTED + "Newton outcomes are abstracted to classes in the model; 1 model unit = 1e-5 s on replay; quick tier replays a "
                       "seeded sample of the TLC-enumerated space (thorough: up to 4000)."),
    "C10": dict(
        engine="addressing", design_ref="DESIGN.md 4 (C10)",
        technique="TLC model checking of Addressing (block allocation, two rounds) + generated and stock Systems observed after "
                  "both addressing phases + TLC trace validation of the address tables",
        text="The allocation design is model-checked for bijection and for the second round keeping the first; address tables of "
             "generated systems (shuffled device orders, int/str/auto idx, zero-based bus idx, collated storage, optional "
             "remote-bus fields) and of stock cases are recorded after set-up and after TDS.init and TLC evaluates bijection, "
             "continuity, 'external variables and parameters resolve to the device named by the index field', slot names and the "
             "agreement of model / group / global views on them.",
        note=TRUSTED.replace("vh/tdsdrv.py: ranks of floats, booleans computed on floats", "vh/addrdrv.py: address lists, expected parent addresses resolved through the group registry")
             + "Slot names are compared with the '<var> <Model> <idx>' convention. Output-selection sub-indices are C15's."),
    "C12": dict(
        engine="connectivity", design_ref="DESIGN.md 4 (C12)",
        technique="TLC model checking of ConnMan + TLC-enumerated graphs (all K3, K4 branch patterns) built as real Systems + "
                  "TLC trace validation against graph-theoretic definitions evaluated in TLA+",
        text="Connected components / isolated buses / slack classification are defined in TLA+ independently of the "
             "implementation's sparse-matrix iteration; every graph on 3 and 4 buses (branch absent / in / out of service) x slack "
             "placement x bus-off set is built as a real System and TLC evaluates the definitions on the logged graph against what "
             "connectivity(), the power flow and ConnMan report.",
        note=TRUSTED.replace("vh/tdsdrv.py: ranks of floats, booleans computed on floats", "vh/conndrv.py: bus positions, edge lists, device statuses")
             + "Graphs with 5-6 buses are a seeded random sample; quick tier samples 260 of the 729 K4 patterns. Islands after "
               "switching events during simulation are only covered through C06's stock-case traces."),
    "C14": dict(
        engine="tdsloop+lifecycle", design_ref="DESIGN.md 4 (C14)",
        technique="TLC model checking of segmented runs (RunResume) + TLC trace validation of split / snapshot-restored runs "
                  "against their uninterrupted twin + Lifecycle reset sequences",
        text="Segmentation independence of fired events and final status is an invariant of TDSLoop at every 'done' state; split "
             "scenarios (before / at / after events, three segments, save_ss/load_ss) are run next to the uninterrupted run and "
             "validated by TLC; reset + power flow reproduces the first solution (Trace_Lifecycle).",
        note=TRUSTED + "'Equal up to discretisation error' is read as: same fired events/final status, strictly increasing axis with "
                       "every event time, final state within 10*tol relative. Fresh-process snapshot restore only in thorough tier."),
    "C15": dict(
        engine="storage+tdsloop", design_ref="DESIGN.md 4 (C15)",
        technique="TLC model checking of Storage (off-load / append / resume) and TDSLoop thinning + TLC-enumerated configuration "
                  "product run on the real code with bit-for-bit row identity + TLC trace validation",
        text="Storage.tla is checked for 'the file holds exactly the kept rows, in order, once each' over every save_every / "
             "limit_store / max_store / output / segmentation within the constants; the same product x output selections is run "
             "on the real code with file output, the DAE.store wrapper's private copies are compared bit-for-bit with memory, "
             "npz/lst, plot loader, csv export, device queries and a csv replay, and TLC validates every trace.",
        note=TRUSTED + "Row identity = arrays copied at the moment of storing. Csv replay compared at 1e-10 (pandas' parser). "
                       "streaming (DiME) is not exercised."),
    "C17": dict(
        engine="lifecycle+tdsloop", design_ref="DESIGN.md 4 (C17)",
        technique="TLC model checking of Lifecycle (gating / flags / exit code) and TDSLoop exits + TLC-enumerated routine sequences and "
                  "infeasible inputs run on the real code + TLC trace validation",
        text="All routine sequences up to MaxOps are explored in the Lifecycle model (refusals, exit code, no raise); the same "
             "sequences are executed on real Systems with feasible and infeasible inputs, TDS failure exits are provoked through "
             "callpert, and every record is validated by TLC; a worker process killed by a signal counts as a violation.",
        note=TRUSTED + "An exception escaping andes.run for an unparsable file is read as 'reported' (non-zero process exit); "
                       "a later successful re-run of the same routine may reset the exit code (only a failed set-up must persist)."),
}

CHECKS["C11"] = dict(
    engine="perunit", design_ref="DESIGN.md 4 (C11), 2.4",
    technique="TLC: exact-rational conversion factors (PerUnitK) evaluated for the bases observed in stock cases + model checking of "
              "the vin/v/Tf state machine + TLC-enumerated alter/set/reset sequences on real Systems with TLC trace validation",
    text="The textbook factors are defined over exact rationals in TLA+ (identities checked as ASSUMEs); for every flagged parameter "
         "of every device in the observed stock cases TLC computes the exact factor for the device's bases and the library's "
         "pu_coeff and v = vin*k are compared; alter(v|vin)/set/group-alter/reset sequences at three lifecycle points are run on real "
         "Systems and TLC validates both bases, dae.Tf/Teye propagation, untouched neighbours, reset and what json/xlsx export writes.",
    note=TRUSTED.replace("vh/tdsdrv.py: ranks of floats, booleans computed on floats", "vh/pudrv.py: bases read from the data, closeness predicates at 1e-12 relative")
         + "DC quantities (dc_voltage, dc_current, r, g) are not covered. Bases that are not small rationals are skipped and counted.")

CHECKS["C19"] = dict(
    engine="build", design_ref="DESIGN.md 4 (C19)",
    technique="TLC model checking of Build (registry / automatic idx) + TLC-enumerated add sequences executed on real Systems + "
              "TLC trace validation of registry, lookups, back-references, helper devices, dangling references",
    text="The idx allocation design is model-checked (unique within group, explicit free idx kept, fresh automatic idx even when "
         "users supply idx values that look automatic); every add sequence of length <= 3 over the two models of a group x referrer / "
         "dangling / helper patterns is executed on a real System and TLC evaluates uniqueness, lookup exactness across the models "
         "of the group, exact back-reference lists, helper devices created at most once and linked to the right target, and that a "
         "dangling reference fails set-up.",
    note=TRUSTED.replace("vh/tdsdrv.py: ranks of floats, booleans computed on floats", "vh/builddrv.py: typed-string idx values, device tables")
         + "Groups exercised: StaticGen (PV/Slack), SynGen referrers, FreqMeasurement helpers; other groups share the same GroupBase code.")

CHECKS["C20"] = dict(
    engine="config", design_ref="DESIGN.md 4 (C20)",
    technique="TLC model checking of Config (constructor channel order) + TLC-enumerated channel combinations applied to every "
              "configurable field of real Systems + TLC trace validation",
    text="The order in which the constructors apply rc file, options, dictionary and defaults is model-checked for "
         "'effective = dictionary > option > file > default' and rejection of values outside the alternatives; the field list is "
         "read from the running code (~400 fields of System, routines, models) and every channel combination is applied to a real "
         "System, with per-field singles, out-of-alternative values, malformed option strings, several options per section, and "
         "save_config/load round trips (also after run-time edits); TLC validates every record.",
    note=TRUSTED.replace("vh/tdsdrv.py: ranks of floats, booleans computed on floats", "vh/confdrv.py: typed-string values read back from the config objects")
         + "Fields with host side effects (numba, dime, seed, numpy error state, plotting/report switches) are excluded; free-form "
           "string fields keep their default.")

CHECKS["C16"] = dict(
    engine="solvercache", design_ref="DESIGN.md 4 (C16)",
    technique="TLC model checking of SolverCache for the three back-ends + TLC-enumerated call sequences on the real wrappers with "
              "exactly solvable matrices + configuration-product runs, all validated by TLC",
    text="The caching protocol of each wrapper (symbolic factor / LU, refresh flags, one-shot entry, singular handling) is "
         "model-checked for 'every call documented to factorise solves the matrix it was given' and 'a singular matrix is "
         "signalled by NaN'; all call sequences of length 2 (3 in thorough) over same-pattern / new-pattern / singular matrices are "
         "executed on the real wrappers in worker processes and validated by TLC; PFlow/TDS/EIG results are compared across "
         "{klu, umfpack, spsolve} x linsolve x ipadd x Newton variant and a fresh-process repetition must be bit-identical.",
    note=TRUSTED.replace("vh/tdsdrv.py: ranks of floats, booleans computed on floats", "vh/solverdrv.py: result classes by comparison with exact solutions")
         + "'Solver precision' is read as the routine tolerance. numba JIT is not exercised. EIG with the SciPy back-end "
           "was a finding and is repaired (fix 2069be8).")

CHECKS["C09"] = dict(
    engine="discrete", design_ref="DESIGN.md 4 (C09)",
    technique="documented semantics as TLA+ definitions with lattice-wide ASSUMEs; TLC enumerates complete input lattices and "
              "time-stamp histories with prescribed outputs, replayed on the real classes; TLC trace validation of limiters in runs",
    text="Discrete.tla defines what each component must return (limiter flags with sign / inclusive / one-sided variants, "
         "anti-windup clamping, comparators, switch, selector, step delay, trapezoidal average, backward difference with repeated "
         "and rewound time stamps, sample-and-hold) and TLC checks one-hot and in-range clauses over the whole lattice; every "
         "enumerated input / history (exhaustive within the bounds) is replayed on stand-alone instances of the real classes; in "
         "simulations with active limiters every stored instant is validated by TLC (inside limits, zero derivative when pegged).",
    note=TRUSTED.replace("vh/tdsdrv.py: ranks of floats, booleans computed on floats", "vh/discdrv.py stand-alone instantiation as in tests/test_discrete.py; vh/tdsdrv.observe_limits")
         + "SortedLimiter, RateLimiter, AntiWindupRate, ShuntAdjust, time-mode Delay only through simulations. DeadBandRT "
           "(return flags, repaired by fix 1a5994f) is checked on every input history of length 5 over six levels.")

CHECKS["C08"] = dict(
    engine="eigreduce", design_ref="DESIGN.md 4 (C08), 2.4",
    technique="exact-rational block elimination and characteristic polynomials in TLA+ (EigReduce), enumerated by TLC and evaluated on "
              "the library's real EIG routines; stock cases against dense block elimination; TLC validates all records",
    text="EigReduce.tla defines the state matrix by one-shot block elimination over exact rationals with a zero time constant at "
         "every position and emits the exact reduced matrix and characteristic-polynomial coefficients; the library's calc_As / "
         "calc_pfactor / _store_stats are run on every enumerated case (779) and must reproduce the matrix, eigenvalues (roots of "
         "the exact polynomial, right count), names, partitioning counts and participation-factor properties; EIG.run on stock "
         "cases is compared with a dense block elimination.",
    note=TRUSTED.replace("vh/tdsdrv.py: ranks of floats, booleans computed on floats", "vh/eigdrv.py: closeness predicates (1e-9 matrix, 1e-7 polynomial residual)")
         + "Lattice bound: n = 3, m = 1, at most one zero time constant; larger systems only through stock cases (numeric reference). "
           "The 'most associated state' clause is decided for decoupled (diagonal) systems only.")

CHECKS["C18"] = dict(
    engine="blocks", design_ref="DESIGN.md 4 (C18), 2.4",
    technique="documented transfer functions over exact rationals in TLA+ (Blocks); realisations extracted exactly from the blocks' "
              "equation strings on a parameter grid; TLC verifies candidate responses, the TF identity at degree+1 points and the "
              "initial-value balance",
    text="For each linear block and every parameter tuple of the grid (zero time constants included) the realisation is "
         "extracted exactly (Fractions) from Block.define()'s equation strings; TLC checks that the candidate response solves the "
         "extracted system and that output*D(s) = N(s) for the documented N, D at four rational s (a rational identity of degree "
         "<= 3 is decided by that), that the declared initial values balance all equations for a constant input and equal the "
         "documented steady state, and that limited variants reduce to the unlimited block inside their limits.",
    note=TRUSTED.replace("vh/tdsdrv.py: ranks of floats, booleans computed on floats", "vh/blockdrv.py: exact Fraction evaluation of equation strings, exact linear solve (certificate re-checked by TLC)")
         + "Nonlinear blocks (gates, piecewise, dead band, rate limits, freeze / tracking variants) are not covered as transfer functions; for the ten limited blocks the quantity each limiter watches and the documented pair of bounds are checked on a lattice with the block's own limiter objects. That generated code equals the equation strings is C02's clause.")

CHECKS["C01"] = dict(
    engine="acnetwork", design_ref="DESIGN.md 4 (C01), 2.4",
    technique="complex power balance over exact Gaussian rationals in TLA+ (ACNetwork) enumerated by TLC and evaluated on the library's "
              "assembled residual; NewtonPF model-checked; encodings of generated networks and stock cases x Newton variant x sparse "
              "library validated by TLC",
    text="ACNetwork.tla writes the two-bus power balance from the physical data (pi model, separate from/to shunts, complex tap, "
         "status, device bases) exactly; TLC emits exact residuals on the lattice and the library's assembled residual must agree "
         "(the class is polynomial/first-harmonic/multilinear, so the grid decides it); the Newton loop's exits are model-checked; "
         "one physical network in shuffled orders, int/str idx and three device bases must converge from a flat start to the same "
         "voltages with every Newton variant and sparse library; on stock cases convergence implies a recomputed residual below "
         "tol and set-points met.",
    note=TRUSTED.replace("vh/tdsdrv.py: ranks of floats, booleans computed on floats", "vh/acdrv.py, vh/pfdrv.py: closeness at 1e-6 relative (1e-8 impedance regularisation)")
         + "'Converges for every well-posed network' is sampled, not decided. PSS/E and MATPOWER inputs are solved (stock) but their "
           "parsing fidelity is C13's.")
CHECKS["C03"] = dict(
    engine="acnetwork", design_ref="DESIGN.md 4 (C03), 2.4",
    technique="Jacobian defined in TLA+ as exact lattice differences of the ACNetwork residual, enumerated by TLC and compared with "
              "System.j_update at the right addresses; assembled Jacobians of stock cases against column-wise finite differences; "
              "pattern stability; records validated by TLC",
    text="The exact Jacobian entries of the lattice come from the residual itself (central difference exact for quadratics, "
         "quarter-turn difference exact for first harmonics), so rows/columns/values of dae.gy are checked without a second "
         "hand derivation; for stock cases, in both phases and with ipadd 1/0, every column of [fx fy; gx gy] is compared with "
         "central finite differences of the assembled residual and the sparsity pattern must not change between updates.",
    note=TRUSTED.replace("vh/tdsdrv.py: ranks of floats, booleans computed on floats", "vh/acdrv.py, vh/pfdrv.jac_stock: numeric predicates (1e-6 lattice, 1e-4 finite differences)")
         + "Symbolic derivative equality per model is not decided; the finite-difference clause is numeric. Known findings: "
           "equations that depend on VarServices have no Jacobian entries for that dependence.")

CHECKS["C05"] = dict(
    engine="inithandover", design_ref="DESIGN.md 4 (C05)",
    technique="TLC model checking of InitHandover + TLC-enumerated hand-over scenarios on generated systems + TDS.init and an undisturbed "
              "run of stock cases, validated by TLC",
    text="The hand-over design (static generator off iff an online dynamic device refers to it, shares, residual test, exit code) "
         "is model-checked; hand-over scenarios (two machines sharing one static generator with shares in tenths, each on/off, a "
         "machine on the slack) are built as real systems and stock cases are initialised and run undisturbed; TLC validates that "
         "bus voltages are bit-equal to the power-flow solution, static generators are switched exactly as required, the verdict "
         "equals an independent evaluation of the residuals (NaN = failure), failure bumps the exit code, injections are preserved "
         "and the trajectory stays (1e-3 relative).",
    note=TRUSTED.replace("vh/tdsdrv.py: ranks of floats, booleans computed on floats", "vh/initdrv.py: predicates on residuals / drift with stated thresholds")
         + "Only model combinations present in stock cases and the generated systems; whether stock data are 'consistent and inside "
           "limiter ranges' is unknown, so 'initialisation succeeds' is only demanded of the generated consistent scenarios. Known "
           "findings: three stock cases pass the test but move.")

CHECKS["C13"] = dict(
    engine="caseio", design_ref="DESIGN.md 4 (C13)",
    technique="TLC model checking of CaseIO (normal form independent of numeric kind, dump/load identity) + round trips of stock and "
              "generated cases through xlsx / json / chains / MATPOWER, validated by TLC",
    text="CaseIO.tla requires the normalisation applied when a value is added to give the same result whether a format delivers the "
         "number as int or float and dump->load to be the identity; stock cases and generated networks are written to xlsx and json "
         "(also chained and after alter), read back and compared device by device and value by value (numbers, strings, lists, "
         "missing), with equal power-flow and initialisation results; MATPOWER export->import must give the same power flow "
         "(including a unity-ratio phase shifter).",
    note=TRUSTED.replace("vh/tdsdrv.py: ranks of floats, booleans computed on floats", "vh/iodrv.py: table comparison at 1e-12 relative, power flow at 1e-8")
         + "Not decided: agreement of the PSS/E raw/dyr and MATPOWER parsers with an independent reading of the source files (needs a "
           "second parser). Cases pointing to side files (TimeSeries) are not moved.")

CHECKS["C02"] = dict(
    engine="codegen", design_ref="DESIGN.md 4 (C02)",
    technique="TLC model checking of Codegen (checksum staleness protocol) and EqBinding (argument lookup by name, positional "
              "delivery) with negative controls + TLC-enumerated operation sequences replayed on a scratch pycode directory with a "
              "versioned probe model (one fresh interpreter per step), validated by TLC against the Codegen actions + every declared "
              "equation string of every shipped model evaluated independently (Python AST over numpy, no sympy) against the executed "
              "generated functions on a TLC-enumerated argument lattice, validated by TLC (Trace_EqBinding)",
    text="Equation level: for each of the ~3000 declared residual / explicit initialiser / iterative initialiser / service strings of all "
         "shipped models the numbers delivered by the generated code that a System actually loads (called through Model.f_update / "
         "g_update / s_update_var and the per-name functions, i.e. with the library's argument lookup and positional delivery) are compared "
         "at 48 (quick) / 192 (thorough) lattice points with an independent evaluation of the declared string; TLC decides agreement, that "
         "each value reaches the variable it was declared for (naming the permutation otherwise) and that every declared item has a loaded "
         "function; both outcomes of ~99 % of the comparisons inside Piecewise / Indicator terms occur.  Protocol level: Codegen.tla is "
         "model-checked for 'stale code is never silently used'; every operation sequence of length <= 3 and a residue class of length 5 over "
         "{edit residual / initialiser / iterative initialiser (single and mutually dependent) / service / external equation / declaration "
         "order, prepare, System() with and without automatic regeneration, corrupt, delete} is replayed with a probe model whose strings "
         "carry a version, and TLC decides from the computed numbers which version actually ran.",
    note=TRUSTED.replace("vh/tdsdrv.py: ranks of floats, booleans computed on floats", "vh/eqdrv.py: the independent expression evaluator (function table "
                         "of 25 names, comparison at 1e-9 relative); vh/codegendrv.py: identification of the version from computed numbers")
         + "Points where the declared string is undefined (division by zero, root of a negative number) are not compared. Jacobian functions are "
           "C03's concern. Regeneration (serial vs process pool, different hash seeds) covers 12 models in the quick tier, all in the thorough tier; files that are not byte-identical are compared functionally.")

# ---- additions of the later session (DESIGN.md 0A.7): appended to the entries above -------------------------------------
def _amend(pid, technique=None, text=None, note=None, note_replace=None):
    c = CHECKS[pid]
    if technique:
        c["technique"] = c["technique"] + " + " + technique
    if text:
        c["text"] = c["text"] + "  " + text
    if note_replace:
        c["note"] = c["note"].replace(*note_replace)
    if note:
        c["note"] = c["note"] + " " + note


_amend("C01",
       technique="whole-network complex power balance recomputed from the devices' input data with the ACNetwork formulation (vh/ybus.py) and "
                 "from an independent reading of PSS/E / MATPOWER source files (vh/srcread.py), PV -> PQ conversion observed per Newton "
                 "iteration, all validated by TLC (Trace_PF)",
       text="Every converged generated network and stock case must also balance a whole-network calculation that uses only the devices' "
            "input values, ratings and bus nominal voltages (own per-unit conversion, nothing of the library's services, equation strings "
            "or adders; tolerance 3 tol plus a per-bus bound on the library's 1e-8 series-impedance regularisation); shipped raw / m files "
            "must balance the network an independent reader takes from the file; with PV.pv2pq = 1 and binding reactive limits converted "
            "generators stay converted, deliver exactly their limit and the others sit at their set-point.",
       note_replace=("PSS/E and MATPOWER inputs are solved (stock) but their parsing fidelity is C13's.",
                     "The independent source reader models bus, load, fixed shunt, generator, branch and transformer records; switched shunts, "
                     "dc lines and FACTS devices are not read independently (reactive balance skipped at those buses)."))
_amend("C03",
       technique="generated Jacobian functions of every shipped model against central differences of the declared equation strings "
                 "(independent evaluator) on the TLC-enumerated argument lattice of C02, validated by TLC (Trace_PF, record modeljac)",
       text="Model level: for all ~100 shipped models the executed <jname>_update functions, each value attributed to the (equation, variable) "
            "pair the loaded index lists name, equal the difference quotient of that declared equation w.r.t. that variable wherever the "
            "quotient is decided (two step sizes and forward / backward quotients agree), no pair without an entry has a non-zero quotient, "
            "constant entries sit on the diagonal (10.7 k entries, 0.5 M decided points in the quick tier).",
       note="The model-level clause is numeric (difference quotients), not symbolic; it does not differentiate through services, as the library "
            "does not.")
_amend("C09",
       technique="definitions of iteration gating, limit adjustment at initialisation, the anti-windup iteration lock, the sorted limiter "
                 "(sticky flags, n per ranking) and Delay / Average in time mode added to Discrete.tla, enumerated by TLC and replayed on the "
                 "real classes",
       text="Also: Discrete.check_iter_err over (niter, err, min_iter, err_tol) with absent arguments; Limiter / HardLimiter / AntiWindup "
            "limit adjustment over component flag x model flag x side x is_init; anti-windup flags sticky from the fifth iteration; "
            "SortedLimiter over three devices x two evaluations x n_select x gate; time-mode Delay / Average against the piecewise-linear "
            "interpolant on monotone and repeated stamps (rewound stamps in time mode are a recorded finding).")
_amend("C12",
       technique="simulations paused after Toggle / Alter / group-name switching events, islands validated by TLC against the graph of the "
                 "devices' statuses at that moment",
       text="During simulation (ieee14_full): lines are taken out and put back by timed events of every kind, two at one instant included; "
            "bus statuses re-written with their present value before initialisation must not cancel the propagation.")
_amend("C13",
       technique="independent readers of MATPOWER / PSS/E raw (rev. 32 / 33) / dyr source files (vh/srcread.py, nothing shared with andes/io), "
                 "text-edited variants of the shipped raw files and generated MATPOWER cases; the library's solution must balance the network "
                 "read from the file, dyr values must be carried by the device attached to the machine the record names; validated by TLC "
                 "(Trace_CaseIO, record src)",
       text="Independent reading of the source: every shipped raw / m file and variants that use the record fields the shipped files leave "
            "at their defaults (branch-end shunts, metered end, fixed shunt, winding-2 turns ratio, phase shift, magnetizing admittance, "
            "windings in kV, out-of-service records, another system base, three-winding impedances / taps / magnetizing; MATPOWER ratios, "
            "phase shifters, bus shunts, several units on a bus, baseMVA other than 100) are read by the library and solved; the reported "
            "voltages must balance the network the independent reader takes from the file; 14 dyr model layouts transcribed from the PSS/E "
            "model documentation are compared value by value.",
       note_replace=("Not decided: agreement of the PSS/E raw/dyr and MATPOWER parsers with an independent reading of the source files (needs a "
                     "second parser).",
                     "Not read independently: switched shunts, dc lines, FACTS devices, dyr models other than the 14 transcribed layouts "
                     "(reported as NOTE, never as violation)."))
_amend("C16",
       technique="a network with isolated buses solved with every back-end under both ways of accumulating the Jacobian",
       text="ieee14_island (two isolated buses): power flow and simulation with klu / umfpack / spsolve x ipadd 1 / 0 must agree.")
_amend("C17",
       technique="stability criterion re-evaluated from the stored trajectory of each run (rotor-angle spread of the in-service machines), "
                 "clause UnstableRunReportedAsSuccess in Trace_TDSLoop",
       text="Unstable disturbances that switch no branch (bus faults on SMIB, ieee14_full, kundur_full): a run during which the rotor-angle "
            "criterion is violated at a stored step must not go on and report success.")
_amend("C19",
       technique="value lookups repeated after alter / set on the key field",
       text="Lookups by field value follow the data: find_idx on u / name, alter / set, find_idx again on the same key.")

_amend("C02",
       technique="CodegenConc.tla (several processes over one directory of generated code, one action per step of undill / prepare / "
                 "_finalize_pycode) model-checked for one and for two model definitions, both schedules replayed with a nested second process",
       text="Across processes: for parallel workers of one checkout RunsOwnModel, FileWholeAtEnd and AllFinish hold in the model and on the real "
            "code; for two definitions sharing the directory TLC finds the schedule in which a process imports the other's code after writing "
            "its own, and the real code follows it (recorded finding).")
_amend("C04",
       technique="the implicit rule recomputed from the start and end values of every accepted step (AcceptedStepSatisfiesImplicitRule) and "
                 "FixedStepIsConfiguredStep in Trace_TDSLoop; faults that drive anti-windup limiters to a limit and back",
       text="Every accepted step of every recorded run also satisfies T (x1 - x0) = h (theta f1 + (1 - theta) f0), recomputed independently of the "
            "routine's residual vector for all states no limiter reports as pegged (threshold 50 tol, worst observed 4e-6); with a fixed step the "
            "configured step is the step in use.")
_amend("C05",
       technique="documented mode flags / limits that no shipped case uses (REPCA1, REECA1, REGCA1, IEEEG1, PVD1) set on every device of cases "
                 "that initialise",
       text="Flag variants: VCFlag / RefFlag / Fflag, PFFLAG / VFLAG / QFLAG / PFLAG / PQFLAG, Lvplsw, a binding PMAX of a cross-compound governor, "
            "pqflag; dead bands do not count as limits in the precondition.",
       note="Model combinations and flag values outside the shipped cases and the listed variants remain undecided.")
_amend("C08",
       technique="the analysis reached through other documented flows (TDS.init first, initialisation test off) against the plain flow, and "
                 "EIG.sweep against fresh Systems carrying each swept value",
       text="Flows: EIG after an explicit TDS.init (with / without TDS.test_init) and EIG with the test switched off must give the state matrix of "
            "the plain flow; every point of a parameter sweep (time constants and gains) must carry the spectrum of a fresh System with that value.")
_amend("C15",
       technique="csv export of a column selection in the caller's order; csv replay on a system with a coarser step of its own",
       text="A selection of columns exported in a non-ascending order keeps every value under the label of its column; a replay reproduces the rows "
            "of the file also when the replaying system's own step is coarser than the file's.")
_amend("C20",
       technique="run-time Config.update as a channel; discovery order of the rc file in a scratch HOME / working directory; the effect of a "
                 "supplied fixed step on the steps taken",
       text="Also: values supplied through Config.update (valid: effective; outside the alternatives: rejected), the documented search order of "
            "the rc file (working directory before home, not merged), and TDS.tstep supplied through an option is the step the simulation takes.")

NOT_APPLICABLE = [
    {"property_id": "C07", "reason": "numeric accuracy / convergence order against closed-form and matrix-exponential references: no "
                                     "discrete state to model and TLA+ cannot evaluate the transcendental reference (DESIGN.md 9)"},
]
for _p, _r in [
    ("C01", "check not built yet in this round (planned: ACNetwork lattice + NewtonPF traces, DESIGN.md 4)"),
    ("C02", "check not built yet in this round (planned: Codegen protocol replay; the symbolic-equality clause is not applicable)"),
    ("C03", "check not built yet in this round (planned: JacPattern traces + ACNetwork lattice differences)"),
    ("C05", "check not built yet in this round (planned: InitHandover traces on all stock cases)"),
    ("C08", "check not built yet in this round (planned: EigReduce exact rational reduction)"),
    ("C09", "check not built yet in this round (planned: Discrete component histories)"),
    ("C10", "check not built yet in this round (planned: Addressing bijection replay)"),
    ("C11", "check not built yet in this round (planned: PerUnit lattice and alter/set sequences)"),
    ("C12", "check not built yet in this round (planned: Connectivity graphs <= 5 buses)"),
    ("C13", "check not built yet in this round (planned: CaseIO round trips)"),
    ("C15", "check not built yet in this round (planned: Storage model + file-level row identity)"),
    ("C16", "check not built yet in this round (planned: SolverCache call sequences)"),
    ("C18", "check not built yet in this round (planned: Blocks transfer-function lattice)"),
    ("C19", "check not built yet in this round (planned: Build add sequences / lookups)"),
    ("C20", "check not built yet in this round (planned: Config channel combinations)"),
]:
    if _p not in CHECKS:
        NOT_APPLICABLE.append({"property_id": _p, "reason": _r})
