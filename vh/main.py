"""Entry point: python -m vh.main <Cxx> <quick|thorough> [--replay file]"""
import importlib
import os
import sys
import traceback


def main(argv):
    if len(argv) < 2:
        print("usage: check <Cxx> <quick|thorough> [--replay file]")
        return 2
    pid = argv[0].upper()
    tier = argv[1] if argv[1] in ("quick", "thorough") else os.environ.get("VERIF_TIER", "quick")
    replay = None
    if "--replay" in argv:
        replay = argv[argv.index("--replay") + 1]
    try:
        mod = importlib.import_module("vh.checks." + pid.lower())
    except ImportError:
        traceback.print_exc()
        print("no check for %s" % pid)
        return 2
    try:
        if replay:
            return mod.replay(replay)
        return mod.run(tier)
    except SystemExit:
        raise
    except Exception:
        traceback.print_exc()
        print("MACHINERY-FAILURE property=%s (exception in check driver)" % pid)
        return 2


if __name__ == "__main__":
    sys.exit(main(sys.argv[1:]))
