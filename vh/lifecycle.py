"""
Lifecycle scenarios (C17 gating / exit codes / failure reporting, C14 reset clause):
operation sequences enumerated by TLC (Scen_Lifecycle) are executed on a real System and the
per-operation records are validated by TLC against Trace_Lifecycle.
"""
import hashlib
import json
import os
import shutil

import numpy as np

from .common import load_case, scratch_dir, NCPU
from .pool import run_tasks
from .tlc import run_tlc
from . import tracecheck

CLAUSES = {
    "RoutineNeverRaises": ("C17",),
    "FailureLeavesExitNonZero": ("C17",),
    "DependantsRefuseOnUnsolvedPF": ("C17",),
    "SuccessImpliesResidualTest": ("C17",),
    "NoNaNPresented": ("C17",),
    "InfeasibleInputReported": ("C17",),
    "ResetThenPFlowSame": ("C14",),
    "OutcomeAfterResetAsOnFreshSystem": ("C14",),
    "RepeatedPFlowSame": ("C14", "C16"),
}


def _fp(ss):
    h = hashlib.sha1()
    for a in (ss.dae.x, ss.dae.y):
        h.update(np.ascontiguousarray(a).tobytes())
    h.update(repr((float(ss.dae.t), bool(ss.TDS.initialized), bool(ss.TDS.busted), ss.PFlow.converged)).encode())
    return h.hexdigest()


def _tcls(ss):
    t = float(ss.dae.t)
    return "neg" if t < 0 else ("zero" if t == 0 else "pos")


def run_ops(sc):
    if sc.get("gen"):
        # a generated network whose branches, loads and shunts are rated on bases different from the system's
        from . import pfdrv, netbuild
        ss, _, _ = netbuild.build(pfdrv.network_spec(*sc["gen"]))
    else:
        ss = load_case(sc["case"])
    ss.TDS.config.no_tqdm = 1
    ss.TDS.config.tf = sc.get("tf", 0.05)
    first = None
    p0 = [np.array(ss.PQ.p0.v), np.array(ss.PQ.q0.v)]
    nominal = True
    out = []
    first_ret = {}
    after_reset = False
    for op in sc["ops"]:
        fp0 = _fp(ss)
        ec0 = ss.exit_code
        was_tds_init = {op: bool(ss.TDS.initialized)}      # a routine called on an initialised simulation is a resume, not a first run
        ret = None
        raised = None
        try:
            if op == "pflow":
                ret = ss.PFlow.run()
            elif op == "tds":
                ret = ss.TDS.run(no_summary=True)
            elif op == "eig":
                ret = ss.EIG.run()
            elif op == "reset":
                was = ss.TDS.initialized
                ss.reset()
                ret = not was
            elif op == "overload":
                ss.PQ.p0.v[:] = p0[0] * 60.0
                nominal = False
                ret = True
            elif op == "restore":
                ss.PQ.p0.v[:] = p0[0]
                ss.PQ.q0.v[:] = p0[1]
                nominal = True
                ret = True
        except Exception as ex:
            raised = "%s: %s" % (type(ex).__name__, str(ex)[:200])
        residual_ok = True
        pf_equal_first = True
        if op == "pflow" and ret:
            residual_ok = bool(ss.PFlow.mis[-1] < ss.PFlow.config.tol) and ss.PFlow.x_sol is not None
            if nominal:
                sol = np.hstack([ss.PFlow.x_sol, ss.PFlow.y_sol])
                if first is None:
                    first = sol
                else:
                    pf_equal_first = bool(len(sol) == len(first) and np.max(np.abs(sol - first)) <= 1e-9)
        if op == "tds" and ret:
            residual_ok = bool(float(ss.dae.t) == float(ss.TDS.config.tf) and not ss.TDS.busted)
        # a routine run after a reset ends as it did on the fresh system (same nominal data)
        reset_outcome_ok = True
        if op in ("pflow", "tds", "eig") and nominal and raised is None:
            if op in first_ret and after_reset and not was_tds_init.get(op, False):
                reset_outcome_ok = bool(bool(ret) == first_ret[op])
            first_ret.setdefault(op, bool(ret))
        if op == "reset" and ret:
            after_reset = True
        nan = bool(np.isnan(ss.dae.x).any() or np.isnan(ss.dae.y).any())
        pfc = ss.PFlow.converged
        x_sol = ss.PFlow.x_sol
        out.append(dict(op=op, ret=bool(ret) if ret is not None else False, raised=raised is not None,
                        raised_text=raised, exit_before=int(ec0), exit_after=int(ss.exit_code),
                        state_unchanged=bool(_fp(ss) == fp0), residual_ok=residual_ok, nan=nan,
                        pf_after=("ok" if (pfc and x_sol is not None) else ("failed" if ss.PFlow.niter or pfc is False and ss.PFlow.mis != [1] else "none")),
                        tds_init=bool(ss.TDS.initialized), tcls=_tcls(ss), busted=bool(ss.TDS.busted),
                        pf_equal_first=pf_equal_first, nominal=nominal, kind="", reset_outcome_ok=reset_outcome_ok))
    return dict(meta=dict(tid=sc["tid"], sid=sc["sid"]), ev=out)


def scenarios(rep, maxlen):
    d = scratch_dir("lc")
    try:
        out = os.path.join(d, "lc.json")
        r = run_tlc("Scen_Lifecycle", "Scen_Lifecycle.cfg", workers=1, timeout=300, env={"OUT": out})
        rep.add_tlc(r, "Scen_Lifecycle (operation sequences)")
        data = json.load(open(out))
    finally:
        shutil.rmtree(d, ignore_errors=True)
    seqs = data["seq4" if maxlen >= 4 else "seq3"]
    seqs.sort(key=lambda q: (len(q), q))
    return seqs


def run_family(rep, pid, quick, only=None):
    import random
    from .common import seed
    for cfg, label in (("MC_Lifecycle.cfg", "Lifecycle (gating / exit code design)"),):
        r = run_tlc("MC_Lifecycle", cfg, timeout=600)
        rep.add_tlc(r, label)
        if r["machinery_ok"] and r["violation"]:
            rep.note("design-level counterexample in Lifecycle: %s" % r["violation"])
    seqs = scenarios(rep, 3 if quick else 4)
    if only and "reset" in only:
        seqs = [q for q in seqs if "reset" in q and "pflow" in q]
    rnd = random.Random("lc-%d" % seed())
    rep.extra["lifecycle_sequences_exhaustive_len"] = 3 if quick else 4
    cases = ["kundur/kundur_full.json"] if quick else ["kundur/kundur_full.json", "ieee14/ieee14_fault.json"]
    scs = []
    for case in cases:
        for q in seqs:
            scs.append(dict(sid="ops[%s|%s]" % (case.split("/")[0], ">".join(q)), case=case, ops=q))
    if only and "reset" in only:
        for base in (2, 3):
            for q in [q_ for q_ in seqs if q_.count("pflow") >= 2 and "tds" not in q_ and "eig" not in q_][:6]:
                scs.append(dict(sid="ops[generated base %d|%s]" % (base, ">".join(q)), case="generated", gen=[811 + base, "int", base, 1], ops=q))
    for i, sc in enumerate(scs):
        sc["tid"] = i + 1
    res = run_tasks("vh.lifecycle:run_ops", scs, nproc=NCPU, timeout=300)
    traces = [r["result"] for r in res if r["status"] == "ok"]
    verdicts, tl = tracecheck.validate(traces, "Trace_Lifecycle")
    for t in tl:
        rep.add_tlc(t, "Trace_Lifecycle")
    for sc, r in zip(scs, res):
        rep.count()
        if r["status"] != "ok":
            if r["status"] in ("crash", "timeout") and pid == "C17":
                rep.violation("ProcessDies:%s" % sc["sid"], "interpreter %s during %s" % (r["status"], sc["sid"]),
                              replay=dict(scenario=sc, outcome=r))
            elif r["status"] == "exc":
                rep.machinery("driver exception in %s" % sc["sid"], r.get("error", "")[-1500:])
            continue
        v = verdicts.get(sc["tid"])
        if v is None:
            rep.machinery("lifecycle trace %s not consumed" % sc["sid"])
            continue
        rep.traces += 1
        if len(sc["ops"]) > 1:
            rep.nontriv(sc["sid"])
        for cl in v["viol"]:
            base = cl.split(":")[0]
            if pid in CLAUSES.get(base, ()):
                ops = r["result"]["ev"]
                rep.violation("%s:%s" % (cl, sc["sid"]), "clause %s fails in operation sequence %s" % (cl, sc["sid"]),
                              replay=dict(scenario=sc, records=ops))
        for dn in v["drift"]:
            if dn not in rep.extra.setdefault("model_drift", {}):
                rep.extra["model_drift"][dn] = sc["sid"]
                rep.note("model drift (conformance layer, not an alarm): %s e.g. in %s" % (dn, sc["sid"]))
    if scs:
        ok = [r for r in res if r["status"] == "ok"]
        if ok:
            rep.sample(dict(lifecycle_sequence=scs[min(5, len(scs) - 1)]["sid"], records=ok[min(5, len(ok) - 1)]["result"]["ev"][:3]))
    return scs
