"""
Batched trace validation: a list of encoded traces -> one TLC run per chunk -> one verdict per trace.
"""
import json
import os
import shutil
from concurrent.futures import ThreadPoolExecutor

from .common import scratch_dir, NCPU
from .tlc import run_tlc


def _clean(o):
    """JSON null is not representable in TLA+: drop such keys; floats are never sent (ranks/ticks/booleans only)."""
    if isinstance(o, dict):
        return {k: _clean(v) for k, v in o.items() if v is not None}
    if isinstance(o, (list, tuple)):
        return [_clean(v) for v in o if v is not None]
    if isinstance(o, float):
        raise TypeError("float in trace: %r" % o)
    return o


def validate(traces, module, chunk=None, timeout=1800, jobs=None):
    """
    ``traces``: list of dicts with meta.tid unique.  Returns (verdicts {tid: dict}, [TLCResult]).
    A trace without a verdict line was not consumed to its end (machinery or spec error).
    """
    if not traces:
        return {}, []
    jobs = jobs or max(1, min(NCPU // 2, 8))
    if chunk is None:
        chunk = max(1, (len(traces) + jobs - 1) // jobs)
    parts = [traces[i:i + chunk] for i in range(0, len(traces), chunk)]
    d = scratch_dir("tr")
    results = []

    def one(k):
        path = os.path.join(d, "t%d.json" % k)
        with open(path, "w") as f:
            json.dump(_clean(parts[k]), f)
        return run_tlc(module, module + ".cfg", workers=1, timeout=timeout, env={"TRACE_FILE": path}, heap="3g")

    try:
        with ThreadPoolExecutor(max_workers=jobs) as ex:
            results = list(ex.map(one, range(len(parts))))
    finally:
        shutil.rmtree(d, ignore_errors=True)
    verdicts = {}
    for r in results:
        for p in r["prints"]:
            if isinstance(p, dict) and "tid" in p:
                verdicts[p["tid"]] = p
    return verdicts, results
