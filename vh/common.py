"""
Shared paths, the pycode cache and hermetic ANDES helpers.

Everything that touches ANDES goes through ``load_case`` / ``new_system`` so that
no run reads ``~/.andes/andes.rc`` or ``~/.andes/pycode``.
"""
import fcntl
import hashlib
import json
import os
import shutil
import subprocess
import sys
import tempfile
import time

VERIF = os.path.dirname(os.path.dirname(os.path.abspath(__file__)))
REPO = os.environ.get("VERIF_REPO", "/repo")
SPEC = os.path.join(VERIF, "spec")
EVID = os.environ.get("VERIF_EVID", os.path.join(VERIF, "evidence"))
REPLAYS = os.environ.get("VERIF_REPLAYS", os.path.join(VERIF, "replays"))
CACHE = os.path.join(VERIF, "cache")
PY = "/venv/bin/python"
CASES = os.path.join(REPO, "andes", "cases")
NCPU = int(os.environ.get("VERIF_NCPU", str(os.cpu_count() or 4)))

GUARD = "ANDES_VERIF"


def seed():
    try:
        return int(os.environ.get("VERIF_SEED", "0"))
    except ValueError:
        return 0


def repo_hash():
    """Hash of every python/yaml source under /repo/andes (the code that determines pycode)."""
    h = hashlib.sha256()
    root = os.path.join(REPO, "andes")
    for d, dirs, files in os.walk(root):
        dirs.sort()
        if os.path.basename(d) in ("cases", "__pycache__", "pycode"):
            dirs[:] = []
            continue
        for f in sorted(files):
            if f.endswith((".py", ".yaml")):
                p = os.path.join(d, f)
                h.update(os.path.relpath(p, root).encode())
                with open(p, "rb") as fh:
                    h.update(fh.read())
    return h.hexdigest()[:16]


def scratch_dir(prefix="vh"):
    base = os.path.join(VERIF, "scratch")
    os.makedirs(base, exist_ok=True)
    return tempfile.mkdtemp(prefix=prefix + "-", dir=base)


def pycode_path(build=True):
    """
    Path of a pycode directory generated from the *current* working tree of /repo.

    The directory is keyed by ``repo_hash()``; a change to any source file (including
    ``symprocessor.py``, which the library's own md5 staleness test does not see) gives
    a new key and a regeneration.  Keys unused for four hours are removed (beyond the six most recent).
    """
    key = repo_hash()
    os.makedirs(CACHE, exist_ok=True)
    path = os.path.join(CACHE, "pycode-" + key)
    done = os.path.join(path, ".complete")
    if os.path.exists(done) or not build:
        try:
            os.utime(path, None)          # mark as in use (eviction looks at this time)
        except OSError:
            pass
        return path
    lock = open(os.path.join(CACHE, ".lock"), "w")
    fcntl.flock(lock, fcntl.LOCK_EX)
    try:
        if os.path.exists(done):
            return path
        olds = sorted((o for o in os.listdir(CACHE) if o.startswith("pycode-") and o != "pycode-" + key),
                      key=lambda o: os.path.getmtime(os.path.join(CACHE, o)))
        # other keys may be in use by concurrent runs on other trees: only remove what has not been used for hours
        for old in olds[:-6]:
            if time.time() - os.path.getmtime(os.path.join(CACHE, old)) > 4 * 3600:
                shutil.rmtree(os.path.join(CACHE, old), ignore_errors=True)
        shutil.rmtree(path, ignore_errors=True)
        os.makedirs(path)
        code = (
            "import andes, sys\n"
            "andes.config_logger(stream_level=40, file=False)\n"
            "ss = andes.System(default_config=True, no_undill=True, pycode_path=%r)\n"
            "ss.prepare(quick=True, incremental=False)\n" % path
        )
        t0 = time.time()
        r = subprocess.run([PY, "-c", code], cwd=REPO, stdout=subprocess.PIPE,
                           stderr=subprocess.STDOUT, env=clean_env(), timeout=1800)
        if r.returncode != 0 or not os.path.exists(os.path.join(path, "__init__.py")):
            sys.stderr.write(r.stdout.decode(errors="replace")[-4000:])
            raise RuntimeError("pycode generation failed (machinery)")
        with open(done, "w") as f:
            f.write("%.1f\n" % (time.time() - t0))
        return path
    finally:
        fcntl.flock(lock, fcntl.LOCK_UN)
        lock.close()


def clean_env(extra=None):
    env = dict(os.environ)
    env["PYTHONHASHSEED"] = "0"
    env["PYTHONPATH"] = REPO + os.pathsep + VERIF
    env[GUARD] = "1"
    env.setdefault("OMP_NUM_THREADS", "1")
    env.setdefault("OPENBLAS_NUM_THREADS", "1")
    env.setdefault("MKL_NUM_THREADS", "1")
    if extra:
        env.update(extra)
    return env


_andes = None


def andes_mod():
    """Import andes from /repo quietly (once per process)."""
    global _andes
    if _andes is None:
        if REPO not in sys.path:
            sys.path.insert(0, REPO)
        import andes  # noqa
        andes.config_logger(stream_level=50, file=False)
        _andes = andes
    return _andes


def sys_kwargs(**kw):
    # autogen_stale=False: the cache is regenerated from scratch whenever any source file changes (repo_hash), so
    # the library's own incremental regeneration is not needed - and on this tree 7 models are reported stale on
    # *every* System creation (md5 written by the multiprocess generator differs from Model.get_md5(); see C02),
    # which would re-run code generation with 16 processes for every single scenario.
    out = dict(default_config=True, pycode_path=pycode_path(), no_output=True, autogen_stale=False)
    out.update(kw)
    return out


def load_case(relpath, setup=True, **kw):
    """andes.load on a stock case (path relative to andes/cases) or an absolute path, hermetically."""
    andes = andes_mod()
    path = relpath if os.path.isabs(relpath) else os.path.join(CASES, relpath)
    return andes.load(path, setup=setup, use_input_path=False, **sys_kwargs(**kw))


def new_system(**kw):
    andes = andes_mod()
    return andes.System(**sys_kwargs(**kw))


def case_path(rel):
    return os.path.join(CASES, rel)


def dump_json(path, obj):
    os.makedirs(os.path.dirname(path), exist_ok=True)
    tmp = path + ".tmp"
    with open(tmp, "w") as f:
        json.dump(obj, f, indent=1, sort_keys=True, default=_jd)
    os.replace(tmp, path)


def _jd(o):
    try:
        import numpy as np
        if isinstance(o, np.generic):
            return o.item()
        if isinstance(o, np.ndarray):
            return o.tolist()
    except Exception:
        pass
    if isinstance(o, (set, frozenset)):
        return sorted(o, key=str)
    return str(o)
