"""
C12 driver: builds a real System for a graph scenario, records what System.connectivity() reports,
whether the power flow copes with isolated buses, and what ConnMan does when buses are switched off.
"""
import numpy as np

from . import netbuild


def run_graph(sc):
    n = sc["n"]
    br = [b for b in sc["br"] if b["st"] != "absent"]
    edges = [(b["i"], b["j"]) for b in br]
    line_u = [1 if b["st"] == "on" else 0 for b in br]
    if sc.get("parallel") and edges:
        edges.append(edges[0])
        line_u.append(sc["parallel"] == "on")
    slacks = sc["slacks"]
    pq = list(range(1, n + 1))
    spec = netbuild.simple_network(n, edges, [s["bus"] for s in slacks], pv_buses=sc.get("pv", []), pq_buses=pq,
                                   shunt_buses=sc.get("shunt", [n]), line_u=line_u, slack_u=[s["u"] for s in slacks],
                                   idx_kind=sc.get("idx_kind", "int"))
    # a second model of the StaticShunt group on the same bus as the Shunt (lookups must cover both models)
    for b in sc.get("shuntsw", []):
        bid = netbuild.bus_id(b, n, sc.get("idx_kind", "int"))
        spec["devices"].append(dict(model="ShuntSw", idx="SW%d" % b, bus=bid, Vn=110.0, gs="0", bs="0.01", ns="2"))
    ev = []
    ss, ids, ok = netbuild.build(spec)
    if not edges:
        # a system without any branch: connectivity() is documented for systems with series devices
        return dict(meta=dict(tid=sc["tid"], sid=sc["sid"]), ev=[])
    pos = {idx: k for k, idx in enumerate(ss.Bus.idx.v)}
    bus_pos = lambda i: pos[netbuild.bus_id(i, n, sc.get("idx_kind", "int"))]   # noqa
    raised = None
    try:
        ss.connectivity(info=False)
    except Exception as ex:
        raised = "%s: %s" % (type(ex).__name__, str(ex)[:100])
    on_edges = [[bus_pos(i), bus_pos(j)] for (i, j), u in zip(edges, line_u) if u]
    if raised is None:
        ev.append(dict(e="conn", n=n, edges_on=on_edges, islanded=[int(b) for b in ss.Bus.islanded_buses],
                       island_sets=[[int(b) for b in s] for s in ss.Bus.island_sets],
                       islands=[[int(b) for b in s] for s in ss.Bus.islands],
                       nosw=[int(k) for k in ss.Bus.nosw_island], msw=[int(k) for k in ss.Bus.msw_island],
                       slacks=[dict(bus=bus_pos(s["bus"]), u=int(s["u"])) for s in slacks]))
    else:
        ev.append(dict(e="conn_raised", text=raised))
    # power flow: solvable iff exactly one island and it holds exactly one enabled slack (others isolated buses only)
    if raised is None and sc.get("pflow", True):
        comps = ss.Bus.island_sets
        one = (len(comps) == 1 and len(ss.Bus.nosw_island) == 0 and len(ss.Bus.msw_island) == 0)
        if one:
            try:
                conv = bool(ss.PFlow.run())
            except Exception:
                conv = False
            iso = [int(b) for b in ss.Bus.islanded_buses]
            resid_zero = True
            if conv and iso:
                ss.PFlow.fg_update() if hasattr(ss.PFlow, "fg_update") else None
                g = np.asarray(ss.dae.g)
                resid_zero = bool(np.all(np.abs(g[iso]) < 1e-8) and np.all(np.abs(g[[ss.Bus.n + b for b in iso]]) < 1e-8))
            ev.append(dict(e="pflow", expect_solvable=True, converged=conv, isolated_residual_zero=resid_zero,
                           n_isolated=len(iso)))
    # switching buses off after set-up
    if sc.get("off"):
        ss2, ids2, ok2 = netbuild.build(spec)
        devs = []
        for name in ("Line", "Slack", "PV", "PQ", "Shunt", "ShuntSw"):
            mdl = ss2.models[name]
            for k in range(mdl.n):
                if name == "Line":
                    buses = [bus_pos_of(ss2, mdl.bus1.v[k]), bus_pos_of(ss2, mdl.bus2.v[k])]
                else:
                    buses = [bus_pos_of(ss2, mdl.bus.v[k])]
                devs.append(dict(model=name, k=k, buses=buses, u0=int(mdl.u.v[k])))
        raised2 = None
        off_pos = []
        try:
            for b in sc["off"]:
                bid = netbuild.bus_id(b, n, sc.get("idx_kind", "int"))
                off_pos.append(bus_pos_of(ss2, bid))
                if sc.get("via", "alter") == "alter":
                    ss2.Bus.alter("u", bid, 0)
                else:
                    ss2.Bus.set("u", bid, "v", 0)
            if sc.get("rewrite"):
                # a status written again with the value it already has (applying a status vector bus by bus) changes nothing
                for b in range(1, n + 1):
                    bid = netbuild.bus_id(b, n, sc.get("idx_kind", "int"))
                    ss2.Bus.alter("u", bid, 0 if b in sc["off"] else 1)
            ss2.PFlow.init()
        except Exception as ex:
            raised2 = "%s: %s" % (type(ex).__name__, str(ex)[:150])
        for d in devs:
            d["u1"] = int(ss2.models[d["model"]].u.v[d["k"]])
            d.pop("k")
        ev.append(dict(e="busoff", off=off_pos, devs=[dict(buses=d["buses"], u0=d["u0"], u1=d["u1"]) for d in devs],
                       raised=raised2 is not None, raised_text=raised2, models=[d["model"] for d in devs]))
    return dict(meta=dict(tid=sc["tid"], sid=sc["sid"]), ev=ev)


def bus_pos_of(ss, idx):
    return int(ss.Bus.idx2uid(idx))


def run_sequence(sc):
    """
    One System, several successive connection states (lines switched out and back in), connectivity check and power flow
    after each; every state is compared with a *fresh* System put into the same state.  History matters: stale island
    bookkeeping shows up only after a second, different state.
    """
    from .common import load_case
    ss = load_case(sc["case"])
    lines = list(ss.Line.idx.v)
    ev = []
    for step, off in enumerate(sc["steps"]):
        for k, idx in enumerate(lines):
            ss.Line.u.v[k] = 0 if k in off else 1
        rec = dict(e="seqstep", step=step, off=list(off))
        try:
            conv = bool(ss.PFlow.run())
        except Exception as ex:
            conv = False
            rec["raised_text"] = "%s: %s" % (type(ex).__name__, str(ex)[:100])
        fresh = load_case(sc["case"])
        for k in off:
            fresh.Line.u.v[k] = 0
        try:
            conv2 = bool(fresh.PFlow.run())
        except Exception:
            conv2 = False
        same_islands = ({frozenset(s) for s in ss.Bus.island_sets} == {frozenset(s) for s in fresh.Bus.island_sets} and
                        set(ss.Bus.islanded_buses) == set(fresh.Bus.islanded_buses))
        same_sol = True
        if conv and conv2:
            a = np.hstack([np.array(ss.Bus.a.v), np.array(ss.Bus.v.v)])
            b = np.hstack([np.array(fresh.Bus.a.v), np.array(fresh.Bus.v.v)])
            iso = [int(i) for i in fresh.Bus.islanded_buses]
            mask = np.ones(len(a), dtype=bool)
            for i in iso:
                mask[i] = False
                mask[fresh.Bus.n + i] = False
            same_sol = bool(np.max(np.abs(a[mask] - b[mask])) <= 1e-6)
        # assembled Jacobian against finite differences at the solution (power-flow models)
        rec.update(same_success=bool(conv == conv2), same_islands=bool(same_islands), same_solution=bool(same_sol), converged=conv)
        ev.append(rec)
    return dict(meta=dict(tid=sc["tid"], sid=sc["sid"]), ev=ev)


def _conn_record(ss):
    """what the library reports now, with the graph of in-service series devices read from the devices' present statuses"""
    pos = {idx: k for k, idx in enumerate(ss.Bus.idx.v)}
    on = []
    for name in ("Line", "Jumper"):
        mdl = ss.models.get(name)
        if mdl is None:
            continue
        for k in range(mdl.n):
            if mdl.u.v[k] == 1:
                on.append([pos[mdl.bus1.v[k]], pos[mdl.bus2.v[k]]])
    slacks = [dict(bus=pos[ss.Slack.bus.v[k]], u=int(ss.Slack.u.v[k])) for k in range(ss.Slack.n)]
    return dict(e="conn", n=ss.Bus.n, edges_on=on, islanded=[int(b) for b in ss.Bus.islanded_buses],
                island_sets=[[int(b) for b in s] for s in ss.Bus.island_sets], islands=[[int(b) for b in s] for s in ss.Bus.islands],
                nosw=[int(k) for k in ss.Bus.nosw_island], msw=[int(k) for k in ss.Bus.msw_island], slacks=slacks)


def run_tds_switching(sc):
    """Islands after each switching event during a simulation: lines are taken out / put back by timed events (Toggle on the
    model, Toggle on the group name, Alter of the status field); the simulation is paused shortly after each event and the
    library's island bookkeeping is compared with the graph of the devices' statuses at that moment."""
    import andes
    from .common import case_path, sys_kwargs
    ss = andes.load(case_path(sc["case"]), setup=False, **sys_kwargs())
    for m in ("Toggle", "Toggler", "Fault", "Alter"):
        mdl = ss.models.get(m)
        if mdl is not None and mdl.n:
            for k in range(mdl.n):
                mdl.u.v[k] = 0                       # shipped disturbances off: only the scenario's events act
    lines = list(ss.Line.idx.v)
    for j, (t, kind, k, val) in enumerate(sc["events"]):
        if kind == "toggle":
            ss.add("Toggle", dict(model="Line", dev=lines[k], t=t))
        elif kind == "toggle_group":
            ss.add("Toggle", dict(model="ACLine", dev=lines[k], t=t))
        else:
            ss.add("Alter", dict(model="Line", dev=lines[k], src="u", attr="v", method="=", amount=val, t=t))
    ss.setup()
    ev = []
    if not ss.PFlow.run():
        return dict(meta=dict(tid=sc["tid"], sid=sc["sid"]), ev=[])
    ss.TDS.config.no_tqdm = 1
    ss.TDS.config.criteria = 0
    times = sorted({t for t, _, _, _ in sc["events"]})
    ok = True
    for t in times + [times[-1] + 0.2]:
        ss.TDS.config.tf = t + 0.05
        try:
            ok = bool(ss.TDS.run())
        except Exception as ex:
            ev.append(dict(e="tds_raised", text="%s: %s" % (type(ex).__name__, str(ex)[:120])))
            break
        rec = _conn_record(ss)
        rec["t"] = "%.4f" % float(ss.dae.t)
        rec["tds_ok"] = ok
        ev.append(rec)
        if not ok:
            break
    return dict(meta=dict(tid=sc["tid"], sid=sc["sid"]), ev=ev)
