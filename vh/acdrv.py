"""
C01 / C03 driver (M3): one real System holds N disjoint two-bus sub-networks (one per parameter tuple of the
ACNetwork lattice, each with its own slack); for every operating point of the grid the library's assembled
residuals (PFlow.fg_update) and Jacobian (System.j_update) are compared with the exact values TLC computed.
"""
import math
from fractions import Fraction as Fr

import numpy as np

from .common import new_system, andes_mod


def f(p):
    return float(Fr(p[0], p[1]))


def build(tuples):
    """tuples: list of (n, d). Returns the system and the address tables."""
    andes_mod()
    # constant-power loads at every voltage of the grid: the load-to-impedance conversion outside [vmin, vmax] is
    # switched off through the configuration (it is read when the model is constructed)
    ss = new_system(config_option=["PQ.pq2z=0"])
    vb = 110.0
    for k, (n, d) in enumerate(tuples):
        b1, b2 = "A%d" % k, "B%d" % k
        ss.add("Bus", dict(idx=b1, Vn=vb))
        ss.add("Bus", dict(idx=b2, Vn=vb))
        ss.add("Line", dict(idx="L%d" % k, bus1=b1, bus2=b2, Sn=100.0 * f(d["rs"]), Vn1=vb * f(d["rv"]), Vn2=vb * f(d["rv"]),
                            r=f(d["r"]), x=f(d["x"]), g=f(d["g"]), b=f(d["b"]), g1=f(d["g1"]), b1=f(d["b1"]), g2=f(d["g2"]),
                            b2=f(d["b2"]), tap=f(d["tap"]), phi=d["phi"] * math.pi / 2, u=d["u"], trans=1))
        ss.add("Slack", dict(idx="S%d" % k, bus=b1, Vn=vb, v0=1.0, a0=0.0, p0=f(d["psl"]), q0=f(d["qsl"]), u=d["usl"]))
        ss.add("PV", dict(idx="G%d" % k, bus=b2, Vn=vb, v0=1.0, p0=f(d["ppv"]), q0=f(d["qpv"]), u=d["upv"],
                          pmax=99, pmin=-99, qmax=99, qmin=-99))
        ss.add("PQ", dict(idx="D%d" % k, bus=b2, Vn=vb, p0=f(d["p0"]), q0=f(d["q0"]), u=d["upq"]))
        ss.add("Shunt", dict(idx="H%d" % k, bus=b2, Vn=vb, g=f(d["gs"]), b=f(d["bs"]), u=d["ush"]))
    ss.setup()
    ss.PFlow.init()
    return ss


def evaluate(task):
    tuples = task["tuples"]          # [(n, d)]
    cases = task["cases"]            # {(n, ptkey): case}
    ss = build(tuples)
    dae = ss.dae
    N = len(tuples)
    bus_pos = {idx: i for i, idx in enumerate(ss.Bus.idx.v)}
    a1 = np.array([ss.Bus.a.a[bus_pos["A%d" % k]] for k in range(N)])
    a2 = np.array([ss.Bus.a.a[bus_pos["B%d" % k]] for k in range(N)])
    v1 = np.array([ss.Bus.v.a[bus_pos["A%d" % k]] for k in range(N)])
    v2 = np.array([ss.Bus.v.a[bus_pos["B%d" % k]] for k in range(N)])
    bad = []
    neval = 0
    points = sorted({c["ptkey"] for c in cases})
    by = {(c["n"], c["ptkey"]): c for c in cases}
    for ptkey in points:
        pv1, k1, pv2, k2 = ptkey
        dae.y[a1] = k1 * math.pi / 2
        dae.y[a2] = k2 * math.pi / 2
        dae.y[v1] = pv1
        dae.y[v2] = pv2
        for k, (n, d) in enumerate(tuples):
            dae.y[ss.PV.q.a[k]] = f(d["qpv"])
            dae.y[ss.Slack.q.a[k]] = f(d["qsl"])
            dae.y[ss.Slack.p.a[k]] = f(d["psl"])
        ss.vars_to_models()
        ss.PFlow.fg_update()
        g = np.array(dae.g)
        ss.j_update(models=ss.PFlow.models)
        gy = dae.gy
        for k, (n, d) in enumerate(tuples):
            c = by.get((n, ptkey))
            if c is None:
                continue
            neval += 1
            got = dict(P1=g[a1[k]], Q1=g[v1[k]], P2=g[a2[k]], Q2=g[v2[k]])
            for row in ("P1", "Q1", "P2", "Q2"):
                exp = f(c["res"][row])
                if abs(got[row] - exp) > 1e-6 * max(1.0, abs(exp)):
                    bad.append(dict(kind="residual", n=n, row=row, pt=list(ptkey), expected=exp, got=float(got[row]), d=c["d"]))
            if c["jac"]:
                rows = dict(P1=a1[k], Q1=v1[k], P2=a2[k], Q2=v2[k])
                cols = dict(a1=a1[k], a2=a2[k], v1=v1[k], v2=v2[k])
                for row, ri in rows.items():
                    for col, ci in cols.items():
                        exp = f(c["jac"][row][col])
                        gotj = float(gy[int(ri), int(ci)])
                        # the diagonal carries a small regularisation (config.diag_eps) in addition to the derivative
                        tol = 1e-6 * max(1.0, abs(exp)) + (1e-6 if ri == ci else 0.0)
                        if abs(gotj - exp) > tol:
                            bad.append(dict(kind="jacobian", n=n, row=row, col=col, pt=list(ptkey), expected=exp, got=gotj, d=c["d"]))
    return dict(bad=bad[:200], nbad=len(bad), neval=neval)
