"""
C06 driver for time-series updates (TimeSeries, mode 1: rows of a data file applied at their exact time stamps).
A scenario has stamps (time, value) written to a scratch csv, a step size, and segment end times.  Recorded at every
stored instant: the time and the value the destination parameter holds.  What is expected is computed from the scenario
alone: at a stored time t the destination holds the value of the last row whose stamp lies strictly before t (the step
that ends at a stamp is solved with the old value, the row takes effect at that instant), every stamp inside the run is a
stored time, stored times increase strictly, and the run ends at the requested time.
"""
import os
import shutil

import numpy as np

from .common import load_case, scratch_dir


def run_ts(sc):
    d = scratch_dir("ts")
    try:
        csv = os.path.join(d, "series.csv")
        ss = load_case(sc["case"], setup=False, config_option=["PQ.pq2z=0", "PQ.p2p=1", "PQ.q2q=1", "PQ.p2z=0", "PQ.q2z=0"])
        for name in ("Toggle", "Fault", "Alter"):
            mdl = ss.models[name]
            for i in range(mdl.n):
                mdl.u.v[i] = 0
                for par in mdl.timer_params.values():
                    par.v[i] = -1.0
        # the rows change the load by a few per cent (factors of the scenario times the load of the case)
        p_case = float(ss.PQ.p0.v[0])
        q_case = float(ss.PQ.q0.v[0])
        factors = [f_ for _, f_ in sc["stamps"]]
        sc = dict(sc, stamps=[(T, round(p_case * f_, 9)) for T, f_ in sc["stamps"]])
        with open(csv, "w") as f:
            f.write("t,p,q\n")
            for (T, val), f_ in zip(sc["stamps"], factors):
                f.write("%r,%r,%r\n" % (float(T), float(val), q_case * f_))
        dev = ss.PQ.idx.v[0]
        other = ss.PQ.idx.v[1] if ss.PQ.n > 1 else None
        ss.add("TimeSeries", dict(idx="TS1", mode=1, path=csv, sheet="x", fields="p,q", tkey="t", model="PQ", dev=dev, dests="Ppf,Qpf",
                                  u=sc.get("u", 1)))
        ss.setup()
        if not ss.PFlow.run():
            return dict(meta=dict(tid=sc["tid"], sid=sc["sid"]), ev=[], skipped="pflow")
        cfg = ss.TDS.config
        cfg.no_tqdm = 1
        cfg.tstep = sc["tstep"]
        cfg.fixt = sc.get("fixt", 1)
        rows = []
        k = ss.PQ.idx2uid(dev)
        ko = ss.PQ.idx2uid(other) if other is not None else None
        orig = ss.dae.store

        def store(*a, **kw):
            r = orig(*a, **kw)
            rows.append((float(ss.dae.t), float(ss.PQ.Ppf.v[k]), float(ss.PQ.Ppf.v[ko]) if ko is not None else 0.0))
            return r
        ss.dae.store = store
        ok = True
        raised = None
        try:
            for tf in sc["segs"]:
                cfg.tf = tf
                ok = bool(ss.TDS.run(no_summary=True)) and ok
        except Exception as ex:
            raised = "%s: %s" % (type(ex).__name__, str(ex)[:160])
            ok = False
        # the destination's value before any row: what the power-flow load gives (constant-power load)
        v0 = p_case_sys = float(ss.PQ.p0.v[k])
        vo0 = float(ss.PQ.p0.v[ko]) if ko is not None else 0.0
        tf = sc["segs"][-1]
        enabled = sc.get("u", 1) == 1
        stamps = sorted((float(T), float(val)) for T, val in sc["stamps"])

        def expected(t):
            val = v0
            if enabled:
                for T, x in stamps:
                    if 0.0 <= T < t:           # strictly before: the row takes effect at the instant T
                        val = x
            return val
        times = [r[0] for r in rows]
        applied_ok = all(r[1] == expected(r[0]) for r in rows)
        first_bad = next(((r[0], r[1], expected(r[0])) for r in rows if r[1] != expected(r[0])), None)
        inside = [T for T, _ in stamps if 0.0 < T <= tf]
        ends_at = all(T in times for T in inside) if enabled else True
        return dict(meta=dict(tid=sc["tid"], sid=sc["sid"]),
                    ev=[dict(e="ts", raised=raised is not None, success=bool(ok), applied_at_stamp=bool(applied_ok),
                             step_ends_at_stamp=bool(ends_at), increasing=bool(all(b > a for a, b in zip(times, times[1:]))),
                             ends_at_tf=bool(len(times) > 0 and times[-1] == float(tf)),
                             other_untouched=bool(all(r[2] == vo0 for r in rows)) if v0 is not None else True,
                             n_stamps_inside=len(inside), n_rows=len(rows))],
                    first_bad=first_bad, raised_text=raised)
    finally:
        shutil.rmtree(d, ignore_errors=True)
