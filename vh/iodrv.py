"""
C13 driver: round trips of real cases through the writers and readers.
"""
import math
import os
import shutil

import numpy as np

from .common import load_case, scratch_dir, sys_kwargs, andes_mod
from . import netbuild


def _table(ss):
    """{model: {idx: {param: value}}} of input-base values (vin for numbers)"""
    out = {}
    for name, mdl in ss.models.items():
        if mdl.n == 0:
            continue
        d = mdl.as_dict(vin=True)
        idxs = list(d["idx"]) if "idx" in d else (list(mdl.idx.v) if hasattr(mdl, "idx") else list(range(mdl.n)))
        rows = {}
        for k, i in enumerate(idxs):
            rows[repr(i)] = {p: d[p][k] for p in d if p not in ("uid",)}
        out[name] = rows
    return out


def _same_value(a, b):
    if isinstance(a, (list, tuple, np.ndarray)) or isinstance(b, (list, tuple, np.ndarray)):
        return list(np.ravel(a)) == list(np.ravel(b)) if not isinstance(a, str) and not isinstance(b, str) else a == b
    if a is None or b is None:
        return (a is None or (isinstance(a, float) and math.isnan(a))) and (b is None or (isinstance(b, float) and math.isnan(b)))
    if isinstance(a, (int, float, np.number)) and isinstance(b, (int, float, np.number)):
        a, b = float(a), float(b)
        return (math.isnan(a) and math.isnan(b)) or abs(a - b) <= 1e-12 * max(1.0, abs(a), abs(b))
    return str(a) == str(b)


def compare_tables(t1, t2):
    same_dev = (set(t1) == set(t2)) and all(set(t1[m]) == set(t2[m]) for m in t1 if m in t2)
    bad = []
    for m in t1:
        if m not in t2:
            bad.append("%s missing" % m)
            continue
        for i in t1[m]:
            if i not in t2[m]:
                bad.append("%s %s missing" % (m, i))
                continue
            for p, v in t1[m][i].items():
                if p not in t2[m][i] or not _same_value(v, t2[m][i][p]):
                    bad.append("%s %s.%s: %r -> %r" % (m, i, p, v, t2[m][i].get(p)))
    return same_dev, bad


def _solve(ss):
    ss.TDS.config.no_tqdm = 1
    pf = bool(ss.PFlow.run())
    sol = np.hstack([np.array(ss.Bus.a.v), np.array(ss.Bus.v.v)]) if pf else None
    init = None
    if pf and len(ss.exist.tds):
        try:
            ss.TDS.init()
            init = (ss.TDS.test_ok is True)
        except Exception as ex:
            init = "raised:%s" % type(ex).__name__
    return pf, sol, init


def roundtrip(sc):
    andes = andes_mod()
    d = scratch_dir("io")
    ev = []
    try:
        if "case" in sc:
            ss = load_case(sc["case"])
        else:
            ss, _, _ = netbuild.build(sc["spec"])
        if sc.get("alter"):
            for (m, p, idx, val) in sc["alter"]:
                ss.models[m].alter(p, idx, val)
        t1 = _table(ss)
        for fmt in sc["formats"]:
            rec = dict(e="rt", fmt=fmt, raised=False, same_devices=True, same_values=True, same_pflow=True, same_init=True)
            try:
                path = os.path.join(d, "dump_%s.%s" % (fmt.replace(">", "_"), fmt.split(">")[-1]))
                if ">" in fmt:       # chain, e.g. "xlsx>json": dump as xlsx, load, dump as json, load
                    first = fmt.split(">")[0]
                    p1 = os.path.join(d, "chain." + first)
                    andes.io.dump(ss, first, full_path=p1, overwrite=True)
                    mid = andes.load(p1, use_input_path=False, **sys_kwargs())
                    andes.io.dump(mid, fmt.split(">")[1], full_path=path, overwrite=True)
                else:
                    andes.io.dump(ss, fmt, full_path=path, overwrite=True)
                ss2 = andes.load(path, use_input_path=False, **sys_kwargs())
                if ss2 is None:
                    raise ValueError("load returned None")
                t2 = _table(ss2)
                same_dev, bad = compare_tables(t1, t2)
                rec["same_devices"] = bool(same_dev)
                rec["same_values"] = bool(not bad)
                rec["bad"] = bad[:6]
                if sc.get("solve", True):
                    ref = load_case(sc["case"]) if "case" in sc and not sc.get("alter") else None
                    if ref is None:
                        # the in-memory system itself is the reference (generated / altered): solve a reload of a json dump made before
                        ref = ss
                    pf1, sol1, init1 = _solve(ref) if ref is not ss else _solve_fresh(ss, sc)
                    pf2, sol2, init2 = _solve(ss2)
                    rec["same_pflow"] = bool(pf1 == pf2 and (not pf1 or (len(sol1) == len(sol2) and np.max(np.abs(sol1 - sol2)) <= 1e-8)))
                    rec["same_init"] = bool(init1 == init2)
            except Exception as ex:
                rec["raised"] = True
                rec["raised_text"] = "%s: %s" % (type(ex).__name__, str(ex)[:160])
            ev.append(rec)
    finally:
        shutil.rmtree(d, ignore_errors=True)
    return dict(sid=sc["sid"], ev=ev)


def _solve_fresh(ss, sc):
    """Reference solution of a generated / altered system: rebuild it the same way and solve."""
    if "case" in sc:
        ref = load_case(sc["case"])
    else:
        ref, _, _ = netbuild.build(sc["spec"])
    for (m, p, idx, val) in sc.get("alter", []):
        ref.models[m].alter(p, idx, val)
    return _solve(ref)


def matpower(sc):
    """system -> mpc -> system: equivalent static network (same power flow)."""
    andes = andes_mod()
    from andes.io.matpower import system2mpc, mpc2system
    ss = load_case(sc["case"])
    if sc.get("phase_shifter"):
        i = sc["phase_shifter"]
        ss.Line.alter("phi", ss.Line.idx.v[i], 0.1047)
        ss.Line.alter("trans", ss.Line.idx.v[i], 1) if hasattr(ss.Line, "trans") else None
    rec = dict(e="rt", fmt="mpc", raised=False, same_devices=True, same_values=True, same_pflow=True, same_init=True)
    try:
        pf1 = bool(ss.PFlow.run())
        sol1 = np.hstack([np.array(ss.Bus.a.v), np.array(ss.Bus.v.v)])
        mpc = system2mpc(ss)
        s2 = andes.System(**sys_kwargs())
        mpc2system(mpc, s2)
        s2.setup()
        pf2 = bool(s2.PFlow.run())
        sol2 = np.hstack([np.array(s2.Bus.a.v), np.array(s2.Bus.v.v)])
        rec["same_devices"] = bool(s2.Bus.n == ss.Bus.n and s2.Line.n == ss.Line.n and s2.PQ.n <= ss.PQ.n + ss.Bus.n)
        rec["same_pflow"] = bool(pf1 == pf2 and (not pf1 or (len(sol1) == len(sol2) and np.max(np.abs(sol1 - sol2)) <= 1e-6)))
        if not rec["same_pflow"] and pf1 and pf2 and len(sol1) == len(sol2):
            rec["bad"] = ["max |dV| = %g" % float(np.max(np.abs(sol1 - sol2)))]
    except Exception as ex:
        rec["raised"] = True
        rec["raised_text"] = "%s: %s" % (type(ex).__name__, str(ex)[:160])
    return dict(sid=sc["sid"], ev=[rec])


def task(sc):
    return matpower(sc) if sc["kind"] == "matpower" else roundtrip(sc)
