"""
C13 driver: round trips of real cases through the writers and readers.
"""
import math
import os
import shutil

import numpy as np

from .common import load_case, scratch_dir, sys_kwargs, andes_mod
from . import netbuild


def _table(ss):
    """{model: {idx: {param: value}}} of input-base values (vin for numbers)"""
    out = {}
    for name, mdl in ss.models.items():
        if mdl.n == 0:
            continue
        d = mdl.as_dict(vin=True)
        idxs = list(d["idx"]) if "idx" in d else (list(mdl.idx.v) if hasattr(mdl, "idx") else list(range(mdl.n)))
        rows = {}
        for k, i in enumerate(idxs):
            rows[repr(i)] = {p: d[p][k] for p in d if p not in ("uid",)}
        out[name] = rows
    return out


def _same_value(a, b):
    if isinstance(a, (list, tuple, np.ndarray)) or isinstance(b, (list, tuple, np.ndarray)):
        return list(np.ravel(a)) == list(np.ravel(b)) if not isinstance(a, str) and not isinstance(b, str) else a == b
    if a is None or b is None:
        return (a is None or (isinstance(a, float) and math.isnan(a))) and (b is None or (isinstance(b, float) and math.isnan(b)))
    # an index value that is a number in one system and text in the other names a different device (2 is not "2")
    if isinstance(a, (str, np.str_)) != isinstance(b, (str, np.str_)):
        return False
    if isinstance(a, (int, float, np.number)) and isinstance(b, (int, float, np.number)):
        a, b = float(a), float(b)
        return (math.isnan(a) and math.isnan(b)) or abs(a - b) <= 1e-12 * max(1.0, abs(a), abs(b))
    return str(a) == str(b)


def compare_tables(t1, t2):
    same_dev = (set(t1) == set(t2)) and all(set(t1[m]) == set(t2[m]) for m in t1 if m in t2)
    bad = []
    for m in t1:
        if m not in t2:
            bad.append("%s missing" % m)
            continue
        for i in t1[m]:
            if i not in t2[m]:
                bad.append("%s %s missing" % (m, i))
                continue
            for p, v in t1[m][i].items():
                if p not in t2[m][i] or not _same_value(v, t2[m][i][p]):
                    bad.append("%s %s.%s: %r -> %r" % (m, i, p, v, t2[m][i].get(p)))
    return same_dev, bad


def _solve(ss):
    ss.TDS.config.no_tqdm = 1
    pf = bool(ss.PFlow.run())
    sol = np.hstack([np.array(ss.Bus.a.v), np.array(ss.Bus.v.v)]) if pf else None
    init = None
    if pf and len(ss.exist.tds):
        try:
            ss.TDS.init()
            init = (ss.TDS.test_ok is True)
        except Exception as ex:
            init = "raised:%s" % type(ex).__name__
    return pf, sol, init


def roundtrip(sc):
    andes = andes_mod()
    d = scratch_dir("io")
    ev = []
    try:
        if "case" in sc:
            ss = load_case(sc["case"])
        else:
            ss, _, _ = netbuild.build(sc["spec"])
        if sc.get("alter"):
            for (m, p, idx, val) in sc["alter"]:
                ss.models[m].alter(p, idx, val)
        t1 = _table(ss)
        for fmt in sc["formats"]:
            rec = dict(e="rt", fmt=fmt, raised=False, same_devices=True, same_values=True, same_pflow=True, same_init=True)
            try:
                path = os.path.join(d, "dump_%s.%s" % (fmt.replace(">", "_"), fmt.split(">")[-1]))
                if ">" in fmt:       # chain, e.g. "xlsx>json": dump as xlsx, load, dump as json, load
                    first = fmt.split(">")[0]
                    p1 = os.path.join(d, "chain." + first)
                    andes.io.dump(ss, first, full_path=p1, overwrite=True)
                    mid = andes.load(p1, use_input_path=False, **sys_kwargs())
                    andes.io.dump(mid, fmt.split(">")[1], full_path=path, overwrite=True)
                else:
                    andes.io.dump(ss, fmt, full_path=path, overwrite=True)
                ss2 = andes.load(path, use_input_path=False, **sys_kwargs())
                if ss2 is None:
                    raise ValueError("load returned None")
                t2 = _table(ss2)
                same_dev, bad = compare_tables(t1, t2)
                rec["same_devices"] = bool(same_dev)
                rec["same_values"] = bool(not bad)
                rec["bad"] = bad[:6]
                if sc.get("solve", True):
                    ref = load_case(sc["case"]) if "case" in sc and not sc.get("alter") else None
                    if ref is None:
                        # the in-memory system itself is the reference (generated / altered): solve a reload of a json dump made before
                        ref = ss
                    pf1, sol1, init1 = _solve(ref) if ref is not ss else _solve_fresh(ss, sc)
                    pf2, sol2, init2 = _solve(ss2)
                    rec["same_pflow"] = bool(pf1 == pf2 and (not pf1 or (len(sol1) == len(sol2) and np.max(np.abs(sol1 - sol2)) <= 1e-8)))
                    rec["same_init"] = bool(init1 == init2)
            except Exception as ex:
                rec["raised"] = True
                rec["raised_text"] = "%s: %s" % (type(ex).__name__, str(ex)[:160])
            ev.append(rec)
    finally:
        shutil.rmtree(d, ignore_errors=True)
    return dict(sid=sc["sid"], ev=ev)


def _solve_fresh(ss, sc):
    """Reference solution of a generated / altered system: rebuild it the same way and solve."""
    if "case" in sc:
        ref = load_case(sc["case"])
    else:
        ref, _, _ = netbuild.build(sc["spec"])
    for (m, p, idx, val) in sc.get("alter", []):
        ref.models[m].alter(p, idx, val)
    return _solve(ref)


def matpower(sc):
    """system -> mpc -> system: equivalent static network (same power flow)."""
    andes = andes_mod()
    from andes.io.matpower import system2mpc, mpc2system
    if sc.get("spec"):
        ss, _, _ = netbuild.build(sc["spec"])
    else:
        ss = load_case(sc["case"])
    if sc.get("phase_shifter"):
        i = sc["phase_shifter"]
        ss.Line.alter("phi", ss.Line.idx.v[i], 0.1047)
        ss.Line.alter("trans", ss.Line.idx.v[i], 1) if hasattr(ss.Line, "trans") else None
    rec = dict(e="rt", fmt="mpc", raised=False, same_devices=True, same_values=True, same_pflow=True, same_init=True)
    try:
        pf1 = bool(ss.PFlow.run())
        sol1 = np.hstack([np.array(ss.Bus.a.v), np.array(ss.Bus.v.v)])
        mpc = system2mpc(ss)
        s2 = andes.System(**sys_kwargs())
        mpc2system(mpc, s2)
        s2.setup()
        pf2 = bool(s2.PFlow.run())
        sol2 = np.hstack([np.array(s2.Bus.a.v), np.array(s2.Bus.v.v)])
        rec["same_devices"] = bool(s2.Bus.n == ss.Bus.n and s2.Line.n == ss.Line.n and s2.PQ.n <= ss.PQ.n + ss.Bus.n)
        rec["same_pflow"] = bool(pf1 == pf2 and (not pf1 or (len(sol1) == len(sol2) and np.max(np.abs(sol1 - sol2)) <= 1e-6)))
        if not rec["same_pflow"] and pf1 and pf2 and len(sol1) == len(sol2):
            rec["bad"] = ["max |dV| = %g" % float(np.max(np.abs(sol1 - sol2)))]
    except Exception as ex:
        rec["raised"] = True
        rec["raised_text"] = "%s: %s" % (type(ex).__name__, str(ex)[:160])
    return dict(sid=sc["sid"], ev=[rec])




def _raw_cz_variant(src, dst, which, sbase_new):
    """Copy a PSS/E v33 raw file, putting the ``which``-th two-winding transformer that is entered on the system base (CZ = 1)
    on its winding base instead (CZ = 2, SBASE1-2 = sbase_new) with R1-2 / X1-2 scaled so that it is the same physical branch.
    Returns (from bus, to bus) or None when the file has no such transformer."""
    lines = open(src).read().splitlines()
    start = next((i + 1 for i, ln in enumerate(lines) if "begin transformer data" in ln.lower()), None)
    if start is None:
        return None
    i = start
    recs = []
    while i < len(lines):
        ln = lines[i]
        if ln.strip().startswith("0 /") or ln.strip().startswith("Q"):
            break
        f = [x.strip() for x in ln.split(",")]
        try:
            k = int(float(f[2]))
        except (ValueError, IndexError):
            break
        nl = 4 if k == 0 else 5
        if k == 0 and int(float(f[5])) == 1:
            recs.append(i)
        i += nl
    if not recs:
        return None
    at = recs[which % len(recs)]
    f1 = lines[at].split(",")
    f1[5] = "2"
    lines[at] = ",".join(f1)
    f2 = [float(x) for x in lines[at + 1].split("/")[0].split(",")[:3]]
    scale = sbase_new / f2[2]
    lines[at + 1] = " %.10E, %.10E, %10.3f" % (f2[0] * scale, f2[1] * scale, sbase_new)
    open(dst, "w").write("\n".join(lines) + "\n")
    return int(float(f1[0])), int(float(f1[1]))


def _raw_zip_variant(src, dst, which, a, g, b, y):
    """Copy a PSS/E v33 raw file, writing the ``which``-th load as a mix of constant power, current and admittance parts that
    draws the same power at the voltage given in the file (PSS/E: P = PL + IP v + YP v^2, Q = QL + IQ v - YQ v^2, YQ negative
    for an inductive load).  Returns the bus number or None."""
    lines = open(src).read().splitlines()
    vm = {}
    i = 3
    while i < len(lines) and not lines[i].strip().startswith("0 /"):
        f = [x.strip() for x in lines[i].split(",")]
        try:
            vm[int(f[0])] = float(f[7])
        except (ValueError, IndexError):
            pass
        i += 1
    start = next((k + 1 for k, ln in enumerate(lines) if "begin load data" in ln.lower()), None)
    if start is None:
        return None
    recs = []
    k = start
    while k < len(lines) and not lines[k].strip().startswith("0 /"):
        recs.append(k)
        k += 1
    if not recs:
        return None
    at = recs[which % len(recs)]
    f = lines[at].split(",")
    bus = int(f[0])
    v = vm.get(bus)
    if v is None:
        return None
    pl, ql = float(f[5]), float(f[6])
    f[5] = " %.9f" % (pl - a * v - g * v * v)
    f[6] = " %.9f" % (ql - b * v + y * v * v)
    f[7], f[8], f[9], f[10] = " %.9f" % a, " %.9f" % b, " %.9f" % g, " %.9f" % y
    lines[at] = ",".join(f)
    open(dst, "w").write("\n".join(lines) + "\n")
    return bus


def raw_variants(sc):
    """One network written in two ways in the PSS/E format (a transformer's impedance on the system base or on its winding
    base): the two files are one system - same per-unit branch data, same power flow."""
    andes = andes_mod()
    from .common import case_path
    d = scratch_dir("raw")
    ev = []
    try:
        src = case_path(sc["case"])
        ref = andes.load(src, **sys_kwargs())
        pf0, sol0, _ = _solve(ref)
        for which, sb in list(sc["variants"]) + [("zip", k_) for k_ in range(sc.get("zip_variants", 0))]:
            rec = dict(e="rt", fmt="raw", raised=False, same_devices=True, same_values=True, same_pflow=True, same_init=True)
            try:
                if which == "zip":
                    dst = os.path.join(d, "zip%d.raw" % sb)
                    mix = [(5.0, 2.0, 1.5, -3.0), (0.0, 4.0, -2.0, 2.5), (3.0, 0.0, 0.0, -1.25)][sb % 3]
                    pair = _raw_zip_variant(src, dst, 2 * sb + 1, *mix)
                    if pair is None:
                        continue
                    ss2 = andes.load(dst, **sys_kwargs())
                    bad = []
                    for name in ("p0", "q0"):
                        v0_ = np.asarray(ref.PQ.__dict__[name].v, dtype=float)
                        v1_ = np.asarray(ss2.PQ.__dict__[name].v, dtype=float) if ss2 is not None and ss2.PQ.n == ref.PQ.n else None
                        if v1_ is None or not np.allclose(v0_, v1_, rtol=1e-7, atol=1e-9):
                            bad.append("PQ.%s differs for the load on bus %s written as a constant power / current / admittance mix" % (name, pair))
                    rec["same_values"] = bool(not bad)
                    rec["bad"] = bad
                    ev.append(rec)
                    continue
                dst = os.path.join(d, "v%d_%d.raw" % (which, int(sb)))
                pair = _raw_cz_variant(src, dst, which, float(sb))
                if pair is None:
                    continue
                ss2 = andes.load(dst, **sys_kwargs())
                rec["same_devices"] = bool(ss2 is not None and ss2.Line.n == ref.Line.n and ss2.Bus.n == ref.Bus.n)
                bad = []
                if rec["same_devices"]:
                    for name in ("r", "x", "b", "tap", "phi"):
                        v0 = np.asarray(ref.Line.__dict__[name].v, dtype=float)
                        v1 = np.asarray(ss2.Line.__dict__[name].v, dtype=float)
                        if not np.allclose(v0, v1, rtol=1e-7, atol=1e-12):
                            k = int(np.argmax(np.abs(v0 - v1)))
                            bad.append("Line.%s of branch %s-%s: %r (system-base entry) vs %r (winding-base entry of transformer %s-%s)" % (
                                name, ref.Line.bus1.v[k], ref.Line.bus2.v[k], float(v0[k]), float(v1[k]), pair[0], pair[1]))
                    pf2, sol2, _ = _solve(ss2)
                    rec["same_pflow"] = bool(pf0 == pf2 and (not pf0 or (len(sol0) == len(sol2) and np.max(np.abs(sol0 - sol2)) <= 1e-6)))
                rec["same_values"] = bool(not bad)
                rec["bad"] = bad[:4]
            except Exception as ex:
                rec["raised"] = True
                rec["raised_text"] = "%s: %s" % (type(ex).__name__, str(ex)[:160])
            ev.append(rec)
    finally:
        shutil.rmtree(d, ignore_errors=True)
    return dict(sid=sc["sid"], ev=ev)


def source(sc):
    """The parsed element data agree with an independent reading of the source file (vh/srcread.py): the file - and variants of
    it that put documented record fields to use which the stock files leave at their defaults - is read by the library and
    solved; the reported bus voltages must balance the network that the independent reader takes from the same file."""
    andes = andes_mod()
    from . import srcread
    from .common import case_path
    d = scratch_dir("src")
    ev = []
    try:
        todo = [[]] + [list(k) for k in sc.get("variants", [])] if sc.get("case") else []
        todo += [("mpc", seed_, base_) for seed_, base_ in sc.get("generated_mpc", [])]
        for kinds in todo:
            gen = isinstance(kinds, tuple)
            rec = dict(e="src", fmt=("mpc" if gen or sc["case"].endswith(".m") else "raw"),
                       variant=("generated seed=%d baseMVA=%g" % kinds[1:] if gen else "+".join("%s%d" % (k, w) for k, w in kinds) or "as shipped"),
                       raised=False, converged=True, balanced=True, decided=True)
            what = []
            if gen:
                path = os.path.join(d, "gen%d.m" % kinds[1])
                what.append(srcread.write_matpower(path, kinds[1], kinds[2]))
                kinds = []
            else:
                path = case_path(sc["case"])
            try:
                for j, (kind, which) in enumerate(kinds):
                    dst = os.path.join(d, "v%d_%d.raw" % (len(ev), j))
                    w = srcread.raw_variant(path, dst, kind, which)
                    if w is None:
                        path = None
                        break
                    what.append(w)
                    path = dst
                if path is None:
                    continue
                rec["what"] = what
                net = srcread.read_source(path)
                ss = andes.load(path, **sys_kwargs())
                if ss is None:
                    raise RuntimeError("andes.load returned None")
                ss.PFlow.config.max_iter = 40
                rec["converged"] = bool(ss.PFlow.run())
                if rec["converged"]:
                    V = {idx: ss.Bus.v.v[k] * np.exp(1j * ss.Bus.a.v[k]) for k, idx in enumerate(ss.Bus.idx.v)}
                    r = srcread.source_balance(net, V, tol=float(ss.PFlow.config.tol))
                    rec["balanced"] = bool(not r["bad"])
                    rec["decided"] = bool(not r["undecided"])
                    if r["undecided"]:
                        rec["balanced"] = True            # elements the independent reader does not model: nothing is demanded
                    rec["checked"] = r["checked"]
                    rec["undecided"] = r["undecided"][:5]
                    rec["bad"] = r["bad"][:6]
                    gbad = srcread.compare_generators(ss, net)
                    if gbad:
                        rec["balanced"] = False
                        rec["bad"] = (rec.get("bad") or []) + gbad[:3]
                    rec["same_buses"] = bool(all(n in V for n in net["buses"]))
                    rec["balanced"] = rec["balanced"] and rec["same_buses"]
            except Exception as ex:
                rec["raised"] = True
                rec["raised_text"] = "%s: %s" % (type(ex).__name__, str(ex)[:160])
            ev.append(rec)
    finally:
        shutil.rmtree(d, ignore_errors=True)
    return dict(sid=sc["sid"], ev=ev)


def source_dyr(sc):
    """raw + dyr read by the library; every record of the dyr file whose model layout vh/srcread.py knows (transcribed from the
    PSS/E model documentation) must be carried, value by value, by a device attached to the machine the record names."""
    andes = andes_mod()
    from . import srcread
    from .common import case_path
    rec = dict(e="src", fmt="dyr", variant=sc["dyr"] + ("|remote buses" if sc.get("remote") else ""), raised=False, converged=True, balanced=True, decided=True)
    d = scratch_dir("dyr")
    try:
        dyr_path = case_path(sc["dyr"])
        if sc.get("remote"):
            dst = os.path.join(d, "v.dyr")
            what = srcread.dyr_variant(dyr_path, dst)
            if what is None:
                return dict(sid=sc["sid"], ev=[])
            rec["what"] = [what]
            dyr_path = dst
        ss = andes.load(case_path(sc["case"]), addfile=dyr_path, setup=True, **sys_kwargs())
        if ss is None:
            raise RuntimeError("andes.load returned None")
        r = srcread.compare_dyr(ss, dyr_path)
        rec["balanced"] = bool(not r["bad"])
        rec["checked"] = r["checked"]
        rec["bad"] = r["bad"][:6]
        rec["undecided"] = ["%d record(s) of %s" % (n, m) for m, n in sorted(r["skipped"].items())]
        rec["decided"] = bool(not r["skipped"])
    except Exception as ex:
        rec["raised"] = True
        rec["raised_text"] = "%s: %s" % (type(ex).__name__, str(ex)[:160])
    finally:
        shutil.rmtree(d, ignore_errors=True)
    return dict(sid=sc["sid"], ev=[rec])


def task(sc):
    if sc["kind"] == "source":
        return source(sc)
    if sc["kind"] == "dyr":
        return source_dyr(sc)
    if sc["kind"] == "raw":
        return raw_variants(sc)
    return matpower(sc) if sc["kind"] == "matpower" else roundtrip(sc)
