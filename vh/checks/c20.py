"""
C20 - the configuration in effect is the one the user supplied.

1. TLC: Config.tla - the constructor's channel order (file -> option into the parser -> dictionary first for the
   System section -> load without overwriting -> defaults without overwriting -> check) is model-checked for
   EffectiveIsSupplied (dictionary > option > file > default) and OutOfAlternativesRejected.
2. M1/M2: the field list is read from the running code (System, every routine, every model); every channel
   combination (TLC-enumerated) is applied to a real System carrying all fields at once, plus per-field singles
   (valid value / value outside the declared alternatives, through each channel) and malformed option strings;
   save_config -> new System round trips (also after a run-time edit).  TLC validates the records (Trace_Config).
"""
import json
import os
import random
import shutil

from ..common import scratch_dir, NCPU, seed
from ..pool import run_tasks
from ..report import Report
from ..tlc import run_tlc
from .. import tracecheck, confdrv

PID = "C20"


def run(tier):
    rep = Report(PID, tier)
    quick = tier == "quick"
    rnd = random.Random("c20-%d" % seed())
    r = run_tlc("Config", "MC_Config.cfg", timeout=600)
    rep.add_tlc(r, "Config (channel precedence design)")
    if r["machinery_ok"] and r["violation"]:
        rep.note("design-level counterexample in Config: %s" % r["violation"])
    d = scratch_dir("cfs")
    try:
        out = os.path.join(d, "c.json")
        r = run_tlc("Scen_Config", "Scen_Config.cfg", workers=1, timeout=300, env={"OUT": out})
        rep.add_tlc(r, "Scen_Config (channel combinations)")
        sp = json.load(open(out))
    finally:
        shutil.rmtree(d, ignore_errors=True)
    fields = [f for f in confdrv.field_list() if (f["section"], f["key"]) not in confdrv.SKIP
              and isinstance(f["default"], (int, float, str)) and not isinstance(f["default"], bool)]
    rep.extra["fields_total"] = len(fields)
    usable = [f for f in fields if confdrv.pick_value(f, "valid", 0) != f["default"]]
    rep.extra["fields_with_distinguishable_value"] = len(usable)
    scs = []
    for k, c in enumerate(sorted(sp["combos"], key=lambda c: json.dumps(c, sort_keys=True))):
        if not (c["file"] or c["option"] or c["dict"]):
            continue
        scs.append(dict(mode="combo", sid="combo[file=%d|option=%d|dict=%d]" % (c["file"], c["option"], c["dict"]),
                        file=c["file"], option=c["option"], dict=c["dict"], fields=usable, roundtrip=True,
                        runtime_edit=(k % 2 == 0), opt_from=k % 2, opt_step=2))
    scs.append(dict(mode="combo", sid="combo[defaults]", file=False, option=False, dict=False, fields=usable, roundtrip=True))
    for w in sorted(sp["malformed"]):
        scs.append(dict(mode="malformed", what=w, sid="malformed[%s]" % w))
    scs.append(dict(mode="multi_option", sid="options[same section / absent section]"))
    scs.append(dict(mode="rc_discovery", sid="rc_discovery[working-directory-before-home]"))
    scs.append(dict(mode="shared_rc", sid="shared_rc[option then plain then saved, one path, one process]"))
    with_alt = [f for f in fields if f["alts"] is not None]
    singles = list(usable)
    rnd.shuffle(singles)
    rnd.shuffle(with_alt)
    for k, f in enumerate(singles[:60 if quick else len(singles)]):
        ch = ["file", "option", "dict"][k % 3] if f["section"] == "System" else ["file", "option"][k % 2]
        scs.append(dict(mode="single", field=f, kind="valid", channel=ch, sid="single[%s.%s|%s|valid]" % (f["section"], f["key"], ch)))
        if k % 3 == 0:
            scs.append(dict(mode="single", field=f, kind="valid", channel="update", sid="single[%s.%s|update|valid]" % (f["section"], f["key"])))
    for k, f in enumerate(with_alt[:50 if quick else len(with_alt)]):
        for ch in ((["file", "option"][k % 2:k % 2 + 1] + ["update"]) if quick else ["file", "option", "update"]):
            scs.append(dict(mode="single", field=f, kind="out_of_alternatives", channel=ch,
                            sid="single[%s.%s|%s|out_of_alternatives]" % (f["section"], f["key"], ch)))
    for i, sc in enumerate(scs):
        sc["tid"] = i + 1
    res = run_tasks("vh.confdrv:run_any", scs, nproc=NCPU, timeout=600)
    traces = [x["result"] for x in res if x["status"] == "ok"]
    verdicts, tl = tracecheck.validate(traces, "Trace_Config")
    for t in tl:
        rep.add_tlc(t, "Trace_Config")
    nfield = 0
    for sc, x in zip(scs, res):
        rep.count()
        if x["status"] != "ok":
            if x["status"] == "exc":
                rep.machinery("driver exception in %s" % sc["sid"], x.get("error", "")[-1500:])
            else:
                rep.note("%s ended with %s" % (sc["sid"], x["status"]))
            continue
        v = verdicts.get(sc["tid"])
        if v is None:
            rep.machinery("trace %s not consumed" % sc["sid"])
            continue
        rep.traces += 1
        rep.nontriv(sc["sid"])
        evs = x["result"]["ev"]
        nfield += sum(1 for e in evs if e["e"] == "field")
        for cl in v["viol"]:
            detail = [e for e in evs if (e["e"] == "field" and e["veff"] != (e["vdict"] if e["is_system"] and e["vdict"] != "none" else
                                                                           e["vopt"] if e["vopt"] != "none" else e["vfile"] if e["vfile"] != "none" else e["vdef"]))
                      or e["e"] in ("reject", "accept", "roundtrip")][:6]
            rep.violation("%s:%s" % (cl, sc["sid"]), "clause %s fails in %s" % (cl, sc["sid"]),
                          replay=dict(scenario={k: v for k, v in sc.items() if k != "fields"}, detail=detail))
    rep.extra["field_observations"] = nfield
    ok = [x for x in res if x["status"] == "ok"]
    if ok:
        rep.sample(dict(sid=scs[0]["sid"], first_records=ok[0]["result"]["ev"][:4]))
    # the effect of a supplied value, not only its read-back: a fixed step supplied through an option is the step the simulation takes
    from .. import tdsfam
    eff = [dict(sid="effect[TDS.tstep=%g through an option]" % ts, case="kundur/kundur_full.json", family="fixedstep", segs=[1.0], events=[],
                load_kw=dict(config_option=["TDS.tstep=%g" % ts, "TDS.fixt=1"]), tds=dict(no_tqdm=1)) for ts in (0.05, 0.1)]
    outs = tdsfam.run_and_validate(eff, rep, timeout=600, label="effect of a supplied step size")
    tdsfam.judge(PID, outs, rep)
    rep.rule = ("channel combination (TLC-enumerated) x every configurable field with a distinguishable value; per-field singles through "
                "each channel with valid values and values outside the declared alternatives; malformed options; save/load round trips")
    rep.assume("never reads ~/.andes/andes.rc: config_path is explicit or default_config=True")
    rep.assume("fields whose change has side effects on the host (numba, dime, seed, numpy error state, plotting, reports) are excluded")
    return rep.finish()


def replay(path):
    d = json.load(open(path))
    print(json.dumps(d, indent=1)[:3000])
    return 0
