"""
C08 - eigenvalue analysis reports the true small-signal modes of the DAE.

1. TLC: EigReduce.tla defines the reduction by one-shot block elimination over exact rationals (zero-time-constant
   states algebraic), the exact reduced matrix and the exact coefficients of its characteristic polynomial for every
   enumerated (fx, fy, gx, gy, T) with a zero time constant at every position.
2. M3: the matrices are written into the dae of a real System and EIG.calc_As / calc_pfactor / _store_stats are run:
   As equals the exact matrix, every reported eigenvalue is a root of the exact characteristic polynomial and their
   number is the number of remaining states, names are those of the remaining states, the three counts partition the
   eigenvalues, participation factors are non-negative, sum to one per mode, name the right state for decoupled systems.
3. M2: EIG.run on stock cases: As and eigenvalues against a dense block elimination, counts, participation sums.
   TLC validates all records (Trace_Eig).
"""
import json
import os
import shutil

from ..common import scratch_dir, NCPU
from ..pool import run_tasks
from ..report import Report
from ..tlc import run_tlc
from .. import tracecheck
from .c10 import stock_cases

PID = "C08"
QUICK = ["kundur/kundur_full.json", "kundur/kundur_exdc2_zero_tb.xlsx", "ieee14/ieee14_full.xlsx", "5bus/pjm5bus.json",
         "ieee14/ieee14_fault.json", "kundur/kundur_aw.json"]


ALTER_QUICK = ["kundur/kundur_full.json", "ieee14/ieee14_solar.xlsx", "kundur/kundur_exdc2_zero_tb.xlsx", "ieee14/ieee14_full.xlsx"]


def run(tier):
    rep = Report(PID, tier)
    quick = tier == "quick"
    d = scratch_dir("eg")
    try:
        out = os.path.join(d, "e.json")
        r = run_tlc("EigReduce", "EigReduce.cfg", workers=1, timeout=1800, env={"OUT": out})
        rep.add_tlc(r, "EigReduce (exact reduction and characteristic polynomials)")
        if not os.path.exists(out):
            rep.machinery("EigReduce enumeration failed", r["out"][-1500:])
            return rep.finish()
        cases = json.load(open(out))["cases"]
    finally:
        shutil.rmtree(d, ignore_errors=True)
    cases.sort(key=lambda c: json.dumps(c, sort_keys=True))
    for i, c in enumerate(cases):
        c["id"] = i
    rep.states += len(cases)
    chunks = [cases[i::NCPU] for i in range(NCPU)]
    res = run_tasks("vh.eigdrv:run_cases", [dict(cases=ch) for ch in chunks if ch], nproc=NCPU, timeout=900)
    recs = []
    for x in res:
        if x["status"] == "ok":
            recs += x["result"]
        else:
            rep.machinery("lattice worker %s" % x["status"], x.get("error", "")[-1000:])
    traces = []
    for k, rec in enumerate(recs):
        rr = dict(rec)
        rr.pop("raised_text", None)
        traces.append(dict(meta=dict(tid=k + 1, sid="lattice%d" % rec["id"]), ev=[rr]))
    stock = QUICK if quick else [c for c in stock_cases()]
    stasks = [dict(case=c) for c in stock] + [dict(case=c, alter=True) for c in (ALTER_QUICK if quick else stock)]
    stasks += [dict(case=c, flow=f) for c in (ALTER_QUICK if quick else [c_ for c_ in stock if not c_.startswith(("ei/", "GBnetwork/"))][:25]) for f in ("init_first_untested", "init_first", "plain_untested")]
    sres = run_tasks("vh.eigdrv:stock_case", stasks, nproc=NCPU, timeout=900)
    srecs = []
    for c, x in zip([t["case"] + ("|after alter" if t.get("alter") else "") + ("|" + t["flow"] if t.get("flow") else "") for t in stasks], sres):
        if x["status"] == "ok" and "skipped" not in x["result"]:
            r_ = x["result"]
            srecs.append(r_)
            traces.append(dict(meta=dict(tid=len(traces) + 1, sid="stock:" + c),
                               ev=[dict(raised=False, shape_ok=r_["shape_ok"], as_ok=r_["as_ok"] and r_["tf_current"], count_ok=r_["count_ok"],
                                        roots_ok=r_["eig_ok"], names_ok=r_["names_ok"], counts_partition=r_["counts_partition"],
                                        counts_ok=r_["counts_ok"], pf_nonneg=r_["pf_nonneg"], pf_sum_ok=r_["pf_sum_ok"],
                                        pf_argmax_ok=True, id=-1)]))
        elif x["status"] != "ok":
            rep.note("stock case %s: EIG not observed (%s)" % (c, x["status"] if x["status"] != "exc" else x.get("error", "").strip().splitlines()[-1][:120]))
    # parameter sweeps (EIG.sweep): every sweep point against a fresh System carrying that value
    sw = [dict(case="kundur/kundur_full.json", param="GENROU.M"), dict(case="kundur/kundur_full.json", param="GENROU.M", run_first=False),
          dict(case="kundur/kundur_full.json", param="EXDC2.TA"), dict(case="ieee14/ieee14_full.xlsx", param="TGOV1.T1")]
    if not quick:
        sw += [dict(case="kundur/kundur_full.json", param="GENROU.D", tol=1e-5), dict(case="ieee14/ieee14_full.xlsx", param="GENROU.Td10"),
               dict(case="wscc9/wscc9.xlsx", param="GENCLS.M"), dict(case="ieee14/ieee14_solar.xlsx", param="REGCA1.Tg")]
    for t, x in zip(sw, run_tasks("vh.eigdrv:sweep_case", sw, nproc=NCPU, timeout=900)):
        sid = "sweep:%s|%s%s" % (t["case"], t["param"], "" if t.get("run_first", True) else "|no run first")
        if x["status"] != "ok" or "skipped" in x["result"]:
            rep.note("%s not observed (%s)" % (sid, x["status"] if x["status"] != "ok" else x["result"]["skipped"]))
            continue
        r_ = x["result"]
        rep.count()
        traces.append(dict(meta=dict(tid=len(traces) + 1, sid=sid),
                           ev=[dict(raised=bool(r_.get("raised")), shape_ok=True, as_ok=True, count_ok=True, roots_ok=bool(r_["ok"]), names_ok=True,
                                    counts_partition=True, counts_ok=True, pf_nonneg=True, pf_sum_ok=True, pf_argmax_ok=True, id=-1)]))
        rep.extra.setdefault("sweeps", {})[sid] = dict(worst=r_.get("worst"), detail=r_.get("detail"))
    verdicts, tl = tracecheck.validate(traces, "Trace_Eig")
    for t in tl:
        rep.add_tlc(t, "Trace_Eig")
    seen = set()
    for tr in traces:
        rep.count()
        v = verdicts.get(tr["meta"]["tid"])
        if v is None:
            rep.machinery("trace %s not consumed" % tr["meta"]["sid"])
            continue
        rep.traces += 1
        sid = tr["meta"]["sid"]
        if sid.startswith("lattice"):
            c = cases[tr["ev"][0]["id"]]
            rep.nontriv("z=%s|%s" % (c["zero"], sid))
            cls = "zeroT@%s" % (",".join(map(str, c["zero"])) or "none")
        else:
            rep.nontriv(sid)
            cls = sid
        for cl in v["viol"]:
            key = "%s:%s" % (cl, cls)
            if key in seen:
                continue
            seen.add(key)
            rep.violation(key, "clause %s fails for %s" % (cl, sid),
                          replay=dict(record=tr["ev"][0], case=(cases[tr["ev"][0]["id"]] if sid.startswith("lattice") else sid)))
    rep.extra["lattice_cases"] = len(cases)
    rep.extra["zero_T_positions"] = sorted({json.dumps(c["zero"]) for c in cases})
    rep.extra["time_constants_altered_before_reanalysis"] = sorted({a for r_ in srecs for a in r_.get("altered", [])})
    rep.extra["stock_cases_with_zero_T"] = [r_["case"] for r_ in srecs if r_.get("nzero_T")]
    rep.sample(dict(lattice_case=cases[3]))
    rep.exhaustive = True
    rep.rule = ("every (fx, fy, gx, gy, T) of the EigReduce grid (n = 3, m = 1, a zero time constant at each position or none), all "
                "evaluated; stock cases; non-trivial = every lattice case / stock case")
    rep.assume("eigenvalues are compared through the exact characteristic polynomial at 1e-7 relative; participation sums at 1e-3 "
               "(the routine rounds to 5 decimals)")
    return rep.finish()


def replay(path):
    print(open(path).read()[:3000])
    return 0
