"""
C19 - cross-references between devices are resolved completely or rejected.

1. TLC: Build.tla (get_next_idx / group registry) - IdxUniqueInGroup, ExplicitFreeIdxKept, AutoIdxNamesOwnModel for
   all add sequences within MaxAdds, including explicit idx values that look like automatic ones.
2. M1/M2: add sequences over the two models of the StaticGen group (TLC-enumerated: model x requested idx
   in {none, 1, 2, "1", "PV_1", "PV_2", "Slack_2"}, length <= 3) x referrer patterns (none / one / two on one
   target / one each) x dangling reference x helper-device patterns (PVD1 -> BusFreq through DeviceFinder)
   are executed on a real System; registry, lookups by field value through group and models, back-reference
   lists, helper devices and the outcome of set-up are recorded and validated by TLC (Trace_Build).
"""
import json
import os
import random
import shutil

from ..common import scratch_dir, NCPU, seed
from ..pool import run_tasks
from ..report import Report
from ..tlc import run_tlc
from .. import tracecheck

PID = "C19"


def space(rep):
    d = scratch_dir("bd")
    try:
        out = os.path.join(d, "b.json")
        r = run_tlc("Scen_Build", "Scen_Build.cfg", workers=1, timeout=600, env={"OUT": out})
        rep.add_tlc(r, "Scen_Build (add sequences)")
        data = json.load(open(out))
    finally:
        shutil.rmtree(d, ignore_errors=True)
    data["adds"].sort(key=lambda a: json.dumps(a, sort_keys=True))
    return data


def run(tier):
    rep = Report(PID, tier)
    quick = tier == "quick"
    rnd = random.Random("c19-%d" % seed())
    r = run_tlc("MC_Build", "MC_Build.cfg", timeout=900)
    rep.add_tlc(r, "MC_Build (registry / automatic idx design)")
    if r["machinery_ok"] and r["violation"]:
        rep.note("design-level counterexample in Build: %s" % r["violation"])
    sp = space(rep)
    adds = list(sp["adds"])
    rep.extra["add_sequences_total"] = len(adds)
    short = [a for a in adds if len(a) <= 2]
    long_ = [a for a in adds if len(a) > 2]
    rnd.shuffle(long_)
    chosen = short + long_[:(240 if quick else len(long_))]
    if quick:
        rnd.shuffle(short)
        chosen = short[:160] + long_[:240]
    refs = sorted(sp["refs"])
    helpers = sorted(sp["helpers"])
    scs = []
    for k, a in enumerate(chosen):
        scs.append(dict(sid="add[%s|ref=%s|dangling=%d|helpers=%s]" % (
            ",".join("%s:%s" % (o["model"], o["req"]) for o in a), refs[k % len(refs)], (1 if k % 7 == 3 else (2 if k % 7 == 5 and refs[k % len(refs)] != "none" else 0)), helpers[k % len(helpers)]),
            adds=a, refs=refs[k % len(refs)], dangling=(1 if k % 7 == 3 else (2 if k % 7 == 5 and refs[k % len(refs)] != "none" else 0)),
            helpers=helpers[k % len(helpers)],
            reset_after=(k % 3 == 0)))
    for i, sc in enumerate(scs):
        sc["tid"] = i + 1
    res = run_tasks("vh.builddrv:run_build", scs, nproc=NCPU, timeout=300)
    traces = [x["result"] for x in res if x["status"] == "ok"]
    verdicts, tl = tracecheck.validate(traces, "Trace_Build")
    for t in tl:
        rep.add_tlc(t, "Trace_Build")
    for sc, x in zip(scs, res):
        rep.count()
        if x["status"] != "ok":
            if x["status"] == "exc":
                rep.machinery("driver exception in %s" % sc["sid"], x.get("error", "")[-1500:])
            else:
                rep.note("scenario %s ended with %s" % (sc["sid"], x["status"]))
            continue
        v = verdicts.get(sc["tid"])
        if v is None:
            rep.machinery("trace %s not consumed" % sc["sid"])
            continue
        rep.traces += 1
        if len(sc["adds"]) > 1 or sc["refs"] != "none" or sc["helpers"] != "none":
            rep.nontriv(sc["sid"])
        for cl in v["viol"]:
            rep.violation("%s:%s" % (cl, sc["sid"]), "clause %s fails for %s" % (cl, sc["sid"]),
                          replay=dict(scenario=sc, events=[e for e in x["result"]["ev"] if e["e"] != "lookup"][:6]))
    ok = [x for x in res if x["status"] == "ok"]
    if ok:
        rep.sample(dict(sid=scs[0]["sid"], events=ok[0]["result"]["ev"][:3]))
    rep.rule = ("add sequence (TLC-enumerated, length <= 3; %s) x referrer pattern x dangling x helper pattern; non-trivial = more "
                "than one StaticGen device, or referrers, or helper devices" % ("seeded sample of 400" if quick else "all"))
    return rep.finish()


def replay(path):
    d = json.load(open(path))
    sc = d["replay"]["scenario"]
    sc["tid"] = 1
    from .. import builddrv
    r = builddrv.run_build(sc)
    v, _ = tracecheck.validate([r], "Trace_Build")
    print(v)
    return 1 if any(x["viol"] for x in v.values()) else 0
