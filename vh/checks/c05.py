"""
C05 - dynamic initialisation is an equilibrium consistent with the power flow.

1. TLC: InitHandover.tla - hand-over PF -> dynamics (static generator off iff an online dynamic device refers to it;
   shares; residual test; exit code) model-checked: HandoverExact, SuccessMeansInjectionKept, FailureReported.
2. M1: hand-over scenarios enumerated by TLC (two machines sharing one static generator with shares in tenths, each
   on / off, a machine on the slack on / off, GENCLS / GENROU) built as real systems.
3. M2: every stock case that loads (quick: a fixed dozen): TDS.init and a 1 s undisturbed run.
   Recorded per case: bus voltages bit-equal to the power-flow solution, static generators switched off exactly as
   required, the verdict test_ok equals an independent evaluation of max|fg| < tol (NaN counts as failure), failure
   bumps the exit code, bus injections preserved, and the undisturbed trajectory stays within 1e-3 relative.
   TLC validates the records (Trace_Init).
"""
import json
import os
import random
import shutil

from ..common import scratch_dir, NCPU, seed
from ..pool import run_tasks
from ..report import Report
from ..tlc import run_tlc
from .. import tracecheck
from .c10 import stock_cases

PID = "C05"
QUICK = ["kundur/kundur_full.json", "ieee14/ieee14_full.xlsx", "ieee39/ieee39_full.xlsx", "5bus/pjm5bus.json", "kundur/kundur_aw.json",
         "ieee14/ieee14_pvd1.json", "ieee14/ieee14_solar.xlsx", "wecc/wecc_full.xlsx", "ieee14/ieee14_zip.json", "kundur/kundur_vsc.xlsx",
         "ieee14/ieee14_esst3a.xlsx", "npcc/npcc.xlsx", "ieee14/ieee14_esdc1a.xlsx", "kundur/kundur_islands.json",
         "ieee14/ieee14_exac1.json", "ieee14/ieee14_esac1a.xlsx", "ieee14/ieee14_ac8b.xlsx", "ieee14/ieee14_esst1a.xlsx",
         "kundur/kundur_ieeest.xlsx", "kundur/kundur_ieeeg1.xlsx"]
# cases whose controllers have iteratively initialised variables come first in the out-of-service variants
ITER_INIT = ["ieee14/ieee14_exac1.json", "ieee14/ieee14_esac1a.xlsx", "ieee14/ieee14_ac8b.xlsx", "ieee14/ieee14_esst1a.xlsx"]


def run(tier):
    rep = Report(PID, tier)
    quick = tier == "quick"
    rnd = random.Random("c05-%d" % seed())
    r = run_tlc("MC_InitHandover", "MC_InitHandover.cfg", timeout=600)
    rep.add_tlc(r, "InitHandover (hand-over design)")
    if r["machinery_ok"] and r["violation"]:
        rep.note("design-level counterexample in InitHandover: %s" % r["violation"])
    d = scratch_dir("ih")
    try:
        out = os.path.join(d, "s.json")
        r = run_tlc("Scen_InitHandover", "Scen_InitHandover.cfg", workers=1, timeout=300, env={"OUT": out})
        rep.add_tlc(r, "Scen_InitHandover (hand-over scenarios)")
        scen = json.load(open(out))["scen"]
    finally:
        shutil.rmtree(d, ignore_errors=True)
    scen.sort(key=lambda s: json.dumps(s, sort_keys=True))
    if quick:
        rnd.shuffle(scen)
        scen = scen[:60]
    if quick:
        scen = [x for x in scen if not x.get("dg")][:58] + [x for x in scen if x.get("dg")]
    tasks = [dict(kind="handover", scen=s, sid="handover[%s|g=%d/%d|u=%d%d|slack=%d%s]" % (s["kind"], s["g1"], s["g2"], s["u1"], s["u2"], s["us"],
                                                                                             "|DG on slack %d/10" % s["dg"] if s.get("dg") else ""))
             for s in scen]
    stock = [c for c in (QUICK if quick else stock_cases()) if os.path.exists(os.path.join("/repo/andes/cases", c))]
    tasks += [dict(kind="stock", case=c, sid="stock[%s]" % c) for c in stock]
    res = run_tasks("vh.initdrv:task", tasks, nproc=NCPU, timeout=1200)
    # variants of the cases that initialise and stay as shipped: one controller / measurement device out of service, and
    # the documented load-model weights (constant power / current / impedance shares, P and Q chosen independently)
    good = []
    at_limit = {}
    for t, x in zip(tasks, res):
        if t["kind"] == "stock" and x["status"] == "ok" and "skipped" not in x["result"]:
            ev0 = x["result"]["ev"]
            if ev0 and not ev0[0]["raised"] and ev0[0]["test_ok"] and ev0[-1].get("e") == "flat" and ev0[-1]["stays"]:
                good.append(t["case"])
                at_limit[t["case"]] = ev0[0].get("at_limit", [])
    variants = []
    from ..common import andes_mod
    andes_mod()
    from ..initdrv import OFFLINE_GROUPS
    import andes
    probe = andes.System(**__import__("vh.common", fromlist=["sys_kwargs"]).sys_kwargs())
    ctrl_models = [m for g in OFFLINE_GROUPS if g in probe.groups for m in probe.groups[g].models]
    WEIGHTS = [dict(p2p=1, p2i=0, p2z=0, q2q=1, q2i=0, q2z=0), dict(p2p=0, p2i=1, p2z=0, q2q=0, q2i=0, q2z=1),
               dict(p2p=1, p2i=0, p2z=0, q2q=0, q2i=1, q2z=0), dict(p2p=0.2, p2i=0.3, p2z=0.5, q2q=0.5, q2i=0.1, q2z=0.4)]
    for k, c in enumerate(good[:(5 if quick else 40)]):
        for w in (WEIGHTS[k % 2::2] if quick else WEIGHTS):
            variants.append(dict(kind="stock", case=c, sid="stock[%s|PQ weights %s]" % (c, ",".join("%s=%s" % kv for kv in sorted(w.items()))),
                                 pq_weights=w, baseline_ok=True, baseline_at_limit=at_limit[c], probes=False, flat=False))
    good_first = [c for c in good if c in ITER_INIT] + [c for c in good if c not in ITER_INIT]
    for c in good_first[:(8 if quick else 60)]:
        for m in ctrl_models:
            variants.append(dict(kind="stock", case=c, sid="stock[%s|first %s out of service]" % (c, m), offline=m, baseline_ok=True,
                                 baseline_at_limit=at_limit[c], probes=False, flat=False))
    # every documented input signal of the stabiliser (speed, bus frequency, power, accelerating power, bus voltage, its rate)
    for c in [c_ for c_ in good if "ieeest" in c_][:2]:
        for mode in (1, 2, 3, 4, 5, 6):
            variants.append(dict(kind="stock", case=c, sid="stock[%s|IEEEST input mode %d]" % (c, mode), set_param=("IEEEST", "MODE", mode),
                                 baseline_ok=True, baseline_at_limit=at_limit[c], probes=False, flat=False))
    # documented mode flags and limits that no shipped case uses: the alternative value on every device of cases that initialise
    FLAGVARS = {"ieee14/ieee14_solar.xlsx": [("REPCA1", "VCFlag", 0), ("REPCA1", "RefFlag", 0), ("REPCA1", "Fflag", 0), ("REECA1", "PFFLAG", 1),
                                             ("REECA1", "VFLAG", 0), ("REECA1", "QFLAG", 0), ("REECA1", "PFLAG", 1), ("REECA1", "PQFLAG", 1),
                                             ("REGCA1", "Lvplsw", 0)],
                "kundur/kundur_ieeeg1.xlsx": [("IEEEG1", "PMAX", 1.0), ("IEEEG1", "PMAX", 1.5)],
                "ieee14/ieee14_pvd1.json": [("PVD1", "pqflag", 0)]}
    for c, lst in FLAGVARS.items():
        if c not in good:
            continue
        for (m_, p_, v_) in lst:
            variants.append(dict(kind="stock", case=c, sid="stock[%s|%s.%s=%s]" % (c, m_, p_, v_), set_param=(m_, p_, v_), set_all=True, assert_inside=(m_ == "IEEEG1"), baseline_ok=True,
                                 baseline_at_limit=at_limit[c], probes=False, flat=True))
    vres = run_tasks("vh.initdrv:task", variants, nproc=NCPU, timeout=1200)
    tasks = tasks + variants
    res = res + vres
    rep.extra["variants_of_cases_that_initialise"] = dict(cases=len(good), load_weight_variants=sum(1 for v in variants if v.get("pq_weights")),
                                                          offline_variants_run=sum(1 for v, x in zip(variants, vres) if v.get("offline")
                                                                                   and x["status"] == "ok" and "skipped" not in x["result"]))
    traces = []
    for t, x in zip(tasks, res):
        rep.count()
        if x["status"] != "ok":
            if x["status"] == "exc":
                msg = x.get("error", "").strip().splitlines()[-1][:140]
                if t["kind"] == "stock":
                    rep.note("stock case %s not observed: %s" % (t["sid"], msg))
                else:
                    rep.machinery("driver exception in %s" % t["sid"], x.get("error", "")[-1200:])
            else:
                rep.note("%s ended with %s" % (t["sid"], x["status"]))
            continue
        r_ = x["result"]
        if "skipped" in r_:
            continue
        ev = []
        for e in r_["ev"]:
            e2 = {k: v for k, v in e.items() if k not in ("raised_text", "worst", "maxfg", "at_limit")}
            ev.append(e2)
        traces.append(dict(meta=dict(tid=len(traces) + 1, sid=t["sid"]), ev=ev, detail=r_["ev"]))
    verdicts, tl = tracecheck.validate([dict(meta=t["meta"], ev=t["ev"]) for t in traces], "Trace_Init")
    for t in tl:
        rep.add_tlc(t, "Trace_Init")
    drifts = {}
    for t in traces:
        v = verdicts.get(t["meta"]["tid"])
        if v is None:
            rep.machinery("trace %s not consumed" % t["meta"]["sid"])
            continue
        rep.traces += 1
        rep.nontriv(t["meta"]["sid"])
        for e in t["detail"]:
            if e["e"] == "flat":
                drifts[t["meta"]["sid"]] = e["drift_ppm"]
        for cl in v["viol"]:
            # a controller out of service that does not initialise is one input class per model, whatever the case
            ksid = t["meta"]["sid"]
            if "|first " in ksid and ksid.endswith("out of service]"):
                ksid = "out_of_service[%s]" % ksid.split("|first ")[1].split(" ")[0]
            rep.violation("%s:%s" % (cl, ksid), "clause %s fails for %s: %s" % (cl, t["meta"]["sid"], json.dumps(t["detail"])[:300]),
                          replay=dict(sid=t["meta"]["sid"], records=t["detail"]))
    rep.extra["max_drift_ppm_of_cases_that_stay"] = max([v for v in drifts.values() if v <= 1000] or [0])
    rep.extra["cases_reporting_failed_initialisation"] = [t["meta"]["sid"] for t in traces if not t["detail"][0].get("test_ok", True)]
    if traces:
        rep.sample(dict(sid=traces[0]["meta"]["sid"], records=traces[0]["detail"]))
    rep.rule = ("hand-over scenarios (TLC-enumerated, %s) and stock cases (%s); non-trivial = every observed initialisation" % (
        "sample of 60" if quick else "all 216", "fixed list" if quick else "all that load"))
    rep.assume("'stays at that point' = every stored state / algebraic variable within 1e-3 relative of its initial value over 1 s "
               "(95 of 103 loadable stock cases are bit-for-bit constant on the unchanged tree)")
    rep.assume("only model combinations present in stock cases and the generated hand-over systems are covered")
    return rep.finish()


def replay(path):
    print(open(path).read()[:3000])
    return 0
