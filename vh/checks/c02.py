"""
C02 - generated numerical code computes exactly the declared model equations.

1. TLC: Codegen.tla (edit / prepare / System() with and without automatic regeneration / corrupt / delete) -
   NeverSilentlyStale, UsedCodeMatchesModel, FreshFileIsCurrent; negative control with a checksum that does not
   cover an edit (MC_Codegen_gap must violate NeverSilentlyStale).
2. M1/M2 protocol: TLC-enumerated operation sequences (all of length <= 3, a residue class of length 5) are
   replayed on a scratch pycode directory with a harness-defined probe model whose equation, initialisation
   (explicit and iterative) and service strings carry a version number; one fresh interpreter per step; which
   version's numbers the loaded functions compute, whether stale code was reported and whether anything raised
   are recorded and validated by TLC against the Codegen actions (Trace_Codegen).
3. M1 equations: EqBinding - see eqdrv.
4. Determinism: code generated twice (serially and with the process pool) for shipped models is byte-identical
   and records the model's checksum.
"""
import json
import os
import random
import shutil

from ..common import scratch_dir, NCPU, seed
from ..pool import run_tasks
from ..report import Report
from ..tlc import run_tlc
from .. import tracecheck, codegendrv

PID = "C02"


def space(rep, m, r_):
    d = scratch_dir("cgs")
    try:
        out = os.path.join(d, "s.json")
        r = run_tlc("Scen_Codegen", "Scen_Codegen.cfg", workers=1, timeout=900, env={"OUT": out, "M": str(m), "R": str(r_)})
        rep.add_tlc(r, "Scen_Codegen (operation sequences)")
        data = json.load(open(out))
    finally:
        shutil.rmtree(d, ignore_errors=True)
    for k in data:
        data[k] = sorted(list(s) for s in data[k])
    return data


def protocol(rep, quick):
    rnd = random.Random("c02-%d" % seed())
    sp = space(rep, 499 if quick else 41, seed() % 41)
    s3 = list(sp["seq3"])
    s5 = list(sp["seq5"])
    rnd.shuffle(s3)
    rnd.shuffle(s5)
    # sequences that end with a load observe something; the others only matter as prefixes
    ends_load = [s for s in sp["seq2"] + s3 if s[-1] in ("undill_auto", "undill_noauto", "prepare")]
    seqs = [s for s in sp["seq1"] if s[-1].startswith("undill")] + [s for s in ends_load if len(s) == 2]
    seqs += [s for s in ends_load if len(s) == 3][:(24 if quick else 10000)]
    seqs += s5[:(10 if quick else 10000)]
    # a load after every step of a long history (every prefix observed)
    seqs += [["edit_e", "undill_noauto", "undill_auto", "edit_iter", "undill_noauto", "undill_auto", "edit_svc", "undill_auto",
              "edit_v", "undill_noauto", "prepare", "undill_noauto", "corrupt", "undill_auto", "prepare", "undill_auto",
              "delete", "undill_noauto", "undill_auto", "undill_noauto"]]
    based = scratch_dir("cgb")
    try:
        basep = os.path.join(based, "pycode")
        err = codegendrv.make_base(basep)
        if err:
            rep.machinery("initial generation of the probe model failed", err)
            return
        scs = [dict(kind="seq", tid=i + 1, sid="ops[%s]" % ",".join(s), ops=s, base=basep) for i, s in enumerate(seqs)]
        rep.extra["protocol_sequences"] = len(scs)
        res = run_tasks("vh.codegendrv:task", scs, nproc=NCPU, timeout=1800)
    finally:
        shutil.rmtree(based, ignore_errors=True)
    for sc in scs:
        sc.pop("base", None)
    traces = []
    for sc, x in zip(scs, res):
        if x["status"] == "ok" and not x["result"].get("setup_error"):
            traces.append(x["result"])
    verdicts, tl = tracecheck.validate(traces, "Trace_Codegen")
    for t in tl:
        rep.add_tlc(t, "Trace_Codegen")
    drift = {}
    for sc, x in zip(scs, res):
        rep.count()
        if x["status"] != "ok":
            if x["status"] == "exc":
                rep.machinery("driver exception in %s" % sc["sid"], x.get("error", "")[-1500:])
            else:
                rep.note("scenario %s ended with %s" % (sc["sid"], x["status"]))
            continue
        if x["result"].get("setup_error"):
            rep.machinery("initial generation failed in %s" % sc["sid"], x["result"]["setup_error"])
            continue
        v = verdicts.get(sc["tid"])
        if v is None:
            rep.machinery("trace %s not consumed" % sc["sid"])
            continue
        rep.traces += 1
        if any(o.startswith("edit") or o in ("corrupt", "delete") for o in sc["ops"]):
            rep.nontriv(sc["sid"])
        for cl in v["viol"]:
            rep.violation("%s:%s" % (cl.split(":")[0], sc["sid"]), "clause %s fails for %s" % (cl, sc["sid"]),
                          replay=dict(scenario=sc, events=[{k: w for k, w in e.items() if k != "tb"} for e in x["result"]["ev"]]))
        for dn in v["drift"]:
            drift.setdefault(dn, []).append(sc["sid"])
    for dn, sids in sorted(drift.items()):
        rep.note("model drift %s in %d sequences, e.g. %s" % (dn, len(sids), sids[0]))
    ok = [x for x in res if x["status"] == "ok"]
    if ok:
        rep.sample(dict(sid=scs[-1]["sid"], events=[{k: w for k, w in e.items() if k != "tb"} for e in res[-1]["result"]["ev"][:6]]
                        if res[-1]["status"] == "ok" else None))


def run(tier):
    rep = Report(PID, tier)
    quick = tier == "quick"
    rep.phase("model checking")
    r = run_tlc("Codegen", "MC_Codegen.cfg", timeout=900)
    rep.add_tlc(r, "Codegen (staleness protocol)")
    if r["machinery_ok"] and r["violation"]:
        rep.note("design-level counterexample in Codegen: %s" % r["violation"])
    g = run_tlc("Codegen", "MC_Codegen_gap.cfg", timeout=900)
    if not (g["violation"] and g["violation"].get("name") == "NeverSilentlyStale"):
        rep.machinery("negative control MC_Codegen_gap did not violate NeverSilentlyStale", g["out"][-800:])
    else:
        rep.extra["negative_control"] = "checksum not covering an edit violates NeverSilentlyStale, as it must"
    rep.phase("protocol sequences")
    protocol(rep, quick)
    rep.rule = ("operation sequences over {edit equation / initialiser / iterative initialiser / service, prepare, System() with "
                "and without automatic regeneration, corrupt, delete}: all of length <= 2, %s of length 3, a residue class of "
                "length 5, one 20-step history; non-trivial = contains an edit, corruption or deletion"
                % ("a seeded sample" if quick else "all"))
    return rep.finish()


def replay(path):
    d = json.load(open(path))
    sc = d["replay"]["scenario"]
    sc["tid"] = 1
    from .. import codegendrv
    r = codegendrv.task(sc)
    v, _ = tracecheck.validate([r], "Trace_Codegen")
    print(v)
    return 1 if any(x["viol"] for x in v.values()) else 0
