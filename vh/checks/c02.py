"""
C02 - generated numerical code computes exactly the declared model equations.

1. TLC: Codegen.tla (edit / prepare / System() with and without automatic regeneration / corrupt / delete) -
   NeverSilentlyStale, UsedCodeMatchesModel, FreshFileIsCurrent; negative control with a checksum that does not
   cover an edit (MC_Codegen_gap must violate NeverSilentlyStale).
2. M1/M2 protocol: TLC-enumerated operation sequences (all of length <= 3, a residue class of length 5) are
   replayed on a scratch pycode directory with a harness-defined probe model whose equation, initialisation
   (explicit and iterative) and service strings carry a version number; one fresh interpreter per step; which
   version's numbers the loaded functions compute, whether stale code was reported and whether anything raised
   are recorded and validated by TLC against the Codegen actions (Trace_Codegen).
3. M1 equations: EqBinding - see eqdrv.
4. Determinism: code generated twice (serially and with the process pool) for shipped models is byte-identical
   and records the model's checksum.
"""
import json
import os
import random
import shutil

from ..common import scratch_dir, NCPU, seed
from ..pool import run_tasks
from ..report import Report
from ..tlc import run_tlc
from .. import tracecheck, codegendrv

PID = "C02"


def space(rep, m, r_):
    d = scratch_dir("cgs")
    try:
        out = os.path.join(d, "s.json")
        r = run_tlc("Scen_Codegen", "Scen_Codegen.cfg", workers=1, timeout=900, env={"OUT": out, "M": str(m), "R": str(r_)})
        rep.add_tlc(r, "Scen_Codegen (operation sequences)")
        data = json.load(open(out))
    finally:
        shutil.rmtree(d, ignore_errors=True)
    for k in data:
        data[k] = sorted(list(s) for s in data[k])
    return data


def protocol(rep, quick):
    rnd = random.Random("c02-%d" % seed())
    sp = space(rep, 499 if quick else 41, seed() % 41)
    # a truncated file makes the library generate everything again (~1 min): few of those in the quick tier
    def costly(q):
        return any(o.startswith("trunc_") for o in q)
    trunc_all = [q for q in sp["seq2"] + list(sp["seq3"]) if costly(q) and q[-1].startswith("undill")]
    rnd.shuffle(trunc_all)
    for key in ("seq1", "seq2", "seq3", "seq5"):
        sp[key] = [q for q in sp[key] if not costly(q)]
    s3 = list(sp["seq3"])
    s5 = list(sp["seq5"])
    rnd.shuffle(s3)
    rnd.shuffle(s5)
    # sequences that end with a load observe something; the others only matter as prefixes
    ends_load = [s for s in sp["seq2"] + s3 if s[-1] in ("undill_auto", "undill_noauto", "prepare")]
    seqs = [s for s in sp["seq1"] if s[-1].startswith("undill")] + [s for s in ends_load if len(s) == 2]
    seqs += [s for s in ends_load if len(s) == 3][:(24 if quick else 360)]
    seqs += s5[:(10 if quick else 150)]
    seqs += [["trunc_funcs", "undill_noauto"], ["edit_iter", "trunc_lists", "undill_auto"]] + (trunc_all[:24] if not quick else [])
    # a load after every step of a long history (every prefix observed)
    seqs += [["edit_e", "undill_noauto", "undill_auto", "edit_iter", "undill_noauto", "undill_auto", "edit_svc", "undill_auto",
              "edit_v", "undill_noauto", "prepare", "undill_noauto", "corrupt", "undill_auto", "prepare", "undill_auto",
              "delete", "undill_noauto", "undill_auto", "undill_noauto"]]
    based = scratch_dir("cgb")
    try:
        basep = os.path.join(based, "pycode")
        err = codegendrv.make_base(basep)
        if err:
            rep.machinery("initial generation of the probe model failed", err)
            return
        scs = [dict(kind="seq", tid=i + 1, sid="ops[%s]" % ",".join(s), ops=s, base=basep) for i, s in enumerate(seqs)]
        rep.extra["protocol_sequences"] = len(scs)
        res = run_tasks("vh.codegendrv:task", scs, nproc=NCPU, timeout=1800)
    finally:
        shutil.rmtree(based, ignore_errors=True)
    for sc in scs:
        sc.pop("base", None)
    traces = []
    for sc, x in zip(scs, res):
        if x["status"] == "ok" and not x["result"].get("setup_error"):
            traces.append(x["result"])
    verdicts, tl = tracecheck.validate(traces, "Trace_Codegen")
    for t in tl:
        rep.add_tlc(t, "Trace_Codegen")
    drift = {}
    for sc, x in zip(scs, res):
        rep.count()
        if x["status"] != "ok":
            if x["status"] == "exc":
                rep.machinery("driver exception in %s" % sc["sid"], x.get("error", "")[-1500:])
            else:
                rep.note("scenario %s ended with %s" % (sc["sid"], x["status"]))
            continue
        if x["result"].get("setup_error"):
            rep.machinery("initial generation failed in %s" % sc["sid"], x["result"]["setup_error"])
            continue
        v = verdicts.get(sc["tid"])
        if v is None:
            rep.machinery("trace %s not consumed" % sc["sid"])
            continue
        rep.traces += 1
        if any(o.startswith("edit") or o in ("corrupt", "delete") for o in sc["ops"]):
            rep.nontriv(sc["sid"])
        for cl in v["viol"]:
            rep.violation("%s:%s" % (cl.split(":")[0], sc["sid"]), "clause %s fails for %s" % (cl, sc["sid"]),
                          replay=dict(scenario=sc, events=[{k: w for k, w in e.items() if k != "tb"} for e in x["result"]["ev"]]))
        for dn in v["drift"]:
            drift.setdefault(dn, []).append(sc["sid"])
    for dn, sids in sorted(drift.items()):
        rep.note("model drift %s in %d sequences, e.g. %s" % (dn, len(sids), sids[0]))
    ok = [x for x in res if x["status"] == "ok"]
    if ok:
        rep.sample(dict(sid=scs[-1]["sid"], events=[{k: w for k, w in e.items() if k != "tb"} for e in res[-1]["result"]["ev"][:6]]
                        if res[-1]["status"] == "ok" else None))


def equations(rep, quick):
    from ..common import new_system
    rounds = 12 if quick else 48
    d = scratch_dir("eql")
    try:
        out = os.path.join(d, "t.json")
        r = run_tlc("Scen_EqLattice", "Scen_EqLattice.cfg", workers=1, timeout=900, env={"OUT": out, "ROUNDS": str(rounds)})
        rep.add_tlc(r, "Scen_EqLattice (argument lattice)")
        if not os.path.exists(out):
            rep.machinery("lattice enumeration failed", r["out"][-1000:])
            return
        table = json.load(open(out))["table"]
    finally:
        shutil.rmtree(d, ignore_errors=True)
    b1 = run_tlc("EqBinding", "MC_EqBinding.cfg", timeout=600)
    rep.add_tlc(b1, "EqBinding (positional delivery / argument lookup by name)")
    if b1["machinery_ok"] and b1["violation"]:
        rep.note("design-level counterexample in EqBinding: %s" % b1["violation"])
    b2 = run_tlc("EqBinding", "MC_EqBinding_neg.cfg", timeout=600)
    if not (b2["violation"] and b2["violation"].get("name") == "DeliveredToDeclared"):
        rep.machinery("negative control MC_EqBinding_neg did not violate DeliveredToDeclared", b2["out"][-800:])
    models = list(new_system().models)
    rep.extra["_table"] = table
    chunks = [models[i::NCPU] for i in range(NCPU)]
    res = run_tasks("vh.eqdrv:task", [dict(models=c, table=table, rounds=rounds) for c in chunks if c], nproc=NCPU, timeout=3000)
    recs = []
    for x in res:
        if x["status"] == "ok":
            recs += x["result"]
        else:
            rep.machinery("equation worker %s" % x["status"], x.get("error", "")[-1200:])
    recs.sort(key=lambda r_: r_["model"])
    missing_models = sorted(set(models) - {r_["model"] for r_ in recs})
    if missing_models:
        rep.machinery("models not probed: %s" % missing_models[:10])
    traces = []
    for k, rec in enumerate(recs):
        ev = [dict(e="item", key=it["key"], group=it["group"], position=it["position"], delivered_to=it["delivered_to"], points=it["points"],
                   agree=it["agree"], has_alts=it["has_alts"], equals_declared_of=it["equals_declared_of"], missing=bool(it["notes"]))
              for it in rec["items"]]
        ev.append(dict(e="model", model=rec["model"], problems=len(rec["problems"])))
        traces.append(dict(meta=dict(tid=k + 1, sid=rec["model"]), ev=ev))
    verdicts, tl = tracecheck.validate(traces, "Trace_EqBinding")
    for t in tl:
        rep.add_tlc(t, "Trace_EqBinding")
    n_items = n_points = 0
    partial = {}
    for tr, rec in zip(traces, recs):
        v = verdicts.get(tr["meta"]["tid"])
        if v is None:
            rep.machinery("trace of model %s not consumed" % rec["model"])
            continue
        rep.traces += 1
        n_items += v["items"]
        n_points += v["points"]
        for it in rec["items"]:
            rep.count()
            if it["points"] > 0:
                rep.nontriv(it["key"])
        for cl in v["viol"]:
            name, group, key = cl.split(":", 2)
            it = next(i for i in rec["items"] if i["key"] == key)
            rep.violation("%s:%s" % (name, key), "clause %s fails for %s (%s, position %d, delivered to %s): equal at %d of %d defined points%s%s"
                          % (name, key, group, it["position"], it["delivered_to"], it["agree"], it["points"],
                             "; the delivered numbers are those of %s" % it["equals_declared_of"] if it["equals_declared_of"] else "",
                             "; " + "; ".join(it["notes"]) if it["notes"] else ""),
                          replay=dict(kind="equation", model=rec["model"], item=it, rounds=rounds))
        if rec["problems"]:
            partial[rec["model"]] = rec["problems"][:3]
    for m, pr in sorted(partial.items()):
        rep.note("model %s only partly exercised: %s" % (m, pr))
    rep.extra["equation_level"] = dict(models=len(recs), declared_items=n_items, defined_point_comparisons=n_points, rounds=rounds, devices_per_round=4,
                                       comparisons_inside_conditions=sum(r_["conditions"] for r_ in recs),
                                       comparisons_with_both_outcomes=sum(r_["conditions_both"] for r_ in recs),
                                       one_sided_conditions=[k_ for r_ in recs for k_ in r_["one_sided"]][:20],
                                       partly_exercised_models=sorted(partial))
    if recs:
        rep.sample(dict(model=recs[0]["model"], items=recs[0]["items"][:3]))


DET_QUICK = ["GENROU", "ESST3A", "EXAC1", "REGCA1", "REECA1", "TGOV1", "Line", "PQ", "IEEEG1", "PVD1", "ESST1A", "Toggle"]


def regeneration(rep, quick):
    """regenerating from an unchanged model: recorded checksum is the model's; code identical or functionally identical"""
    from ..common import new_system
    table = rep.extra.pop("_table", None)
    if table is None:
        return
    models = DET_QUICK if quick else list(new_system().models)
    d = scratch_dir("cgt")
    try:
        tf = os.path.join(d, "table.json")
        json.dump(table, open(tf, "w"))
        parts = [models[i::4] for i in range(4)] if not quick else [models]
        scs = [dict(kind="det", tid=i + 1, sid="regenerate[%d models]" % len(p), models=p, table_file=tf, rounds=min(len(table), 12)) for i, p in enumerate(parts) if p]
        res = run_tasks("vh.codegendrv:task", scs, nproc=4, timeout=3600)
    finally:
        shutil.rmtree(d, ignore_errors=True)
    traces = []
    for sc, x in zip(scs, res):
        rep.count()
        if x["status"] != "ok" or x["result"].get("setup_error"):
            rep.machinery("regeneration run failed: %s" % sc["sid"], (x.get("error") or x.get("result", {}).get("setup_error") or "")[-1200:])
            continue
        traces.append(x["result"])
    verdicts, tl = tracecheck.validate(traces, "Trace_Codegen")
    for t in tl:
        rep.add_tlc(t, "Trace_Codegen (regeneration)")
    for tr in traces:
        v = verdicts.get(tr["meta"]["tid"])
        if v is None:
            rep.machinery("regeneration trace %s not consumed" % tr["meta"]["sid"])
            continue
        rep.traces += 1
        rep.nontriv(tr["meta"]["sid"])
        if tr.get("diff"):
            rep.note("regenerated files not byte-identical (compared functionally): %s" % tr["diff"][:10])
        for cl in v["viol"]:
            rep.violation("%s:%s" % (cl, ",".join(tr.get("diff") or tr.get("missing") or ["md5"])[:80]),
                          "clause %s fails for %s: differing %s missing %s items %s" % (cl, tr["meta"]["sid"], tr.get("diff"), tr.get("missing"), tr.get("bad_items")),
                          replay=dict(kind="regeneration", record={k: v_ for k, v_ in tr.items() if k != "meta"}))
    rep.extra["regenerated_models"] = len(models)


def run(tier):
    rep = Report(PID, tier)
    quick = tier == "quick"
    rep.phase("model checking")
    r = run_tlc("Codegen", "MC_Codegen.cfg", timeout=900)
    rep.add_tlc(r, "Codegen (staleness protocol)")
    if r["machinery_ok"] and r["violation"]:
        rep.note("design-level counterexample in Codegen: %s" % r["violation"])
    g = run_tlc("Codegen", "MC_Codegen_gap.cfg", timeout=900)
    if not (g["violation"] and g["violation"].get("name") == "NeverSilentlyStale"):
        rep.machinery("negative control MC_Codegen_gap did not violate NeverSilentlyStale", g["out"][-800:])
    else:
        rep.extra["negative_control"] = "checksum not covering an edit violates NeverSilentlyStale, as it must"
    rep.phase("protocol sequences")
    protocol(rep, quick)
    rep.phase("equations")
    equations(rep, quick)
    rep.phase("regeneration")
    regeneration(rep, quick)
    rep.phase("concurrent processes")
    concurrent(rep, quick)
    rep.rule = ("equation level: every declared residual / initialiser / iterative initialiser / service string of every shipped "
                "model x lattice points (TLC-enumerated levels, 4 devices x rounds); non-trivial = item with at least one defined "
                "point.  Protocol level: operation sequences over {edit equation / initialiser / iterative initialiser / service, prepare, System() with "
                "and without automatic regeneration, corrupt, delete, writer killed mid-file}: all of length <= 2, %s of length 3, a residue class of "
                "length 5, one 20-step history; non-trivial = contains an edit, corruption or deletion"
                % ("a seeded sample of 24" if quick else "360"))
    return rep.finish()


def concurrent(rep, quick):
    """CodegenConc.tla: several processes creating a System over one directory of generated code (one action per step of
    undill / prepare / _finalize_pycode).  Model-checked for parallel workers of one checkout (RunsOwnModel, FileWholeAtEnd,
    AllFinish hold) and for two checkouts with different definitions sharing the directory (TLC must find the schedule in
    which a process imports the other's code after writing its own); both schedules are replayed on the real code with a
    second process started at the first one's point between writing and importing again."""
    from .. import codegendrv
    r1 = run_tlc("MC_CodegenConc", "MC_CodegenConc_same.cfg", timeout=900)
    rep.add_tlc(r1, "MC_CodegenConc (three workers, one model definition: RunsOwnModel, FileWholeAtEnd, AllFinish)")
    if r1["machinery_ok"] and r1["violation"]:
        rep.note("design-level counterexample in MC_CodegenConc_same: %s" % r1["violation"])
    r2 = run_tlc("MC_CodegenConc", "MC_CodegenConc_trees.cfg", timeout=900)
    rep.add_tlc(r2, "MC_CodegenConc (two definitions sharing one directory: RunsOwnModel must be violated - design hazard)")
    rep.extra["concurrent_design"] = dict(same_definition_holds=bool(r1["machinery_ok"] and not r1["violation"]),
                                          two_definitions_counterexample=bool(r2["violation"]))
    tasks = [dict(sid="conc[same-definition|B-between-write-and-reload-of-A]", same=True),
             dict(sid="conc[two-definitions-sharing-one-directory]", same=False)]
    res = run_tasks("vh.codegendrv:concurrent", tasks, nproc=2, timeout=2400)
    for t, x in zip(tasks, res):
        rep.count()
        if x["status"] != "ok" or x["result"].get("setup_error"):
            rep.note("%s not observed: %s" % (t["sid"], x["status"] if x["status"] != "ok" else x["result"]["setup_error"]))
            continue
        o = x["result"]
        rep.traces += 1
        rep.nontriv(t["sid"])
        rep.extra.setdefault("concurrent_replay", {})[t["sid"]] = o
        predicted = "own_a" if t["same"] else "b"              # what the specification's schedule ends with
        if o["a_runs"] != predicted:
            rep.note("model drift: CodegenConc predicts that A runs %s in %s, the code gave %s" % (predicted, t["sid"], o["a_runs"]))
        if o["a_runs"] not in ("own_a", "raised"):
            rep.violation("RunsOwnModel:%s" % t["sid"], "a System that came up without an error runs generated code of another model definition "
                          "(%s): %s" % (o["a_runs"], json.dumps(o)), replay=dict(scenario=t, outcome=o))


def replay(path):
    d = json.load(open(path))
    if d["replay"].get("kind") == "regeneration":
        print(json.dumps(d["replay"], indent=1)[:3000])
        return 0
    if d["replay"].get("kind") == "equation":
        from .. import eqdrv
        rep = Report(PID, "quick")
        rounds = d["replay"]["rounds"]
        dd = scratch_dir("eql")
        try:
            out = os.path.join(dd, "t.json")
            run_tlc("Scen_EqLattice", "Scen_EqLattice.cfg", workers=1, timeout=900, env={"OUT": out, "ROUNDS": str(rounds)})
            table = json.load(open(out))["table"]
        finally:
            shutil.rmtree(dd, ignore_errors=True)
        rec = eqdrv.task(dict(models=[d["replay"]["model"]], table=table, rounds=rounds))[0]
        it = [i for i in rec["items"] if i["key"] == d["replay"]["item"]["key"]]
        print(json.dumps(it, indent=1))
        return 1 if any(i["agree"] != i["points"] or i["notes"] for i in it) else 0
    sc = d["replay"]["scenario"]
    sc["tid"] = 1
    from .. import codegendrv
    r = codegendrv.task(sc)
    v, _ = tracecheck.validate([r], "Trace_Codegen")
    print(v)
    return 1 if any(x["viol"] for x in v.values()) else 0
