"""
C16 - results do not depend on solver back-end, acceleration options or repetition.

1. TLC: SolverCache.tla for klu / umfpack / spsolve - Solves (every call documented to factorise returns the
   solution of the matrix it was given: every call of the SuiteSparse back-ends and of the one-shot entry, and
   calls of the SciPy back-end after a refresh request) and SingularSignalled, over all call sequences <= MaxCalls;
   the 'found' mode documents the repaired defects (negative control).
2. M1/M2: all call sequences of length <= 2 (thorough: <= 3) over {same pattern new values, new pattern, singular
   on either pattern} x {solve, linsolve, refresh flags, clear} (TLC-enumerated) on real wrapper objects with
   exactly solvable matrices, in worker processes (KLU can kill the interpreter); TLC validates the records.
3. Configuration product {klu, umfpack, spsolve} x linsolve x ipadd x {NR, dishonest} on small cases for
   PFlow / TDS / EIG against the reference configuration, plus repetition in a fresh process (bit-identical).
"""
import json
import os
import random
import shutil

from ..common import scratch_dir, NCPU, seed
from ..pool import run_tasks
from ..report import Report
from ..tlc import run_tlc
from .. import tracecheck

PID = "C16"


def run(tier):
    rep = Report(PID, tier)
    quick = tier == "quick"
    rnd = random.Random("c16-%d" % seed())
    for lib in ("klu", "umfpack", "spsolve"):
        r = run_tlc("MC_SolverCache", "MC_SolverCache_%s.cfg" % lib, timeout=600)
        rep.add_tlc(r, "MC_SolverCache (%s)" % lib)
        if r["machinery_ok"] and r["violation"]:
            rep.note("design-level counterexample in SolverCache(%s): %s" % (lib, r["violation"]))
    neg = run_tlc("MC_SolverCache", "MC_SolverCache_found.cfg", timeout=600)
    rep.add_tlc(neg, "MC_SolverCache (negative control: code as found must violate SingularSignalled)")
    rep.extra["negative_control_violates"] = bool(neg["violation"])

    d = scratch_dir("sv")
    try:
        out = os.path.join(d, "s.json")
        r = run_tlc("Scen_Solver", "Scen_Solver.cfg", workers=1, timeout=300, env={"OUT": out})
        rep.add_tlc(r, "Scen_Solver (call sequences)")
        sp = json.load(open(out))
    finally:
        shutil.rmtree(d, ignore_errors=True)
    seqs = sorted(sp["seq2"], key=lambda q: json.dumps(q, sort_keys=True))
    s3 = sorted(sp["seq3"], key=lambda q: json.dumps(q, sort_keys=True))
    rnd.shuffle(s3)
    seqs = seqs + (s3[:150] if quick else s3)
    scs = []
    for lib in ("klu", "umfpack", "spsolve"):
        for q in seqs:
            if lib == "spsolve" and any(c["A"] in (4, 5) and c["op"] == "solve" for c in q):
                continue        # splu on an exactly singular matrix raises inside SciPy: outside the documented contract
            scs.append(dict(lib=lib, calls=q, sid="calls[%s|%s]" % (lib, ">".join("%s%s" % (c["op"], c["A"] or "") for c in q))))
    for i, sc in enumerate(scs):
        sc["tid"] = i + 1
    res = run_tasks("vh.solverdrv:run_calls", scs, nproc=NCPU, timeout=120)
    traces = [x["result"] for x in res if x["status"] == "ok"]
    verdicts, tl = tracecheck.validate(traces, "Trace_SolverCache")
    for t in tl:
        rep.add_tlc(t, "Trace_SolverCache (call sequences)")
    seen = set()
    for sc, x in zip(scs, res):
        rep.count()
        if x["status"] in ("crash", "timeout"):
            rep.violation("ProcessDies:%s" % sc["sid"], "interpreter %s (signal %s) in solver call sequence %s" % (
                x["status"], x.get("signal"), sc["sid"]), replay=dict(scenario=sc))
            continue
        if x["status"] == "exc":
            rep.machinery("driver exception in %s" % sc["sid"], x.get("error", "")[-1200:])
            continue
        v = verdicts.get(sc["tid"])
        if v is None:
            rep.machinery("trace %s not consumed" % sc["sid"])
            continue
        rep.traces += 1
        if len(sc["calls"]) > 1:
            rep.nontriv(sc["sid"])
        for cl in v["viol"]:
            rep.violation("%s:%s" % (cl, sc["sid"]), "clause %s fails in %s: results %s" % (
                cl, sc["sid"], [e["result"] for e in x["result"]["ev"]]), replay=dict(scenario=sc, records=x["result"]["ev"]))
    # --- configuration product ---------------------------------------------------------------
    cases = ["kundur/kundur_full.json", "ieee14/ieee14_fault.json"] if quick else \
        ["kundur/kundur_full.json", "ieee14/ieee14_fault.json", "5bus/pjm5bus.json", "ieee14/ieee14_full.xlsx", "wscc9/wscc9.xlsx"]
    # (ieee39_full is not used here: its undisturbed trajectory already leaves the initial point - a C05 finding - so that
    #  rounding differences between back-ends are amplified without bound, and its reduced matrix is numerically singular)
    cfgs = []
    for lib in ("klu", "umfpack", "spsolve"):
        for lin in (0, 1):
            for ipadd in (1, 0):
                for method in ("NR", "dishonest"):
                    cfgs.append(dict(lib=lib, linsolve=lin, ipadd=ipadd, method=method))
    tasks = []
    for case in cases:
        for routine, tol in (("pflow", 1e-6), ("tds", 1e-3), ("eig", 1e-5)):
            sel = list(cfgs)
            if routine == "tds":
                # the honest Newton variant of the simulation (Jacobian rebuilt at every iteration) with every back-end
                sel = sel + [dict(c, honest=1) for c in cfgs if c["method"] == "NR"]
            if quick:
                rnd.shuffle(sel)
                must = [dict(lib=l_, linsolve=0, ipadd=1, method="NR", honest=1) for l_ in ("spsolve", "klu")] if routine == "tds" else []
                sel = must + sel[:8 - len(must)]
            sel = [dict(c, repeat=(k == 0)) for k, c in enumerate(sel)]
            tasks.append(dict(case=case, routine=routine, configs=sel, tol=tol, tf=0.5,
                              sid="cfg[%s|%s]" % (case.split("/")[0], routine)))
    # a network with isolated buses (their rows are neutralised by a separate code path for each way of accumulating the
    # Jacobian): every back-end with both accumulation modes, always (not sampled)
    isl = [dict(lib=l_, linsolve=0, ipadd=ip, method="NR", repeat=(l_ == "klu" and ip == 1)) for l_ in ("klu", "umfpack", "spsolve") for ip in (1, 0)]
    for routine, tol in (("pflow", 1e-6), ("tds", 1e-3)):
        tasks.append(dict(case="ieee14/ieee14_island.xlsx", routine=routine, configs=isl, tol=tol, tf=0.3, sid="cfg[ieee14_island|%s]" % routine))
        # a load bus without any shunt-type device cut off (positions 8 and 14 are the two branches of bus 12): nothing but the
        # neutralisation itself puts an entry on the diagonal of that bus
        tasks.append(dict(case="ieee14/ieee14_full.xlsx", routine=routine, configs=isl, lines_off=[8, 14], tol=tol, tf=0.3,
                          sid="cfg[ieee14_full, bus 12 cut off|%s]" % routine))
    itasks = [dict(kind="interleave", case=cases[0], other=("5bus/pjm5bus.json" if k % 2 == 0 else cases[0]), lib=lib,
                   sid="interleave[%s|%s then %s]" % (lib, cases[0].split("/")[0], "5bus" if k % 2 == 0 else "the same case"))
              for lib in ("klu", "umfpack", "spsolve") for k in range(2)]
    tasks += itasks
    for i, sc in enumerate(tasks):
        sc["tid"] = i + 1
    res2 = run_tasks("vh.checks.c16:cfg_task", tasks, nproc=NCPU, timeout=1500)
    tr2 = [x["result"] for x in res2 if x["status"] == "ok"]
    v2, tl2 = tracecheck.validate(tr2, "Trace_SolverCache", jobs=2)
    for t in tl2:
        rep.add_tlc(t, "Trace_SolverCache (configuration product)")
    worst = 0
    for sc, x in zip(tasks, res2):
        rep.count()
        if x["status"] != "ok":
            if x["status"] == "exc":
                rep.machinery("driver exception in %s" % sc["sid"], x.get("error", "")[-1200:])
            else:
                rep.violation("ProcessDies:%s" % sc["sid"], "interpreter %s during %s" % (x["status"], sc["sid"]), replay=dict(scenario=sc))
            continue
        v = v2.get(sc["tid"])
        if v is None:
            rep.machinery("trace %s not consumed" % sc["sid"])
            continue
        rep.traces += 1
        rep.nontriv(sc["sid"])
        worst = max([worst] + [e["dmax_ppb"] for e in x["result"]["ev"] if e["dmax_ppb"] < 2e9])
        for cl in v["viol"]:
            field = {"SameSuccessAcrossConfigurations": "same_success", "ResultsAgreeAcrossConfigurations": "close",
                     "RepetitionBitIdentical": "repeat_identical"}[cl.split(":")[0]]
            bad = [e for e in x["result"]["ev"] if not e[field]]
            # one finding per (clause, routine, back-end): narrow enough to tell EIG-with-SciPy from anything else
            for lib in sorted({e["cfg"].split("/")[0] for e in bad}):
                rep.violation("%s:%s" % (cl, lib), "clause %s fails for back-end %s, e.g. in %s: %s" % (
                    cl, lib, sc["sid"], [e for e in bad if e["cfg"].startswith(lib)][:2]),
                    replay=dict(scenario=sc, records=[e for e in bad if e["cfg"].startswith(lib)][:6]))
    rep.extra["max_relative_difference_across_configurations_ppb"] = worst
    ok = [x for x in res if x["status"] == "ok"]
    if ok:
        rep.sample(dict(sid=scs[5]["sid"], records=ok[5]["result"]["ev"]))
    rep.rule = ("solver call sequences (TLC-enumerated; length 2 exhaustive, length 3 %s) x 3 back-ends; configuration product on "
                "small cases; non-trivial = sequence of >= 2 calls / every configuration run" % ("sampled" if quick else "exhaustive"))
    rep.assume("'to solver precision' is read as agreement within the routine tolerance (PFlow 1e-6, TDS 1e-3, EIG 1e-5 relative); "
               "the observed maximum is recorded")
    rep.assume("just-in-time compilation (numba) is not exercised")
    return rep.finish()


def cfg_task(sc):
    from .. import solverdrv
    return solverdrv.interleave(sc) if sc.get("kind") == "interleave" else solverdrv.config_product(sc)


def replay(path):
    d = json.load(open(path))
    sc = d["replay"]["scenario"]
    sc["tid"] = 1
    from .. import solverdrv
    if "calls" in sc:
        print(json.dumps(solverdrv.run_calls(sc)["ev"], indent=1))
    return 0
