"""
C04 - every accepted simulation step satisfies the implicit integration rule.

1. TLC: TDSLoop (step control: StepBound, reject path, busted exits) within MC_TDSLoopS.
2. M3: ITMRule.tla states both rules and the iteration matrix over exact rationals; TLC
   enumerates the multilinear lattice; the library's real ``ImplicitIter.step`` (assembly of Ac
   and of the residual vector, g_scale, pegged-state override, solver entry point), ``calc_q``
   and ``calc_jac`` are evaluated on every lattice point.
3. M1/M2: failure plans are injected into real runs through ``TDS.callpert`` (genuine Newton
   non-convergence), both methods x fixed/variable step x g_scale x honest; every attempt is
   recorded and TLC validates: rejected step restores x, y, f bit-exactly; accepted step has
   |last increment| <= tol; step size never negative, never above tstep (fixed), never past tf.
Not decided: the order-of-convergence clause (numeric accuracy; see DESIGN 9).
"""
import json
import os
import shutil

from ..common import scratch_dir, andes_mod
from ..report import Report
from ..tlc import run_tlc
from .. import tdsfam

PID = "C04"


def lattice(rep):
    from .. import itm_lattice as il
    andes_mod()
    d = scratch_dir("itm")
    try:
        out = os.path.join(d, "itm.json")
        r = run_tlc("ITMRule", "ITMRule.cfg", workers=1, timeout=600, env={"OUT": out})
        rep.add_tlc(r, "ITMRule (lattice enumeration + rule sanity ASSUMEs)")
        if not os.path.exists(out):
            rep.machinery("ITMRule lattice not produced", r["out"][-1500:])
            return
        data = json.load(open(out))
    finally:
        shutil.rmtree(d, ignore_errors=True)
    badq = il.check_q(data["q"])
    badj, nj = il.check_jac(data["jac"])
    rep.count(len(data["q"]) + nj)
    rep.extra["lattice_points"] = dict(q=len(data["q"]), jac_step_runs=nj)
    for p in data["q"][:40]:
        rep.nontriv("q:" + json.dumps(p, sort_keys=True))
    for p in data["jac"][:40]:
        rep.nontriv("jac:%s|%s|%s|%s" % (p["m"], p["T"], p["h"], p["gs"]))
    rep.sample(dict(lattice_q_point=data["q"][0]))
    for b in badq[:5]:
        rep.violation("ITMRule.q:%s" % b["point"]["m"],
                      "calc_q of method %s differs from the exact rule on the lattice: %s" % (b["point"]["m"], b), replay=b)
    seen = set()
    for b in badj:
        key = "ITMRule.step:%s:%s" % (b["point"]["m"], b["what"].split("[")[0].strip())
        if key in seen:
            continue
        seen.add(key)
        rep.violation(key, "assembled Newton system of ImplicitIter.step differs from the exact lattice value: %s" % b, replay=b)
    for mname, ret, cap in il.check_restore():
        rep.count()
        if ret or not cap["restored"] or cap["converged"]:
            rep.violation("ITMStep.restore:%s" % mname,
                          "non-converging step of %s returned %s, restored=%s" % (mname, ret, cap["restored"]), replay=cap)
    rep.assume("lattice completeness rests on calc_q / Ac entries being multilinear in their arguments (DESIGN 2.4)")


def run(tier):
    rep = Report(PID, tier)
    quick = tier == "quick"
    rnd = tdsfam.rnd_for(PID)

    r = run_tlc("MC_TDSLoopS", "MC_TDSLoopS.cfg", timeout=3000)
    rep.add_tlc(r, "MC_TDSLoopS (step control, failure and busted exits)")
    if r["machinery_ok"] and r["violation"]:
        rep.note("design-level counterexample in MC_TDSLoopS: %s" % r["violation"])

    lattice(rep)

    scen = tdsfam.tlc_scenarios(rep)
    withfail = [s for s in scen if s["fail"]]
    rnd.shuffle(withfail)
    nofail = [s for s in scen if not s["fail"]]
    rnd.shuffle(nofail)
    chosen = withfail[:150 if quick else 4000] + nofail[:40 if quick else 800]
    variants = [dict(method="trapezoid"), dict(method="backeuler"), dict(g_scale=0), dict(honest=1),
                dict(method="backeuler", g_scale=0), dict(g_scale=2.0)]
    real = []
    for k, s in enumerate(chosen):
        v = variants[k % len(variants)]
        sc = tdsfam.to_real(s, extra_tds=v)
        sc["sid"] += "+" + ",".join("%s=%s" % kv for kv in sorted(v.items()))
        real.append(sc)
    # longer runs with real dynamics (a line trip) and injected failures next to the event
    for k in range(6 if quick else 60):
        fails = sorted(rnd.sample(range(2, 40), 3))
        v = variants[k % len(variants)]
        tds = dict(tstep=1 / 30, fixt=k % 2, no_tqdm=1)
        tds.update(v)
        real.append(dict(sid="trip[fixt=%d|%s|fail=%s]" % (k % 2, ",".join("%s=%s" % kv for kv in sorted(v.items())),
                                                         ".".join(map(str, fails))),
                         case="kundur/kundur_full.json", family="trip", segs=[1.2], fail=fails, tds=tds,
                         events=[dict(add="Toggle", model="Line", dev="Line_8", t=0.5)]))
    # a step that was clipped to an event time (0.1, 0.2, then 0.25) or to the end time fails and is retried: the time is given back
    for fails, tfin in (([4], 0.6), ([5], 0.6), ([4, 5], 0.6), ([10], 0.6), ([3, 9], 0.6)):
        real.append(dict(sid="clipped-and-rejected[fail=%s|tf=%g]" % (".".join(map(str, fails)), tfin), case="kundur/kundur_full.json", family="trip",
                         segs=[tfin], fail=fails, tds=dict(tstep=0.1, fixt=1, shrinkt=1, no_tqdm=1),
                         events=[dict(add="Toggle", model="Line", dev="Line_8", t=0.25)]))
    real += tdsfam.time_constant_scenarios() + tdsfam.tiny_step_scenarios()
    # disturbances that drive anti-windup limiters to a limit and let them come back (the integrator is told which states are
    # pegged by the limiters; a state that is free again must follow its equation from that step on)
    for bus, t1, t2, xf in ((7, 0.5, 0.6, 0.01), (8, 0.2, 0.45, 0.001)) + (() if quick else ((9, 0.3, 0.4, 0.02), (7, 0.1, 0.35, 0.005))):
        real.append(dict(sid="limits[kundur_full|fault bus %d %g-%g s]" % (bus, t1, t2), case="kundur/kundur_full.json", family="limits", segs=[3.0],
                         events=[dict(add="Fault", bus=bus, tf=t1, tc=t2, xf=xf)], tds=dict(no_tqdm=1, criteria=0)))
    for ts in (0.05, 0.1) + (() if quick else (0.02, 0.2)):
        real.append(dict(sid="fixedstep[kundur_full|tstep=%g]" % ts, case="kundur/kundur_full.json", family="fixedstep", segs=[1.0], events=[],
                         tds=dict(no_tqdm=1, tstep=ts, fixt=1)))
    real.append(dict(sid="limits[ieee14_fault]", case="ieee14/ieee14_fault.json", family="limits", segs=[2.0], events=[], drop_stock_events=False,
                     tds=dict(no_tqdm=1)))
    out = tdsfam.run_and_validate(real, rep, timeout=600, label="failure plans")
    tdsfam.judge(PID, out, rep)
    for sc, o in out[:2]:
        if o["status"] == "ok":
            rep.sample(dict(scenario=tdsfam._strip(sc), verdict=o["verdict"]))
    nrej = sum(o["verdict"]["nrej"] for _, o in out if o["status"] == "ok")
    nacc = sum(o["verdict"]["nacc"] for _, o in out if o["status"] == "ok")
    rep.extra["attempts_recorded"] = dict(accepted=nacc, rejected=nrej)
    rep.rule = ("lattice points of ITMRule (all evaluated) + runs with injected Newton failures; non-trivial = a lattice "
                "point, or a run with at least one rejected step / fired event / resume")
    rep.assume("a planned failure is produced by TDS.config.tol = -1 during that attempt (real non-convergence path)")
    rep.assume("order-of-convergence clause is not decided by this technique")
    return rep.finish()


def replay(path):
    d = json.load(open(path))
    rep = Report(PID, "quick")
    if "scenario" in (d.get("replay") or {}):
        out = tdsfam.run_and_validate([d["replay"]["scenario"]], rep, label="replay")
        tdsfam.judge(PID, out, rep)
    else:
        lattice(rep)
    return 1 if rep.violations else 0
