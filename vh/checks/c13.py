"""
C13 - case files round-trip; one case in different formats is one system.

1. TLC: CaseIO.tla - normalisation of a value by add() (missing -> default; non_zero / non_positive / non_negative ->
   default) must not depend on whether a format delivers the number as int (xlsx) or float (json), and dump -> load is
   the identity on normal forms; negative control: the float-only rules of the code as found violate KindIndependent.
2. M1/M2: stock cases and generated networks (string / numeric idx, non-default bases, offline devices, several loads per
   bus, transformers) are written to xlsx and json (and chained xlsx>json, json>xlsx), read back and compared: same
   devices, same input-base values (numbers, strings, lists, missing), same power flow, same initialisation verdict;
   also after alter() (a writer must not serve a stale table); MATPOWER export -> import gives the same power flow,
   including a unity-ratio phase shifter.  TLC validates the records (Trace_CaseIO).
3. Independent reading of the source (vh/srcread.py shares nothing with andes/io): every shipped PSS/E raw and MATPOWER file and
   text-edited variants of the raw files (branch-end shunts, metered end, fixed shunt, winding-2 turns ratio, phase shift,
   magnetizing admittance, windings in kV, out-of-service records, another system base, three-winding transformers) are read
   by the library and solved; the reported voltages must balance the network the independent reader takes from the file.
   The dyr file: every record of a model whose CON layout is transcribed in vh/srcread.py (14 models) against the device the
   library attaches to the machine the record names, value by value.
"""
import json
import os
import random

from ..common import NCPU, seed
from ..pool import run_tasks
from ..report import Report
from ..tlc import run_tlc
from .. import tracecheck, pfdrv
from .c10 import stock_cases, dyn_network

PID = "C13"
QUICK = ["kundur/kundur_full.json", "kundur/kundur_full.xlsx", "ieee14/ieee14_pvd1.xlsx", "ieee14/ieee14_full.xlsx", "5bus/pjm5bus.json",
         "ieee14/ieee14_fault.json", "ieee39/ieee39_full.xlsx", "ieee14/ieee14_zip.json", "wscc9/wscc9.xlsx",
         "kundur/kundur_coi.xlsx", "ieee14/ieee14_ace.xlsx", "ieee14/ieee14_alter.xlsx"]


def run(tier):
    rep = Report(PID, tier)
    quick = tier == "quick"
    rnd = random.Random("c13-%d" % seed())
    r = run_tlc("MC_CaseIO", "MC_CaseIO.cfg", timeout=600)
    rep.add_tlc(r, "CaseIO (normalisation independent of numeric kind; round trip identity)")
    if r["machinery_ok"] and r["violation"]:
        rep.note("design-level counterexample in CaseIO: %s" % r["violation"])
    neg = run_tlc("MC_CaseIO", "MC_CaseIO_found.cfg", timeout=600)
    rep.add_tlc(neg, "CaseIO (negative control: float-only rules must violate KindIndependent)")
    rep.extra["negative_control_violates"] = bool(neg["violation"])
    tasks = []
    stock = [c for c in (QUICK if quick else stock_cases()) if os.path.exists(os.path.join("/repo/andes/cases", c))]
    # cases whose devices point to side files relative to the case folder (TimeSeries / play-back data) cannot be moved
    stock = [c for c in stock if not any(x in c for x in ("timeseries", "plbvfu1", "pqts", "plbvf"))]
    for k, c in enumerate(stock):
        fmts = ["json", "xlsx"] if (not quick or k % 2 == 0) else ["json"]
        fmts += (["xlsx>json"] if k % 3 == 0 else []) + (["json>xlsx"] if k % 3 == 1 else [])
        tasks.append(dict(kind="rt", sid="rt[%s]" % c, case=c, formats=fmts, solve=True))
    for c in stock[:3 if quick else 12]:
        # what a writer produces must depend on the current parameters only, not on which writer ran before (a writer that
        # refreshes a shared table hides a stale one in the next): every format alone and in both orders
        for fm in (["xlsx"], ["json"], ["json", "xlsx"], ["xlsx", "json"]):
            tasks.append(dict(kind="rt", sid="rt-altered[%s|%s]" % (c, ",".join(fm)), case=c, formats=fm, solve=(fm == ["xlsx"]),
                              alter=[("PQ", "p0", None, 1.2345), ("PQ", "q0", None, 0.5), ("Line", "u", None, 0), ("PV", "v0", None, 1.02)]))
    for k in range(10 if quick else 80):
        idx_kind = ["int", "str", "auto"][k % 3]
        spec = dyn_network(rnd, k, idx_kind, False, rnd.randint(0, 10 ** 6)) if k % 2 else \
            pfdrv.network_spec(500 + k, ["mixed", "int", "str"][(k // 2) % 3], 1 + k % 3, k)
        tasks.append(dict(kind="rt", sid="rt-gen[k=%d|%s]" % (k, idx_kind), spec=spec, formats=["json", "xlsx"] if k % 2 == 0 else ["xlsx>json"], solve=True))
    for c in (["ieee14/ieee14.json", "kundur/kundur_full.json", "npcc/npcc.xlsx"] if quick else ["ieee14/ieee14.json", "kundur/kundur_full.json", "ieee39/ieee39.xlsx", "npcc/npcc.xlsx", "wscc9/wscc9.xlsx"]):
        tasks.append(dict(kind="matpower", sid="mpc[%s]" % c, case=c))
        tasks.append(dict(kind="matpower", sid="mpc[%s|phase shifter]" % c, case=c, phase_shifter=2))
    # one network, two encodings in the PSS/E format: the k-th transformer entered on its winding base instead of the system base
    for c in (["kundur/kundur.raw", "ieee14/ieee14.raw"] if quick else ["kundur/kundur.raw", "ieee14/ieee14.raw", "wscc9/wscc9.raw", "ieee39/ieee39.raw", "npcc/npcc.raw"]):
        if os.path.exists(os.path.join("/repo/andes/cases", c)):
            tasks.append(dict(kind="raw", sid="raw[%s|transformer on winding base, loads as ZIP mixes]" % c, case=c, zip_variants=3 if quick else 8,
                              variants=[(0, 900.0), (1, 50.0), (-1, 250.0)] if quick else [(k_, sb) for k_ in range(6) for sb in (900.0, 50.0)]))
    for k in range(3 if quick else 12):
        tasks.append(dict(kind="matpower", sid="mpc[generated k=%d: two loads and two shunts on one bus]" % k, case="generated",
                          spec=pfdrv.network_spec(640 + k, "int", 1, k)))
    # the parsed element data agree with an independent reading of the source file: every shipped PSS/E / MATPOWER file as it is,
    # and variants of the raw files that use record fields the shipped files leave at their defaults
    from ..srcread import VARIANT_KINDS
    src_files = ["matpower/case5.m", "matpower/case14.m", "matpower/case118.m", "matpower/case300.m", "ieee14/ieee14.raw", "ieee39/ieee39.raw",
                 "kundur/kundur.raw", "npcc/npcc.raw", "wecc/wecc.raw", "wscc9/wscc9.raw", "wscc9/wscc9_3wxfr.raw", "nordic44/N44_BC.raw"]
    if not quick:
        src_files += ["GBnetwork/GBnetwork.m", "ieee14/ieee14_ieeevc.raw"]
    single = [k for k in VARIANT_KINDS if not k.startswith("xfmr3")]
    for c in src_files:
        if not os.path.exists(os.path.join("/repo/andes/cases", c)):
            continue
        var = []
        if c.endswith(".raw") and "N44" not in c:
            if "3wxfr" in c:
                var = [[("xfmr3", 0)], [("xfmr3_mag", 0)], [("sbase", 0), ("xfmr3_mag", 0)]]
            elif quick and c not in ("kundur/kundur.raw", "ieee14/ieee14.raw", "ieee39/ieee39.raw"):
                var = [[(single[(len(c) + j) % len(single)], j)] for j in range(2)]
            else:
                var = [[(k_, w)] for k_ in single for w in ((1,) if quick else (0, 1, 2, 5))]
                var += [[("sbase", 0), ("xfmr_tap_angle_mag", 1)], [("branch_end_shunts", 0), ("metered_end", 0), ("fixed_shunt", 2)]]
        tasks.append(dict(kind="source", sid="src[%s]" % c, case=c, variants=var))
    for raw_, dyr_ in [("kundur/kundur.raw", "kundur/kundur_full.dyr"), ("ieee14/ieee14.raw", "ieee14/ieee14.dyr"), ("npcc/npcc.raw", "npcc/npcc_full.dyr"),
                       ("wecc/wecc.raw", "wecc/wecc_full.dyr"), ("nordic44/N44_BC.raw", "nordic44/N44_BC.dyr"), ("kundur/kundur.raw", "kundur/kundur_gencls.dyr"),
                       ("wecc/wecc.raw", "wecc/wecc_gencls.dyr"), ("ieee14/ieee14_ieeevc.raw", "ieee14/ieee14_ieeevc.dyr")][:5 if quick else 8]:
        if os.path.exists(os.path.join("/repo/andes/cases", dyr_)):
            tasks.append(dict(kind="dyr", sid="src[%s]" % dyr_, case=raw_, dyr=dyr_))
            if any(x in dyr_ for x in ("ieee14.dyr", "wecc_full", "N44")):
                tasks.append(dict(kind="dyr", sid="src[%s|remote buses]" % dyr_, case=raw_, dyr=dyr_, remote=True))
    ng = 8 if quick else 60
    tasks.append(dict(kind="source", sid="src[generated MATPOWER cases]", generated_mpc=[(k, (100.0, 50.0, 100.0, 400.0)[k % 4]) for k in range(ng)]))
    # fill in the idx of the altered device
    res = run_tasks("vh.checks.c13:task", tasks, nproc=NCPU, timeout=1500)
    traces = []
    for t, x in zip(tasks, res):
        rep.count()
        if x["status"] != "ok":
            if x["status"] == "exc":
                msg = x.get("error", "").strip().splitlines()[-1][:160]
                if "case" in t and t["kind"] == "rt" and "alter" not in t:
                    rep.note("stock case %s not observed: %s" % (t["sid"], msg))
                else:
                    rep.machinery("driver exception in %s" % t["sid"], x.get("error", "")[-1200:])
            else:
                rep.note("%s ended with %s" % (t["sid"], x["status"]))
            continue
        if not x["result"]["ev"]:
            continue                      # a variant that does not apply to this file (e.g. no stabiliser record to edit)
        ev = [{k: v for k, v in e.items() if k not in ("bad", "raised_text")} for e in x["result"]["ev"]]
        traces.append(dict(meta=dict(tid=len(traces) + 1, sid=t["sid"]), ev=ev, detail=x["result"]["ev"]))
    verdicts, tl = tracecheck.validate([dict(meta=t["meta"], ev=t["ev"]) for t in traces], "Trace_CaseIO")
    for t in tl:
        rep.add_tlc(t, "Trace_CaseIO")
    for t in traces:
        v = verdicts.get(t["meta"]["tid"])
        if v is None:
            rep.machinery("trace %s not consumed" % t["meta"]["sid"])
            continue
        rep.traces += 1
        rep.nontriv(t["meta"]["sid"])
        for cl in v.get("drift", []):
            rep.note("%s: %s" % (t["meta"]["sid"], cl))
        for cl in v["viol"]:
            if t["meta"]["sid"].startswith("src["):
                for e in t["detail"]:
                    if e.get("raised") or not e.get("balanced", True):
                        rep.violation("%s:%s|%s" % (cl, t["meta"]["sid"], e["variant"]), "clause %s fails for %s (%s; %s): %s" % (
                            cl, t["meta"]["sid"], e["variant"], "; ".join(e.get("what", [])), json.dumps(e.get("bad") or e.get("raised_text"))[:400]),
                            replay=dict(sid=t["meta"]["sid"], record=e))
                continue
            rep.violation("%s:%s" % (cl, t["meta"]["sid"]), "clause %s fails for %s: %s" % (cl, t["meta"]["sid"], json.dumps(t["detail"])[:400]),
                          replay=dict(sid=t["meta"]["sid"], records=t["detail"]))
    if traces:
        rep.sample(dict(sid=traces[0]["meta"]["sid"], records=traces[0]["detail"]))
    rep.rule = ("stock cases (%s) and generated networks through xlsx / json / chained round trips, after alter, and MATPOWER export/import; "
                "non-trivial = every round trip" % ("fixed list" if quick else "all that load"))
    rep.assume("independent reading of the source (vh/srcread.py): MATPOWER bus / gen / branch matrices and PSS/E rev. 32 / 33 bus, load, fixed shunt, "
               "generator, branch, two- and three-winding transformer records (CW 1-3, CZ 1-2, CM 1, nominal winding voltages equal to the bus base); "
               "the dyr records of 14 models (CON order from the PSS/E model documentation); switched shunts, dc lines, FACTS devices and the other dyr models are not read independently")
    return rep.finish()


def task(t):
    from .. import iodrv
    if t.get("alter"):
        from ..common import load_case
        ss = load_case(t["case"])
        t = dict(t, alter=[(m, p, (ss.models[m].idx.v[min(2, ss.models[m].n - 1)] if i is None else i), v) for (m, p, i, v) in t["alter"]
                           if ss.models[m].n > 0])
    return iodrv.task(t)


def replay(path):
    print(open(path).read()[:3000])
    return 0
