"""
C11 - per-unit conversion and parameter alteration keep both value bases consistent.

1. TLC: PerUnitK (textbook factors over exact rationals + their algebraic identities as ASSUMEs) and
   PerUnit (vin / v / factor / time-constant slot under alter(v|vin) / set / reset: Consistent,
   TimeConstantFollows, ResetRestores) model-checked.
2. M3: for every flagged parameter of every model with devices in the stock cases, the bases found
   (Sn, Vn, Sb, Vb) are handed to TLC, which computes the exact factor for the quantity kind; the
   library's pu_coeff and v = vin * k are compared with it.
3. M1/M2: alter / set / group-alter / reset sequences (TLC-enumerated, length <= 3) at three lifecycle
   points on a real System: both bases, dae.Tf / TDS.Teye, untouched neighbours, reset, and what a
   json / xlsx export writes; records validated by TLC (Trace_PerUnit).
"""
import json
import os
import random
import shutil

from ..common import scratch_dir, NCPU, seed
from ..pool import run_tasks
from ..report import Report
from ..tlc import run_tlc
from .. import tracecheck
from .c10 import stock_cases

PID = "C11"
QUICK_CASES = ["kundur/kundur_full.json", "ieee14/ieee14_full.xlsx", "ieee39/ieee39_full.xlsx", "5bus/pjm5bus.json",
               "ieee14/ieee14_solar.xlsx", "kundur/kundur_vsc.xlsx", "wecc/wecc_full.xlsx", "npcc/npcc.xlsx"]


def run(tier):
    rep = Report(PID, tier)
    quick = tier == "quick"
    rnd = random.Random("c11-%d" % seed())
    r = run_tlc("PerUnit", "MC_PerUnit.cfg", timeout=600)
    rep.add_tlc(r, "PerUnit (value bases under alter/set/reset) + PerUnitK identities")
    if r["machinery_ok"] and r["violation"]:
        rep.note("design-level counterexample in PerUnit: %s" % r["violation"])

    # --- factors on stock cases -----------------------------------------------------------
    cases = [c for c in QUICK_CASES if os.path.exists(os.path.join("/repo/andes/cases", c))] if quick else stock_cases()
    otasks = [dict(case=c, sid=c) for c in cases]
    # stock devices are rated on their buses' voltage; generated networks rate branches, loads and shunts on other bases
    for sd in range(3 if quick else 12):
        for base in (2, 3):
            otasks.append(dict(case="generated[seed=%d|base=%d]" % (700 + sd, base), sid="gen%d.%d" % (sd, base), gen=[700 + sd, "int", base, sd]))
    otasks.append(dict(case="kundur/kundur_vsc.json", sid="dc-extra", dc_extra=[(200.0, 0.5), (50.0, 3.0), (100.0, 1.0)]))
    obs = run_tasks("vh.pudrv:observe_case", otasks, nproc=NCPU, timeout=600)
    cases = [t["case"] for t in otasks]
    recs = []
    for c, o in zip(cases, obs):
        if o["status"] == "ok":
            recs += [dict(x, case=c) for x in o["result"]["recs"]]
        else:
            rep.note("stock case %s not observed (%s)" % (c, o["status"]))
    tuples = sorted({json.dumps(x["bases"]) for x in recs})
    d = scratch_dir("pu")
    try:
        bpath = os.path.join(d, "bases.json")
        out = os.path.join(d, "out.json")
        json.dump([json.loads(t) for t in tuples], open(bpath, "w"))
        r = run_tlc("Scen_PerUnit", "Scen_PerUnit.cfg", workers=1, timeout=900, env={"OUT": out, "BASES": bpath})
        rep.add_tlc(r, "Scen_PerUnit (exact factors for %d base tuples; sequences)" % len(tuples))
        data = json.load(open(out))
    finally:
        shutil.rmtree(d, ignore_errors=True)
    fac = {t: f for t, f in zip(tuples, data["factors"])}
    seen = set()
    for x in recs:
        rep.count()
        f = fac[json.dumps(x["bases"])][x["kind"]]
        k = f[0] / f[1]
        key = (x["model"], x["param"], x["kind"])
        if abs(k - 1.0) > 1e-12:
            rep.nontriv("%s.%s:%s:%s" % (x["model"], x["param"], x["kind"], json.dumps(x["bases"])))
        ok = abs(x["k"] - k) <= 1e-9 * max(1.0, abs(k)) and abs(x["v"] - x["vin"] * k) <= 1e-9 * max(1.0, abs(x["vin"] * k))
        if not ok and key not in seen:
            seen.add(key)
            rep.violation("FactorIsTextbookRatio:%s.%s:%s" % key,
                          "%s.%s (%s) of device %s in %s: pu_coeff=%r v=%r vin=%r, exact factor %d/%d for bases %s" % (
                              x["model"], x["param"], x["kind"], x["dev"], x["case"], x["k"], x["v"], x["vin"], f[0], f[1], x["bases"]),
                          replay=x)
    rep.extra["flagged_parameters_checked"] = len(recs)
    rep.extra["distinct_model_params"] = len({(x["model"], x["param"]) for x in recs})
    rep.extra["distinct_base_tuples"] = len(tuples)
    if recs:
        rep.sample(dict(flagged_parameter=recs[0], exact_factor=fac[json.dumps(recs[0]["bases"])][recs[0]["kind"]]))

    # --- sequences ---------------------------------------------------------------------------
    seqs = sorted(data["seqs"], key=lambda q: (len(q), q))
    points = ["after_setup", "after_pflow", "after_tds_init"]
    scs = []
    pick = seqs if not quick else ([q for q in seqs if len(q) <= 2] + rnd.sample([q for q in seqs if len(q) == 3], 50))
    for k, q in enumerate(pick):
        for pt in (points if not quick else [points[k % 3]]):
            # what is exported afterwards, in which order, and whether the case had already been exported before the
            # alterations (an exporter must not serve a table built earlier)
            fm = [["json"], ["xlsx"], ["json", "xlsx"], ["xlsx", "json"]][k % 4]
            first = [None, ["xlsx"], None, ["json"], ["json", "xlsx"], None][k % 6]
            scs.append(dict(sid="seq[%s|%s|export %s%s]" % (pt, ">".join(q), ",".join(fm), "|exported before: " + ",".join(first) if first else ""),
                            point=pt, ops=q, formats=fm, export_first=first))
    # a parameter that is the time constant of two states (REGCA1.Tg), and exciter / governor time constants
    tg = {"REGCA1.Tg": ["REGCA1", "Tg", 1, "RenGen"], "GENROU.M": ["GENROU", "M", "GENROU_2", "SynGen"]}
    for k, q in enumerate([["alter_v"], ["alter_v", "alter_vin"], ["group_alter", "alter_v"], ["set", "alter_v"], ["alter_vin", "set"]]):
        for pt in points:
            scs.append(dict(sid="seq2[ieee14_solar|%s|%s]" % (pt, ">".join(q)), point=pt, ops=q, formats=["json"],
                            case="ieee14/ieee14_solar.xlsx", targets=tg))
    # the whole input table handed back with one cell changed (Model.update_from_df(vin=True), the path of the notebook sheet editor):
    # a load power and a line reactance on the system base (conversion factor one) and a machine reactance on the machine base
    tb = {"PQ.p0": ["PQ", "p0", "PQ_0", "StaticLoad"], "GENROU.xd": ["GENROU", "xd", 3, "SynGen"], "Line.x": ["Line", "x", "Line_2", "ACLine"]}
    for k, q in enumerate([["table_vin"], ["table_vin", "table_vin", "table_vin"], ["alter_v", "table_vin", "table_vin"], ["table_vin", "set", "table_vin"]]):
        for pt in ("after_setup", "after_pflow"):
            scs.append(dict(sid="seq3[kundur_full|%s|%s]" % (pt, ">".join(q)), point=pt, ops=q, formats=["json"], targets=tb))
    for i, sc in enumerate(scs):
        sc["tid"] = i + 1
    res = run_tasks("vh.pudrv:run_sequence", scs, nproc=NCPU, timeout=600)
    traces = [x["result"] for x in res if x["status"] == "ok"]
    verdicts, tl = tracecheck.validate(traces, "Trace_PerUnit")
    for t in tl:
        rep.add_tlc(t, "Trace_PerUnit")
    for sc, x in zip(scs, res):
        rep.count()
        if x["status"] != "ok":
            if x["status"] == "exc":
                rep.machinery("driver exception in %s" % sc["sid"], x.get("error", "")[-1500:])
            else:
                rep.note("sequence %s ended with %s" % (sc["sid"], x["status"]))
            continue
        v = verdicts.get(sc["tid"])
        if v is None:
            rep.machinery("trace %s not consumed" % sc["sid"])
            continue
        rep.traces += 1
        rep.nontriv(sc["sid"])
        for cl in v["viol"]:
            rep.violation("%s:%s" % (cl, sc["sid"]), "clause %s fails in %s" % (cl, sc["sid"]),
                          replay=dict(scenario=sc, records=x["result"]["ev"]))
    rep.rule = ("every flagged parameter of every device of the observed stock cases against the exact factor (non-trivial = factor "
                "differs from 1); alter/set/reset sequences (TLC-enumerated) x lifecycle point")
    rep.assume("bases are read from the loaded data (Sn, Vn/Vn1, bus Vn, config.mva) and passed to TLC as rationals (denominator <= 10000)")
    rep.assume("Model.set is documented not to touch vin: after set the pair is exempt from the consistency clause until altered or reset")
    return rep.finish()


def replay(path):
    d = json.load(open(path))
    sc = (d.get("replay") or {}).get("scenario")
    if sc:
        sc["tid"] = 1
        from .. import pudrv
        r = pudrv.run_sequence(sc)
        print(json.dumps(r["ev"], indent=1))
    return 0
