"""
C12 - island detection and status propagation match the network graph.

1. TLC: Connectivity.tla - graph definitions (components, isolated buses) sanity-checked on fixed graphs,
   ConnMan (record / act) model-checked for ExactPropagation.
2. M1/M2: every graph on 3 and 4 buses (each candidate branch absent / in / out of service) x slack
   placements x bus-off sets is enumerated by TLC (Scen_Connectivity), built as a real System, and the
   recorded results of connectivity(), of the power flow with isolated buses and of ConnMan propagation are
   validated by TLC against the graph-theoretic definitions (Trace_Connectivity).  5-6 bus graphs: seeded sample.
3. During simulation (ieee14_full): lines are taken out and put back by Toggle (model and group name) and Alter events, two at
   one instant included; the run is paused after each event and the library's islands are validated by TLC against the graph
   of the devices' statuses at that moment.  Bus statuses re-written with their present value before initialisation.
"""
import json
import os
import random
import shutil

from ..common import scratch_dir, NCPU, seed
from ..pool import run_tasks
from ..report import Report
from ..tlc import run_tlc
from .. import tracecheck

PID = "C12"


def scen_space(rep):
    d = scratch_dir("cn")
    try:
        out = os.path.join(d, "c.json")
        r = run_tlc("Scen_Connectivity", "Scen_Connectivity.cfg", workers=1, timeout=600, env={"OUT": out})
        rep.add_tlc(r, "Scen_Connectivity (graph enumeration)")
        data = json.load(open(out))
    finally:
        shutil.rmtree(d, ignore_errors=True)
    for k in ("g3", "g4", "parts6", "parts7"):
        data[k].sort(key=lambda g: json.dumps(g, sort_keys=True))
    return data


def gid(g):
    return "".join({"absent": ".", "on": "1", "off": "0"}[b["st"]] for b in g["br"])


def run(tier):
    rep = Report(PID, tier)
    quick = tier == "quick"
    rnd = random.Random("c12-%d" % seed())
    r = run_tlc("MC_Connectivity", "MC_Connectivity.cfg", timeout=600)
    rep.add_tlc(r, "MC_Connectivity (ConnMan design + definition sanity)")
    if r["machinery_ok"] and r["violation"]:
        rep.note("design-level counterexample in Connectivity: %s" % r["violation"])
    sp = scen_space(rep)
    slacks = sp["slacks"]
    scs = []
    g4 = list(sp["g4"])
    rnd.shuffle(g4)
    graphs = list(sp["g3"]) + (g4[:260] if quick else g4)
    for k, g in enumerate(graphs):
        n = g["n"]
        sl = [s for s in slacks if all(x["bus"] <= n for x in s)]
        offs = sp["off3"] if n == 3 else sp["off4"]
        picks = [sl[k % len(sl)]] if quick else sl
        for j, s in enumerate(picks):
            off = offs[(k + j) % len(offs)]
            scs.append(dict(sid="g%d[%s|slack=%s|off=%s]" % (n, gid(g), ",".join("%d%s" % (x["bus"], "" if x["u"] else "x") for x in s),
                                                              ".".join(map(str, off)) or "-"),
                            n=n, br=g["br"], slacks=s, off=off, shuntsw=[n] if (k + j) % 2 == 0 else [],
                            via="alter" if (k + j) % 3 else "set", idx_kind=("str", "mixed", "int", "int")[(k + j) % 4], rewrite=bool((k + j) % 2),
                            parallel=("on" if (k + j) % 5 == 0 else ("off" if (k + j) % 5 == 1 else None))))
    # many islands with interleaved bus numbering: TLC-enumerated set partitions of 6 / 7 buses (>= 3 blocks)
    parts = [(6, p) for p in sp["parts6"]] + [(7, p) for p in sp["parts7"]]
    if quick:
        rnd.shuffle(parts)
        parts = parts[:90]
    for k, (n, f) in enumerate(parts):
        blocks = {}
        for i, b in enumerate(f):
            blocks.setdefault(b, []).append(i + 1)
        br = []
        for b, mem in sorted(blocks.items()):
            for a, c in zip(mem, mem[1:]):
                br.append(dict(i=a, j=c, st="on"))
            if len(mem) > 2 and k % 2:
                br.append(dict(i=mem[0], j=mem[-1], st="on"))
        # an out-of-service branch between two blocks must not merge them
        keys = sorted(blocks)
        br.append(dict(i=blocks[keys[0]][0], j=blocks[keys[1]][0], st="off"))
        s = [dict(bus=blocks[keys[k % len(keys)]][0], u=1)]
        scs.append(dict(sid="part%d[%s|slack=%d]" % (n, "".join(map(str, f)), s[0]["bus"]), n=n, br=br, slacks=s, off=[],
                        shuntsw=[], via="alter", idx_kind="int" if k % 3 else "str", pflow=False))
    # larger graphs: seeded random (not from TLC: 3^10 graphs)
    for k in range(40 if quick else 1500):
        n = rnd.choice([5, 6])
        br = [dict(i=i, j=j, st=rnd.choice(["absent", "absent", "on", "on", "off"])) for i in range(1, n + 1) for j in range(i + 1, n + 1)]
        s = [dict(bus=rnd.randint(1, n), u=1)] + ([dict(bus=rnd.randint(1, n), u=rnd.choice([0, 1]))] if rnd.random() < 0.3 else [])
        off = sorted(rnd.sample(range(1, n + 1), rnd.choice([0, 1, 2])))
        g = dict(n=n, br=br)
        scs.append(dict(sid="g%d[%s|slack=%s|off=%s]" % (n, gid(g), ",".join("%d%s" % (x["bus"], "" if x["u"] else "x") for x in s),
                                                          ".".join(map(str, off)) or "-"),
                        n=n, br=br, slacks=s, off=off, shuntsw=[rnd.randint(1, n)], via="alter", idx_kind=rnd.choice(["int", "str", "mixed"])))
    # histories of connection states on one System (ieee14: Line positions; bus 14 has lines 12 and 15 (0-based), bus 12: 8 and 14 ...)
    seqs = []
    cand = [[12, 15], [8, 14], [9, 11], [16], [2, 5], []]
    for k in range(6 if quick else 40):
        steps = [[]] + [rnd.choice(cand) for _ in range(3)] + [[]]
        if k == 0:
            steps = [[], [12, 15], [], [8, 14], [12, 15], []]        # same number of islanded buses, different bus
        seqs.append(dict(kind="seq", sid="seq[ieee14|%s]" % ">".join(".".join(map(str, s)) or "-" for s in steps),
                         case="ieee14/ieee14.json", steps=steps, n=0, br=[], slacks=[], off=[]))
    scs += seqs
    # islands after each switching event during a simulation (ieee14_full: line positions as above), by every kind of timed event
    kinds = ["toggle", "alter", "toggle_group"]
    plans = [[(1.0, 12, 0), (1.0, 15, 0), (1.3, 12, 1)],            # bus 14 cut off by two events at one instant, one line back
             [(0.5, 8, 0), (0.8, 14, 0), (1.2, 16, 0)],              # bus 12 cut off in two steps, then bus 8 (a generator bus)
             [(0.4, 9, 0), (0.4, 11, 0), (0.9, 9, 1), (0.9, 11, 1)],
             [(0.6, 2, 0), (0.6, 5, 0), (1.0, 12, 0), (1.0, 15, 0), (1.4, 2, 1)]]
    for k in range(6 if quick else 36):
        plan = plans[k % len(plans)]
        kd = kinds[k % 3] if k < 9 else rnd.choice(kinds)
        evs = []
        for (t, ln, val) in plan:
            kk = kd if k % 2 == 0 else rnd.choice(kinds)
            # a Toggle flips the status; an Alter sets it
            evs.append((t, kk, ln, val))
        scs.append(dict(kind="tds", sid="tds[ieee14_full|%s]" % ",".join("%s@%g:%d=%d" % (kk[0] + kk[-1], t, ln, val) for t, kk, ln, val in evs),
                        case="ieee14/ieee14_full.xlsx", events=evs, n=0, br=[], slacks=[], off=[]))
    for i, sc in enumerate(scs):
        sc["tid"] = i + 1
    res = run_tasks("vh.checks.c12:task", scs, nproc=NCPU, timeout=600)
    traces = [x["result"] for x in res if x["status"] == "ok" and x["result"]["ev"]]
    verdicts, tl = tracecheck.validate(traces, "Trace_Connectivity")
    for t in tl:
        rep.add_tlc(t, "Trace_Connectivity")
    nconn = 0
    for sc, x in zip(scs, res):
        rep.count()
        if x["status"] in ("crash", "timeout"):
            rep.violation("ProcessDies:%s" % sc["sid"], "interpreter %s on graph scenario %s" % (x["status"], sc["sid"]),
                          replay=dict(scenario=sc, outcome=x))
            continue
        if x["status"] == "exc":
            rep.machinery("driver exception in %s" % sc["sid"], x.get("error", "")[-1200:])
            continue
        if not x["result"]["ev"]:
            continue
        v = verdicts.get(sc["tid"])
        if v is None:
            rep.machinery("trace %s not consumed" % sc["sid"])
            continue
        rep.traces += 1
        evs = x["result"]["ev"]
        for e in evs:
            if e["e"] == "tds_raised":
                rep.note("%s: simulation raised %s" % (sc["sid"], e["text"]))
        if any(e["e"] == "conn" and (len(e["island_sets"]) > 1 or e["islanded"]) for e in evs) or sc["off"] or sc.get("kind") in ("seq", "tds"):
            rep.nontriv(sc["sid"])
        for e in evs:
            if e["e"] == "conn_raised":
                rep.violation("ConnectivityRaises:%s" % sc["sid"], "connectivity() raised %s" % e["text"], replay=dict(scenario=sc))
        for cl in v["viol"]:
            rep.violation("%s:%s" % (cl, sc["sid"]), "clause %s fails for graph scenario %s" % (cl, sc["sid"]),
                          replay=dict(scenario=sc, events=evs))
        nconn += 1
    ok = [x for x in res if x["status"] == "ok" and x["result"]["ev"]]
    for x in ok[:2]:
        rep.sample(x["result"])
    rep.exhaustive = False
    rep.extra["graphs_3bus_exhaustive"] = len(sp["g3"])
    rep.extra["graphs_4bus_total"] = len(sp["g4"])
    rep.rule = ("graph = every branch of K3 / K4 absent|on|off (TLC-enumerated; K3 exhaustive, K4 %s) x slack placement x bus-off set; "
                "5-6 bus graphs seeded random; non-trivial = more than one island, an isolated bus or a bus switched off" %
                ("seeded sample of 260" if quick else "exhaustive"))
    return rep.finish()


def task(sc):
    from .. import conndrv
    if sc.get("kind") == "tds":
        return conndrv.run_tds_switching(sc)
    return conndrv.run_sequence(sc) if sc.get("kind") == "seq" else conndrv.run_graph(sc)


def replay(path):
    d = json.load(open(path))
    sc = d["replay"]["scenario"]
    sc["tid"] = 1
    from .. import conndrv
    print(json.dumps(conndrv.run_graph(sc), indent=1)[:4000])
    return 0
