"""
C18 - control blocks realise their documented transfer functions from steady state.

Blocks.tla states, over exact rationals, the documented numerator / denominator of every linear block (gain,
integrator, lag, lead-lag with its zero-time-constant bypass, washout, second-order lag and lead-lag, PI, PID, and the
limited variants inside their limits) and the documented steady-state output.  For every parameter tuple of a grid
(two values per parameter incl. zero time constants) the driver extracts the block's realisation exactly from the
block's own equation strings (checking that they are affine), solves for the response to u = 1 at four rational
values of s (degree + 1 points decide a rational identity of degree <= 3) and evaluates the declared initial values for
a constant input; TLC then verifies that the candidate solves the extracted system, that output * D(s) = N(s), that the
initial values balance every equation and give the documented steady-state output.
"""
import json
import os
import shutil

from ..common import scratch_dir, andes_mod
from ..report import Report
from ..tlc import run_tlc

PID = "C18"


def run(tier):
    rep = Report(PID, tier)
    from .. import blockdrv
    andes_mod()
    recs, skipped = [], []
    for name in blockdrv.SPECS:
        try:
            r, sk = blockdrv.records_for(name)
        except Exception as ex:
            import traceback
            rep.machinery("extraction failed for block %s" % name, traceback.format_exc()[-1500:])
            continue
        recs += r
        skipped += sk
        if not r:
            rep.machinery("no record could be extracted for block %s: %s" % (name, sk[:1]))
    for i, r in enumerate(recs):
        r["id"] = i + 1
    lims = []
    for name in blockdrv.LIMITED:
        try:
            lr = blockdrv.limit_records(name)
        except Exception:
            import traceback
            rep.machinery("limiter records failed for block %s" % name, traceback.format_exc()[-1500:])
            continue
        if not lr:
            rep.machinery("no limiter record for block %s" % name)
        lims += lr
    for i, r in enumerate(lims):
        r["id"] = i + 1
    d = scratch_dir("bk")
    try:
        rp, op, lp = os.path.join(d, "r.json"), os.path.join(d, "o.json"), os.path.join(d, "l.json")
        json.dump(recs, open(rp, "w"))
        json.dump(lims, open(lp, "w"))
        res = run_tlc("Blocks", "Blocks.cfg", workers=1, timeout=1800, env={"RECORDS": rp, "OUT": op, "LIMITS": lp})
        rep.add_tlc(res, "Blocks (documented transfer functions verified on %d extracted records)" % len(recs))
        if not os.path.exists(op):
            rep.machinery("Blocks verification produced no verdicts", res["out"][-1500:])
            return rep.finish()
        verdicts = json.load(open(op))["verdicts"]
        lverdicts = json.load(open(op))["limits"]
    finally:
        shutil.rmtree(d, ignore_errors=True)
    rep.states += len(recs)
    rep.traces += len(verdicts)
    seen = set()
    for v in verdicts:
        rep.count()
        r = recs[v["id"] - 1]
        rep.nontriv("%s|%s|s=%s" % (r["block"], json.dumps(r["p"], sort_keys=True), r["s"]))
        for cl in v["viol"]:
            key = "%s:%s" % (cl, r["block"])
            if key in seen:
                continue
            seen.add(key)
            rep.violation(key, "clause %s fails for block %s, parameters %s, s = %s" % (cl, r["block"], r["p"], r["s"]), replay=r)
    rep.states += len(lims)
    rep.traces += len(lverdicts)
    for v in lverdicts:
        rep.count()
        r = lims[v["id"] - 1]
        rep.nontriv("limit|%s|%s|x=%s|e=%s" % (r["block"], r["limiter"], r["x"], r["e"]))
        for cl in v["viol"]:
            key = "%s:%s.%s" % (cl, r["block"], r["limiter"])
            if key in seen:
                continue
            seen.add(key)
            rep.violation(key, "clause %s fails for limiter %s of block %s watching %s at x = %s, de = %s: flags zi/zl/zu = %s/%s/%s with %s"
                          % (cl, r["limiter"], r["block"], r["watched"], r["x"], r["e"], r["zi"], r["zl"], r["zu"], r["p"]), replay=r)
    rep.extra["limited_blocks"] = sorted({r["block"] for r in lims})
    rep.extra["limit_records"] = len(lims)
    rep.extra["blocks"] = sorted({r["block"] for r in recs})
    rep.extra["records"] = len(recs)
    rep.extra["skipped"] = skipped[:20]
    rep.sample({k: recs[0][k] for k in ("block", "p", "s", "eqs", "resp", "init", "names")})
    rep.exhaustive = True
    rep.rule = ("block x parameter grid (two or three values per parameter, zero time constants included) x four rational values "
                "of s; all evaluated; non-trivial = every record")
    rep.assume("the realisation is read from the block's equation strings (exact Fraction evaluation) - that the generated code "
               "computes those strings is C02's concern; ill-posed tuples (singular system, e.g. T2 = 0 with T1 != 0) are skipped "
               "and listed")
    rep.assume("nonlinear blocks (gates, piecewise, dead band, rate limiters, freeze / tracking variants) are not covered as transfer "
               "functions; limited variants are checked inside their limits (flags zi = 1), and which quantity each of their limiters "
               "watches against which documented pair of bounds is checked on a lattice with the block's own limiter objects")
    return rep.finish()


def replay(path):
    print(open(path).read()[:3000])
    return 0
