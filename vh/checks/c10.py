"""
C10 - variable addressing is a bijection and external links follow device indices.

1. TLC: Addressing.tla (request_address blocks, collated and contiguous, two rounds) - Bijection,
   SecondRoundKeepsFirst, AllAddressed for every device-count vector within MaxDev.
2. M1: generated systems - device multisets over real models, every add order of the power-flow
   devices (sampled in quick), int / str / auto idx, bus idx starting at 0, models with zero devices,
   collate on / off for dynamic models, remote-bus (optional index) fields - built through System.add,
   observed after set-up and after TDS.init.
3. M2: address tables of stock cases (all that load in thorough) after both phases.
   TLC validates every observation against the C10 clauses (Trace_Addressing).
"""
import itertools
import json
import os
import random

from ..common import NCPU, seed, CASES
from ..pool import run_tasks
from ..report import Report
from ..tlc import run_tlc
from .. import tracecheck, netbuild

PID = "C10"

STOCK_QUICK = ["kundur/kundur_full.json", "ieee14/ieee14_pvd1.json", "5bus/pjm5bus.json", "ieee14/ieee14_full.xlsx",
               "kundur/kundur_coi.json", "kundur/kundur_motor.xlsx", "kundur/kundur_coi_partial.xlsx"]


def stock_cases():
    out = []
    for d, _, files in os.walk(CASES):
        for f in sorted(files):
            if f.endswith((".json", ".xlsx")) and "matpower" not in d and not f.startswith(("pqts", "plbvf")):
                out.append(os.path.relpath(os.path.join(d, f), CASES))
    return sorted(out)


def dyn_network(rnd, k, idx_kind, zero_based, order_seed):
    """A small network with dynamic devices attached; the order of the power-flow devices is shuffled."""
    n = 4
    off = 0 if zero_based else 1
    def bid(i):
        i = i - 1 + off
        return i if idx_kind != "str" else "B%d" % i
    devs = [dict(model="Bus", idx=bid(i), Vn=110.0) for i in range(1, n + 1)]
    mk = (lambda s, i: (i if idx_kind == "int" else ("%s%d" % (s, i) if idx_kind == "str" else None)))
    lines = [(1, 2), (2, 3), (3, 4), (1, 4), (1, 3)]
    rest = []
    for j, (a, b) in enumerate(lines):
        rest.append(dict(model="Line", idx=mk("L", j + 1), bus1=bid(a), bus2=bid(b), Vn1=110.0, Vn2=110.0, r=0.01, x=0.1, b=0.01))
    rest.append(dict(model="Slack", idx=mk("S", 1) if idx_kind != "auto" else "S1", bus=bid(1), Vn=110.0, v0=1.02, a0=0, p0=0.3, q0=0.1))
    rest.append(dict(model="PV", idx=mk("G", 2) if idx_kind != "auto" else "G2", bus=bid(3), Vn=110.0, v0=1.01, p0=0.3, q0=0.05))
    rest.append(dict(model="PV", idx=mk("G", 3) if idx_kind != "auto" else "G3", bus=bid(4), Vn=110.0, v0=1.01, p0=0.2, q0=0.05))
    for j, b in enumerate([2, 3, 4] if k % 3 else [2, 2, 4]):
        rest.append(dict(model="PQ", idx=mk("D", j + 1), bus=bid(b), Vn=110.0, p0=0.25, q0=0.05))
    if k % 2:
        rest.append(dict(model="Shunt", idx=mk("H", 1), bus=bid(2), Vn=110.0, b=0.05))
    random.Random(order_seed).shuffle(rest)
    gens = [("S1" if idx_kind == "auto" else mk("S", 1), 1), ("G2" if idx_kind == "auto" else mk("G", 2), 3),
            ("G3" if idx_kind == "auto" else mk("G", 3), 4)]
    dyn = []
    for j, (g, b) in enumerate(gens):
        model = "GENROU" if (j + k) % 2 else "GENCLS"
        d = dict(model=model, idx=(mk("M", j + 1) if idx_kind != "auto" else "M%d" % (j + 1)), bus=bid(b), gen=g, Vn=110.0,
                 Sn=100.0, M=6.0, D=1.0, xd1=0.3)
        if model == "GENROU":
            d.update(xd=1.8, xq=1.7, xq1=0.55, xd2=0.25, xq2=0.25, Td10=8.0, Td20=0.03, Tq10=0.4, Tq20=0.05, xl=0.2, ra=0.0)
        dyn.append(d)
        syn = d["idx"]
        if (j + k) % 3 == 0:
            dyn.append(dict(model="TGOV1", idx=mk("T", j + 1), syn=syn, R=0.05, T1=0.5, T2=1.0, T3=2.0))
        if (j + k) % 3 == 1 and model == "GENROU":
            dyn.append(dict(model="EXDC2", idx=mk("E", j + 1), syn=syn))
    # a device with an optional remote-bus index field (DataSelect): remote bus = first bus (idx 0 when zero-based)
    if k % 2 == 0 and idx_kind != "str":     # DataSelect cannot take a string remote-bus idx (np.isnan raises TypeError)
        dyn.append(dict(model="PVD1", idx=mk("V", 1), bus=bid(2), gen=(mk("D", 1) if False else gens[1][0]), igreg=bid(1), Sn=10.0,
                        gammap=0.1, gammaq=0.1, pqflag=0))
    return dict(devices=devs + rest + dyn)


def run(tier):
    rep = Report(PID, tier)
    quick = tier == "quick"
    rnd = random.Random("c10-%d" % seed())
    r = run_tlc("MC_Addressing", "MC_Addressing.cfg", timeout=600)
    rep.add_tlc(r, "MC_Addressing (allocation design)")
    if r["machinery_ok"] and r["violation"]:
        rep.note("design-level counterexample in Addressing: %s" % r["violation"])
    scs = []
    ngen = 48 if quick else 600
    for k in range(ngen):
        idx_kind = ["int", "str", "auto"][k % 3]
        zero = (k % 4 == 0) and idx_kind == "int"
        col = [[], ["GENROU"], ["GENROU", "EXDC2", "TGOV1"], ["GENCLS", "PQ"]][k % 4] if k % 2 else []
        spec = dyn_network(rnd, k, idx_kind, zero, order_seed=rnd.randint(0, 10 ** 6))
        scs.append(dict(sid="gen[k=%d|idx=%s|zero=%d|collate=%s]" % (k, idx_kind, int(zero), "+".join(col) or "-"),
                        spec=spec, collate=col))
    cases = STOCK_QUICK if quick else stock_cases()
    for c in cases:
        scs.append(dict(sid="stock[%s]" % c, case=c, collate=[]))
    for c in (cases[:2] if quick else cases[:12]):
        scs.append(dict(sid="stock[%s|collate]" % c, case=c, collate=["GENROU", "EXDC2", "TGOV1", "GENCLS"]))
    # set-up a second time on the same System (System.reset): cases with states in the power-flow phase included
    for c in (["kundur/kundur_motor.xlsx", "kundur/kundur_full.json", "ieee14/ieee14_pvd1.json"] if quick else
              ["kundur/kundur_motor.xlsx"] + cases[:25]):
        if os.path.exists(os.path.join(CASES, c)):
            scs.append(dict(sid="stock[%s|reset]" % c, case=c, collate=[], reset=True))
    # optional index fields with missing entries before, between and after the entries that are set (back-references)
    for pat in ([None, 1, 1, 2], [2, None, 1, 1], [1, None, None, 2], [None, None, 1, 1]):
        scs.append(dict(sid="stock[kundur/kundur_coi.xlsx|GENROU.coi=%s]" % pat, case="kundur/kundur_coi.xlsx", collate=[],
                        set_before_setup=[("GENROU", "coi", pat)]))
    # one index column holding numbers and a string (a third centre of inertia named by a string): the borrowed speed / angle slots
    # must still follow each generator's coi field
    scs.append(dict(sid="stock[kundur/kundur_coi.xlsx|COI-named-by-a-string-next-to-numbered-ones]", case="kundur/kundur_coi.xlsx", collate=[],
                    add_before_setup=[("COI", dict(idx="COI_B"))], set_before_setup=[("GENROU", "coi", [1, 2, "COI_B", "COI_B"])], must_work=True))
    # devices that borrow an index-valued parameter from the device they name (a ZIP / frequency-dependent load takes the bus of
    # its PQ, an area-control device the area of its bus), added in an order that is not the order of the parent table
    scs.append(dict(sid="stock[ieee14/ieee14_full.xlsx|loads and area control added out of order]", case="ieee14/ieee14_full.xlsx", collate=[],
                    add_before_setup=[("ZIP", dict(idx="ZIP_A", pq="PQ_9", kpp=50, kpi=40, kpz=10, kqp=100, kqi=0, kqz=0)),
                                      ("ZIP", dict(idx=7, pq="PQ_3", kpp=20, kpi=20, kpz=60, kqp=40, kqi=20, kqz=40)),
                                      ("FLoad", dict(idx="FL_1", pq="PQ_6")), ("FLoad", dict(idx=2, pq="PQ_2")),
                                      ("ACEc", dict(idx="ACE_X", bus=13, bias=-10)), ("ACEc", dict(idx=3, bus=2, bias=-10))]))
    for i, sc in enumerate(scs):
        sc["tid"] = i + 1
    res = run_tasks("vh.addrdrv:run_addr", scs, nproc=NCPU, timeout=600)
    traces = [x["result"] for x in res if x["status"] == "ok" and x["result"]["ev"]]
    verdicts, tl = tracecheck.validate(traces, "Trace_Addressing")
    for t in tl:
        rep.add_tlc(t, "Trace_Addressing")
    for sc, x in zip(scs, res):
        rep.count()
        if x["status"] in ("crash", "timeout"):
            rep.note("scenario %s ended with %s" % (sc["sid"], x["status"]))
            continue
        if x["status"] == "exc":
            if sc.get("must_work"):
                # a legal variant of a case that sets up and initialises as shipped: an exception from the library is the observation
                rep.violation("LegalIndexKindsSetUpAndInitialise:%s" % sc["sid"], "set-up / initialisation raised for a legal case: %s" % (
                    x.get("error", "").strip().splitlines()[-1][:200]), replay=dict(scenario={k: v for k, v in sc.items() if k != "tid"}))
            elif "case" in sc:
                rep.note("stock case %s could not be observed: %s" % (sc["case"], x.get("error", "").strip().splitlines()[-1][:160]))
            else:
                rep.machinery("driver exception in %s" % sc["sid"], x.get("error", "")[-1500:])
            continue
        if not x["result"]["ev"]:
            if "spec" in sc:
                rep.machinery("generated system %s failed set-up" % sc["sid"])
            continue
        v = verdicts.get(sc["tid"])
        if v is None:
            rep.machinery("trace %s not consumed" % sc["sid"])
            continue
        rep.traces += 1
        if len(x["result"]["ev"]) > 1:
            rep.nontriv(sc["sid"])
        for cl in v["viol"]:
            rep.violation("%s:%s" % (cl, sc["sid"]), "clause %s fails for %s" % (cl, sc["sid"]), replay=dict(scenario=sc))
    ok = [x for x in res if x["status"] == "ok" and x["result"]["ev"]]
    if ok:
        e = ok[0]["result"]["ev"][0]
        rep.sample(dict(sid=scs[0]["sid"], phase=e["phase"], n=e["n"], m=e["m"], first_vars=e["y"][:3], first_ext=e["ext"][:2]))
    rep.rule = ("generated systems (device orders shuffled, idx kinds, zero-based bus idx, collate sets, optional remote-bus field) "
                "and stock cases, each observed after set-up and after TDS.init; non-trivial = both phases observed")
    rep.assume("slot names are checked against the convention '<var> <Model> <idx>' (first token = variable, tail ends with idx)")
    return rep.finish()


def replay(path):
    d = json.load(open(path))
    sc = d["replay"]["scenario"]
    sc["tid"] = 1
    from .. import addrdrv
    r = addrdrv.run_addr(sc)
    v, _ = tracecheck.validate([r], "Trace_Addressing")
    print(v)
    return 1 if any(x["viol"] for x in v.values()) else 0
