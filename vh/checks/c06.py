"""
C06 - scheduled events fire exactly once at their exact time; the time grid is exact.

1. TLC checks the faithful design (TDSLoop, SkipMode="lookahead") exhaustively within the
   constants of MC_TDSLoop[Q]; a negative control shows that the former "advance" skip rule
   violates ExactlyOnce (non-vacuity).
2. M1: the scenario space of the model (event schedules x segmentation x stepping mode x
   failure plans) is enumerated by TLC and replayed into the real code.
3. M2: every such run, seeded random float schedules and stock cases with their own events
   are recorded and validated by TLC against Trace_TDSLoop (property layer = C06 clauses).
"""
import json

from ..report import Report
from ..tlc import run_tlc
from .. import tdsfam

PID = "C06"


def run(tier):
    rep = Report(PID, tier)
    quick = tier == "quick"
    rnd = tdsfam.rnd_for(PID)

    # 1. exhaustive model checking of the design ---------------------------------------
    mod = "MC_TDSLoopQ" if quick else "MC_TDSLoop"
    r = run_tlc(mod, mod + ".cfg", timeout=3000, coverage=False)
    rep.add_tlc(r, mod + " (design, lookahead)")
    if r["machinery_ok"] and r["violation"]:
        rep.note("design-level counterexample in %s: %s (not a verdict on the code; see traces)" % (mod, r["violation"]))
        rep.extra["design_counterexample"] = r.get("trace_text", "")[:4000]
    neg = run_tlc("MC_TDSLoopQ", "MC_TDSLoopQ_neg.cfg", timeout=1200)
    rep.add_tlc(neg, "MC_TDSLoopQ_neg (negative control: 'advance' skip rule must violate ExactlyOnce)")
    rep.extra["negative_control_violates"] = bool(neg["violation"] and neg["violation"]["name"] == "ExactlyOnce")
    if neg["machinery_ok"] and not rep.extra["negative_control_violates"]:
        rep.machinery("negative control did not produce the expected ExactlyOnce counterexample (vacuity?)")

    # 2. scenarios from TLC, replayed ----------------------------------------------------
    scen = tdsfam.tlc_scenarios(rep)
    rep.extra["model_scenarios_total"] = len(scen)
    if quick:
        pick = [s for s in scen if not s["fail"]]
        rnd.shuffle(pick)
        withfail = [s for s in scen if s["fail"]]
        rnd.shuffle(withfail)
        chosen = pick[:260] + withfail[:140]
        # always include the boundary schedules: both timers at t0 / tf / coincident
        must = [s for s in scen if not s["fail"] and s["fixt"] and s["shrinkt"] and s["segs"] == [40]
                and all(t["en"] for t in s["timers"]) and {t["tau"] for t in s["timers"]} <= {0, 40}]
        chosen += must
    else:
        chosen = scen
        rnd.shuffle(chosen)
        chosen = chosen[:12000]
    real = [tdsfam.to_real(s, extra_tds=(dict(refresh_event=1) if k % 5 == 4 else None)) for k, s in enumerate(chosen)]
    for k, sc in enumerate(real):
        if k % 5 == 4:
            sc["sid"] += "+refresh"
    evs = tdsfam.event_scenarios(rep)
    fa, al = list(evs["fault"]), list(evs["alter"])
    rnd.shuffle(fa)
    rnd.shuffle(al)
    if quick:
        # coincident apply/clear of two faults is a boundary the sample must always contain
        co = [f for f in evs["fault"] if f["f1"][1] == f["f2"][0] and f["en2"]][:12]
        fa, al = co + fa[:70], al[:60]
    real += [tdsfam.fault_to_real(f) for f in fa] + [tdsfam.alter_to_real(a) for a in al]
    if not quick:
        real += [tdsfam.to_real(s, case="smib/SMIB.json") for s in chosen[:1500]]
    out = tdsfam.run_and_validate(real, rep, label="model scenarios")
    tdsfam.judge(PID, out, rep)
    rep.extra["model_scenarios_replayed"] = len(real)
    rep.exhaustive = False

    # 3. float schedules and stock cases ----------------------------------------------------
    fl = tdsfam.known_float_regressions() + tdsfam.float_schedules(40 if quick else 1500, rnd, tf_max=2.0 if quick else 4.0)
    out2 = tdsfam.run_and_validate(fl, rep, label="float schedules")
    tdsfam.judge(PID, out2, rep)
    st = tdsfam.stock_scenarios(limit=4 if quick else None)
    out3 = tdsfam.run_and_validate(st, rep, timeout=900, label="stock cases")
    tdsfam.judge(PID, out3, rep)

    for sc, o in (out + out2 + out3)[:1] + out2[:2] + out3[:1]:
        if o["status"] == "ok":
            rep.sample(dict(scenario=tdsfam._strip(sc), verdict=o["verdict"], first_events=o["trace"]["ev"][:6]))
    rep.rule = ("scenario = event schedule x segmentation x stepping mode x failure plan; model scenarios are enumerated by "
                "TLC (Scen_TDSLoop) and %s; float schedules are seeded random; non-trivial = at least one event fired, "
                "a step was rejected or the run was resumed" % ("sampled with VERIF_SEED" if quick else "replayed up to 12000"))
    rep.assume("1 model time unit = 1e-5 s when replayed; Newton outcome classes are abstracted in the model")
    rep.assume("event effects observed through Toggle targets' u and Fault.uf; Alter/TimeSeries effects in thorough stock cases only")
    return rep.finish()


def replay(path):
    d = json.load(open(path))
    sc = d["replay"]["scenario"]
    rep = Report(PID, "quick")
    out = tdsfam.run_and_validate([sc], rep, label="replay")
    for s, o in out:
        print(json.dumps(o.get("verdict", o), indent=1)[:3000])
    tdsfam.judge(PID, out, rep)
    return 1 if rep.violations else 0
