"""
C06 - scheduled events fire exactly once at their exact time; the time grid is exact.

1. TLC checks the faithful design (TDSLoop, SkipMode="lookahead") exhaustively within the
   constants of MC_TDSLoop[Q]; a negative control shows that the former "advance" skip rule
   violates ExactlyOnce (non-vacuity).
2. M1: the scenario space of the model (event schedules x segmentation x stepping mode x
   failure plans) is enumerated by TLC and replayed into the real code.
3. M2: every such run, seeded random float schedules and stock cases with their own events
   are recorded and validated by TLC against Trace_TDSLoop (property layer = C06 clauses).
"""
import json

from ..report import Report
from ..tlc import run_tlc
from .. import tdsfam

PID = "C06"


def run(tier):
    rep = Report(PID, tier)
    quick = tier == "quick"
    rnd = tdsfam.rnd_for(PID)

    # 1. exhaustive model checking of the design ---------------------------------------
    mod = "MC_TDSLoopQ" if quick else "MC_TDSLoop"
    r = run_tlc(mod, mod + ".cfg", timeout=3000, coverage=False)
    rep.add_tlc(r, mod + " (design, lookahead)")
    if r["machinery_ok"] and r["violation"]:
        rep.note("design-level counterexample in %s: %s (not a verdict on the code; see traces)" % (mod, r["violation"]))
        rep.extra["design_counterexample"] = r.get("trace_text", "")[:4000]
    neg = run_tlc("MC_TDSLoopQ", "MC_TDSLoopQ_neg.cfg", timeout=1200)
    rep.add_tlc(neg, "MC_TDSLoopQ_neg (negative control: 'advance' skip rule must violate ExactlyOnce)")
    rep.extra["negative_control_violates"] = bool(neg["violation"] and neg["violation"]["name"] == "ExactlyOnce")
    if neg["machinery_ok"] and not rep.extra["negative_control_violates"]:
        rep.machinery("negative control did not produce the expected ExactlyOnce counterexample (vacuity?)")

    # 2. scenarios from TLC, replayed ----------------------------------------------------
    scen = tdsfam.tlc_scenarios(rep)
    rep.extra["model_scenarios_total"] = len(scen)
    if quick:
        pick = [s for s in scen if not s["fail"]]
        rnd.shuffle(pick)
        withfail = [s for s in scen if s["fail"]]
        rnd.shuffle(withfail)
        chosen = pick[:260] + withfail[:140]
        # always include the boundary schedules: both timers at t0 / tf / coincident
        must = [s for s in scen if not s["fail"] and s["fixt"] and s["shrinkt"] and s["segs"] == [40]
                and all(t["en"] for t in s["timers"]) and {t["tau"] for t in s["timers"]} <= {0, 40}]
        chosen += must
    else:
        chosen = scen
        rnd.shuffle(chosen)
        chosen = chosen[:4000]
    real = [tdsfam.to_real(s, extra_tds=(dict(refresh_event=1) if k % 5 == 4 else None)) for k, s in enumerate(chosen)]
    for k, sc in enumerate(real):
        if k % 5 == 4:
            sc["sid"] += "+refresh"
    evs = tdsfam.event_scenarios(rep)
    fa, al = list(evs["fault"]), list(evs["alter"])
    rnd.shuffle(fa)
    rnd.shuffle(al)
    if quick:
        # coincident apply/clear of two faults is a boundary the sample must always contain
        co = [f for f in evs["fault"] if f["f1"][1] == f["f2"][0] and f["en2"]][:12]
        fa, al = co + fa[:70], al[:60]
    real += [tdsfam.fault_to_real(f) for f in fa] + [tdsfam.alter_to_real(a) for a in al]
    if not quick:
        real += [tdsfam.to_real(s, case="smib/SMIB.json") for s in chosen[:500]]
    out = tdsfam.run_and_validate(real, rep, label="model scenarios")
    tdsfam.judge(PID, out, rep)
    rep.extra["model_scenarios_replayed"] = len(real)
    rep.exhaustive = False

    # 3. float schedules and stock cases ----------------------------------------------------
    fl = tdsfam.known_float_regressions() + tdsfam.late_schedules() + tdsfam.init_then_run_scenarios() + tdsfam.float_schedules(40 if quick else 600, rnd, tf_max=2.0 if quick else 4.0)
    out2 = tdsfam.run_and_validate(fl, rep, label="float schedules")
    tdsfam.judge(PID, out2, rep)
    st = tdsfam.stock_scenarios(limit=4 if quick else None)
    out3 = tdsfam.run_and_validate(st, rep, timeout=900, label="stock cases")
    tdsfam.judge(PID, out3, rep)

    # 4. time-series updates (rows of a data file applied at their stamps) ------------------------------
    timeseries(rep, quick, rnd)

    for sc, o in (out + out2 + out3)[:1] + out2[:2] + out3[:1]:
        if o["status"] == "ok":
            rep.sample(dict(scenario=tdsfam._strip(sc), verdict=o["verdict"], first_events=o["trace"]["ev"][:6]))
    rep.rule = ("scenario = event schedule x segmentation x stepping mode x failure plan; model scenarios are enumerated by "
                "TLC (Scen_TDSLoop) and %s; float schedules are seeded random; non-trivial = at least one event fired, "
                "a step was rejected or the run was resumed" % ("sampled with VERIF_SEED" if quick else "replayed up to 4000"))
    rep.assume("1 model time unit = 1e-5 s when replayed; Newton outcome classes are abstracted in the model")
    rep.assume("event effects observed through Toggle targets' u, Fault.uf, Alter targets and the destination parameter of TimeSeries rows")
    return rep.finish()


def timeseries(rep, quick, rnd):
    import os
    import shutil
    from ..common import scratch_dir, NCPU
    from ..pool import run_tasks
    from .. import tracecheck
    d = scratch_dir("tss")
    try:
        out = os.path.join(d, "s.json")
        r = run_tlc("Scen_TimeSeries", "Scen_TimeSeries.cfg", workers=1, timeout=600, env={"OUT": out})
        rep.add_tlc(r, "Scen_TimeSeries (stamp sets x step x segmentation)")
        if not os.path.exists(out):
            rep.machinery("time-series scenario enumeration failed", r["out"][-800:])
            return
        scen = json.load(open(out))["scen"]
    finally:
        shutil.rmtree(d, ignore_errors=True)
    scen.sort(key=lambda x: json.dumps(x, sort_keys=True))
    late = [x for x in scen if x["tf"] > 5000]
    early = [x for x in scen if x["tf"] <= 5000]
    rnd.shuffle(early)
    rnd.shuffle(late)
    chosen = (early[:40] + late[:6]) if quick else scen
    scs = []
    for k, x in enumerate(chosen):
        stamps = [(t / 1000.0, 1.0 + 0.01 * (j + 1) * (-1) ** j) for j, t in enumerate(x["stamps"])]
        scs.append(dict(tid=k + 1, sid="tseries[stamps=%s ms|step=%d ms|seg=%s|u=%d]" % (",".join(map(str, x["stamps"])), x["step"],
                                                                                         "/".join(map(str, x["segs"])), x["u"]),
                        case="kundur/kundur_full.json", stamps=stamps, tstep=(1 / 30 if x["step"] == 33 else x["step"] / 1000.0),
                        segs=[t / 1000.0 for t in x["segs"]], u=x["u"]))
    res = run_tasks("vh.tsdrv:run_ts", scs, nproc=NCPU, timeout=900)
    traces = [x["result"] for x in res if x["status"] == "ok" and x["result"]["ev"]]
    verdicts, tl = tracecheck.validate([dict(meta=t["meta"], ev=t["ev"]) for t in traces], "Trace_TimeSeries")
    for t in tl:
        rep.add_tlc(t, "Trace_TimeSeries")
    for sc, x in zip(scs, res):
        rep.count()
        if x["status"] != "ok":
            if x["status"] == "exc":
                rep.machinery("driver exception in %s" % sc["sid"], x.get("error", "")[-1200:])
            else:
                rep.note("scenario %s ended with %s" % (sc["sid"], x["status"]))
            continue
        v = verdicts.get(sc["tid"])
        if v is None:
            if x["result"].get("skipped"):
                continue
            rep.machinery("trace %s not consumed" % sc["sid"])
            continue
        rep.traces += 1
        rep.nontriv(sc["sid"])
        for cl in v["viol"]:
            rep.violation("%s:%s" % (cl, sc["sid"]), "clause %s fails for %s: %s first mismatch (t, value, expected) %s" % (
                cl, sc["sid"], x["result"]["ev"], x["result"].get("first_bad")), replay=dict(kind="tseries", scenario=sc, record=x["result"]))
        for dn in v["drift"]:
            rep.note("time-series scenario %s: %s" % (sc["sid"], dn))
    rep.extra["time_series_scenarios"] = len(scs)


def replay(path):
    d0 = json.load(open(path))
    if d0["replay"].get("kind") == "tseries":
        from .. import tsdrv
        r = tsdrv.run_ts(d0["replay"]["scenario"])
        print(json.dumps(r, indent=1)[:2000])
        e = r["ev"][0] if r["ev"] else {}
        return 0 if e and all(e.get(k, True) for k in ("applied_at_stamp", "step_ends_at_stamp", "increasing", "other_untouched")) else 1
    d = json.load(open(path))
    sc = d["replay"]["scenario"]
    rep = Report(PID, "quick")
    out = tdsfam.run_and_validate([sc], rep, label="replay")
    for s, o in out:
        print(json.dumps(o.get("verdict", o), indent=1)[:3000])
    tdsfam.judge(PID, out, rep)
    return 1 if rep.violations else 0
