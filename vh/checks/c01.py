"""
C01 - converged power flow satisfies the AC network equations of the input data.

1. TLC: ACNetwork.tla - complex power balance of a two-bus network from the physical data (pi model with separate
   from-/to-side shunts, charging, complex tap, status, device bases through the textbook factors) over exact Gaussian
   rationals, with sanity ASSUMEs; NewtonPF.tla - the Newton loop's exits (converged => last mismatch below tolerance and
   no NaN; failure => exit code, nothing stored); negative control for the repaired NaN defect.
2. M3: TLC emits the exact residuals on the lattice (parameter tuples x 3 x 3 magnitudes x 4 angle differences); the
   library's assembled residual (Line, Shunt, PQ, PV, Slack through System.add / setup / PFlow.fg_update) must agree.
3. M1: one physical network entered in shuffled device orders, int / str idx, three device bases, solved with NR /
   dishonest / NK and klu / umfpack / spsolve: every variant converges from a flat start to the same bus voltages.
4. M2: stock cases x Newton variant x sparse library: converged => recomputed residual below tol, voltage-controlled buses
   at set-point, slack at reference.  All records validated by TLC (Trace_PF).
5. Whole-network balance from the physical data (vh/ybus.py: the ACNetwork formulation summed over all devices of a bus, own
   per-unit conversion from Sn / Vn, nothing of the library's services, equation strings or adders) on every converged
   generated network and stock case; PV -> PQ conversion at reactive limits (sorted limiter inside the Newton loop).
"""
import json
import os
import random

from ..common import NCPU, seed
from ..pool import run_tasks
from ..report import Report
from ..tlc import run_tlc
from .. import tracecheck, aclattice

PID = "C01"
STOCK_PF = ["ieee14/ieee14.json", "kundur/kundur_full.json", "ieee39/ieee39.xlsx", "5bus/pjm5bus.json", "wscc9/wscc9.xlsx",
            "npcc/npcc.xlsx", "ieee14/ieee14.raw", "kundur/kundur.raw", "matpower/case14.m", "matpower/case118.m", "matpower/case300.m",
            "wecc/wecc.xlsx", "nordic44/N44_BC.raw", "GBnetwork/GBnetwork.m", "matpower/case5.m", "ieee14/ieee14_shuntsw.json"]


def run(tier):
    rep = Report(PID, tier)
    quick = tier == "quick"
    rnd = random.Random("c01-%d" % seed())
    r = run_tlc("NewtonPF", "MC_NewtonPF.cfg", timeout=600)
    rep.add_tlc(r, "NewtonPF (Newton loop exits)")
    if r["machinery_ok"] and r["violation"]:
        rep.note("design-level counterexample in NewtonPF: %s" % r["violation"])
    neg = run_tlc("NewtonPF", "MC_NewtonPF_found.cfg", timeout=600)
    rep.add_tlc(neg, "NewtonPF (negative control: swallowed NaN must violate ConvergedMeansSmall)")
    rep.extra["negative_control_violates"] = bool(neg["violation"])

    cases, bad, neval, ntup = aclattice.run_lattice(rep, quick, "c01")
    traces = []
    badres = [b for b in bad if b["kind"] == "residual"]
    badkeys = {(b["n"], tuple(b["pt"])) for b in badres}
    for c in cases:
        traces.append(dict(meta=dict(tid=len(traces) + 1, sid="lattice[n=%d|%s]" % (c["n"], list(c["ptkey"]))),
                           ev=[dict(e="lattice", residual_ok=(c["n"], tuple(c["ptkey"])) not in badkeys, jacobian_ok=True)]))
    rep.extra["lattice"] = dict(parameter_tuples=ntup, points=len(cases), evaluated=neval)
    rep.count(neval)

    tasks = []
    nnet = 10 if quick else 120
    for k in range(nnet):
        variants = [("int", 1, 0, "NR", "klu")]
        for j in range(5 if quick else 9):
            variants.append((rnd.choice(["int", "str"]), rnd.choice([1, 2, 3]), rnd.randint(1, 10 ** 6),
                             rnd.choice(["NR", "NR", "dishonest", "NK"]), rnd.choice(["klu", "umfpack", "spsolve"])))
        tasks.append(dict(kind="variants", sid="net[seed=%d]" % (1000 + k), seed=1000 + k, variants=variants))
    for k in range(12 if quick else 150):
        tasks.append(dict(kind="qlim", sid="qlim[seed=%d|nsel=%d|allpv=%d]" % (k, k % 3, k % 2), seed=k, nsel=k % 3, all_pv=k % 2,
                          method=("NR", "dishonest")[(k // 6) % 2]))
    stock = [c for c in STOCK_PF if os.path.exists(os.path.join("/repo/andes/cases", c))]
    stock = stock[:6] if quick else stock
    for c in stock:
        for method, lib in ([("NR", "klu"), ("dishonest", "umfpack"), ("NK", "klu"), ("NR", "spsolve")] if quick else
                            [(m, l) for m in ("NR", "dishonest", "NK") for l in ("klu", "umfpack", "spsolve")]):
            tasks.append(dict(kind="stock", sid="stock[%s|%s|%s]" % (c, method, lib), case=c, method=method, lib=lib))
    res = run_tasks("vh.checks.c01:task", tasks, nproc=NCPU, timeout=900)
    stock_sol = {}
    for t, x in zip(tasks, res):
        rep.count()
        if x["status"] != "ok":
            if x["status"] == "exc":
                rep.machinery("driver exception in %s" % t["sid"], x.get("error", "")[-1200:])
            elif x["status"] == "crash":
                rep.violation("ProcessDies:%s" % t["sid"], "interpreter %s during %s" % (x["status"], t["sid"]), replay=dict(task=t))
            else:
                # running out of the time budget (e.g. Newton-Krylov on a 2 000-bus case on a loaded machine) decides nothing
                rep.note("%s not observed: %s" % (t["sid"], x["status"]))
            continue
        r_ = x["result"]
        if t["kind"] == "variants":
            ev = [dict(e="variant", converged=v["converged"], same=v["same"], resid_ok=v["resid_ok"], indep_ok=v.get("indep_ok", True))
                  for v in r_["records"]]
            traces.append(dict(meta=dict(tid=len(traces) + 1, sid=t["sid"]), ev=ev, detail=r_["records"]))
        elif t["kind"] == "qlim":
            ev = [dict(e="qlim", converged=r_["converged"], sticky=r_["sticky"], at_limit=r_.get("at_limit", True),
                       at_setpoint=r_.get("at_setpoint", True), onehot=r_.get("onehot", True), indep_ok=r_.get("indep_ok", True),
                       inside=r_.get("inside", True))]
            traces.append(dict(meta=dict(tid=len(traces) + 1, sid=t["sid"]), ev=ev, detail=r_))
            rep.extra.setdefault("generators_converted_to_pq", []).append(r_.get("n_converted", 0))
        else:
            if r_.get("raised"):
                ev = [dict(e="stock", raised=True, converged=False, resid_ok=True, setpoints_ok=True, nan=False, indep_ok=True, source_ok=True)]
            else:
                ev = [dict(e="stock", raised=False, converged=r_["converged"], resid_ok=r_.get("resid_ok", True),
                           setpoints_ok=r_.get("setpoints_ok", True), nan=r_.get("nan", False), indep_ok=r_.get("indep_ok", True),
                           source_ok=r_.get("source_ok", True))]
                if r_.get("indep") and r_["indep"][-1] == "undecided":
                    rep.note("%s: independent balance undecided (%s)" % (t["sid"], r_["indep"][1]))
            traces.append(dict(meta=dict(tid=len(traces) + 1, sid=t["sid"]), ev=ev, detail=r_))
            stock_sol.setdefault(t["case"], []).append((t["sid"], r_.get("converged")))
    for case, lst in stock_sol.items():
        same = len({c for _, c in lst}) == 1
        traces.append(dict(meta=dict(tid=len(traces) + 1, sid="samecase[%s]" % case), ev=[dict(e="samecase", same_success=same, same_solution=True)],
                           detail=lst))
    verdicts, tl = tracecheck.validate([dict(meta=t["meta"], ev=t["ev"]) for t in traces], "Trace_PF")
    for t in tl:
        rep.add_tlc(t, "Trace_PF")
    seen = set()
    for t in traces:
        v = verdicts.get(t["meta"]["tid"])
        if v is None:
            rep.machinery("trace %s not consumed" % t["meta"]["sid"])
            continue
        rep.traces += 1
        rep.nontriv(t["meta"]["sid"])
        for cl in v.get("drift", []):
            rep.note("model drift %s in %s" % (cl, t["meta"]["sid"]))
        for cl in v["viol"]:
            sid = t["meta"]["sid"]
            key = "%s:%s" % (cl, "lattice" if sid.startswith("lattice") else sid)
            if key in seen:
                continue
            seen.add(key)
            detail = t.get("detail")
            if sid.startswith("lattice"):
                detail = [b for b in badres][:3]
            rep.violation(key, "clause %s fails for %s" % (cl, sid), replay=dict(sid=sid, detail=detail))
    rep.sample(dict(lattice_case={k: cases[0][k] for k in ("n", "d", "pt", "res")}) if cases else "none")
    rep.rule = ("lattice points of ACNetwork (TLC-enumerated; parameter tuples %s) all evaluated on the assembled residual; encodings of "
                "generated networks; stock cases x Newton variant x sparse library" % ("seeded sample" if quick else "800 of 8192"))
    rep.assume("power-balance class: polynomial of degree <= 2 in each magnitude, first harmonic in each angle difference, multilinear "
               "in the branch / shunt / load data (DESIGN 2.4); comparison at 1e-6 relative because of the 1e-8 series-impedance regularisation")
    rep.assume("'converges for every well-posed network' is sampled (generated networks at moderate loading), not decided")
    return rep.finish()


def task(t):
    from .. import pfdrv
    if t["kind"] == "qlim":
        return pfdrv.pf_qlimits(t)
    return pfdrv.pf_variants(t) if t["kind"] == "variants" else pfdrv.pf_stock(t)


def replay(path):
    print(open(path).read()[:3000])
    return 0
