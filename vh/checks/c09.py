"""
C09 - limiters and other discrete components enforce their documented semantics.

1. TLC: Discrete.tla states the documented semantics as definitions over integers / exact rationals and checks, as
   ASSUMEs over the full lattice, that comparison-limiter flags are one-hot whenever lower < upper and that an acting
   anti-windup limiter leaves the state inside [lower, upper] with zero derivative.
2. M1: TLC enumerates the input lattices (value x lower x upper x inclusive x sign flags x no_lower/no_upper; state x
   derivative for anti-windup; comparators, switch, selector) and every time-stamp history of length <= 4 over
   {0, .5, 1, 1.5, 2} s including repeated and rewound stamps (Delay / Average / Derivative), and monotone sample
   histories (Sampling), each with the value the definition prescribes; the real classes are instantiated
   stand-alone and must return exactly those values.
3. M2: simulations in which limiters become active are recorded; at every stored instant TLC checks that limited
   states lie inside their limits, pegged states have zero derivative and flags are one-hot (Trace_TDSLoop).
"""
import json
import os
import shutil

from ..common import scratch_dir, andes_mod
from ..report import Report
from ..tlc import run_tlc
from .. import tdsfam

PID = "C09"


def run(tier):
    rep = Report(PID, tier)
    quick = tier == "quick"
    from .. import discdrv
    andes_mod()
    d = scratch_dir("dc")
    try:
        out = os.path.join(d, "d.json")
        r = run_tlc("Scen_Discrete", "Scen_Discrete.cfg", workers=1, timeout=1800, env={"OUT": out})
        rep.add_tlc(r, "Discrete (definitions, lattice ASSUMEs, enumeration of inputs and histories with prescribed outputs)")
        if not os.path.exists(out):
            rep.machinery("Discrete enumeration failed", r["out"][-1500:])
            return rep.finish()
        data = json.load(open(out))
    finally:
        shutil.rmtree(d, ignore_errors=True)
    rep.states += sum(len(v) for v in data.values() if isinstance(v, list))
    rep.extra["lattice_sizes"] = {k: (len(v) if isinstance(v, list) else v) for k, v in data.items()}
    parts = [("Limiter", lambda: discdrv.check_limiters(data["lim"]), len(data["lim"]) * 2),
             ("AntiWindup", lambda: discdrv.check_antiwindup(data["aw"]), len(data["aw"])),
             ("Comparators/Switcher/Selector", lambda: discdrv.check_simple(data["cmp"], data["sw"], data["sel"]),
              len(data["cmp"]) * 2 + len(data["sw"]) + len(data["sel"])),
             ("Delay/Average/Derivative", lambda: discdrv.check_histories(data["hist"]), len(data["hist"])),
             ("Sampling", lambda: discdrv.check_sampling(data["samp"]), len(data["samp"])),
             ("DeadBandRT", lambda: discdrv.check_deadband_rt(data["rt"]), len(data["rt"])),
             ("RateLimiter/AntiWindupRate", lambda: discdrv.check_ratelimiter(data["rl"], data["awr"]), len(data["rl"]) + len(data["awr"])),
             ("Delay/Average time mode", lambda: discdrv.check_timemode(data["timemode"]), len(data["timemode"])),
             ("Delay/Average time mode, rewound stamp", lambda: [dict(b, cls=b["cls"] + ".time_mode_rewound_stamp") for b in discdrv.check_timemode(data["timemode_rewind"])],
              len(data["timemode_rewind"])),
             ("iteration gating", lambda: discdrv.check_gate(data["gate"]), len(data["gate"])),
             ("limit adjustment at initialisation", lambda: discdrv.check_adjust(data["adj"], data["awadj"]), 2 * len(data["adj"]) + len(data["awadj"])),
             ("AntiWindup iteration lock", lambda: discdrv.check_aw_lock(data["awlock"]), len(data["awlock"])),
             ("SortedLimiter", lambda: discdrv.check_sorted(data["sorted"] if not quick else data["sorted"][::3]), len(data["sorted"]) // (3 if quick else 1))]
    # the switched-shunt adjuster as a state machine: model-checked (level in range, one step per evaluation, dwell time, closed gate,
    # out-of-service devices), then every enumerated call sequence replayed on the real ShuntAdjust + SwBlock
    rmc = run_tlc("MC_ShuntSw", "MC_ShuntSw.cfg", timeout=900)
    rep.add_tlc(rmc, "MC_ShuntSw (LevelInRange, OneStepPerEvaluation, DwellTime, ClosedGateChangesNothing, OutOfServiceNeverSwitches)")
    if rmc["machinery_ok"] and rmc["violation"]:
        rep.note("design-level counterexample in MC_ShuntSw: %s" % rmc["violation"])
    d2 = scratch_dir("sw")
    try:
        out2 = os.path.join(d2, "sw.json")
        r2 = run_tlc("Scen_ShuntSw", "Scen_ShuntSw.cfg", workers=1, timeout=900, env={"OUT": out2})
        rep.add_tlc(r2, "Scen_ShuntSw (call sequences with prescribed levels)")
        swdata = json.load(open(out2)) if os.path.exists(out2) else None
    finally:
        shutil.rmtree(d2, ignore_errors=True)
    if swdata is None:
        rep.machinery("ShuntSw enumeration failed", r2["out"][-1200:])
    else:
        if quick:
            swdata["cases"] = swdata["cases"][::4]
        parts.append(("ShuntAdjust", lambda: discdrv.check_shuntsw(swdata), len(swdata["cases"])))
        rep.states += len(swdata["cases"])
    for name, fn, n in parts:
        try:
            bad = fn()
        except Exception as ex:
            import traceback
            rep.machinery("driver exception in %s" % name, traceback.format_exc()[-1500:])
            continue
        rep.count(n)
        seen = set()
        for b in bad:
            key = "%s:definition" % b["cls"]
            if key in seen:
                continue
            seen.add(key)
            rep.violation(key, "%s returns a value different from its documented definition: %s (%d cases differ)" % (
                b["cls"], json.dumps(b)[:400], sum(1 for x in bad if x["cls"] == b["cls"])), replay=b)
    for c in data["hist"][:200]:
        if len({x["t"] for x in c["calls"]}) < len(c["calls"]) or any(c["calls"][k]["t"] < c["calls"][k - 1]["t"] for k in range(1, len(c["calls"]))):
            rep.nontriv("hist:%s" % json.dumps(c["calls"]))
    for c in data["lim"][:300]:
        rep.nontriv("lim:%s" % json.dumps({k: c[k] for k in c if k != "exp"}, sort_keys=True))
    rep.sample(dict(history_case=data["hist"][11]))
    rep.sample(dict(limiter_case=data["lim"][100]))
    rep.exhaustive = True

    # run-time observation
    runs = [("kundur/kundur_aw.json", [], 3.0), ("kundur/kundur_full.json", [dict(add="Fault", bus=7, tf=0.5, tc=0.7, xf=0.01)], 3.0),
            ("ieee14/ieee14_fault.json", [], 2.0), ("ieee14/ieee14_esst3a.xlsx", [], 2.0)]
    if not quick:
        runs += [("ieee14/ieee14_exac1.json", [], 3.0), ("wecc/wecc_full.xlsx", [], 2.0), ("ieee39/ieee39_full.xlsx", [], 2.0),
                 ("ieee14/ieee14_hygov.xlsx", [], 3.0), ("ieee14/ieee14_ieesgo.xlsx", [], 3.0), ("kundur/kundur_esdc2a.xlsx", [], 3.0),
                 ("ieee14/ieee14_esst4b.xlsx", [], 3.0), ("ieee14/ieee14_gast.xlsx", [], 3.0)]
    scs = [dict(sid="limits[%s]" % c, case=c, events=ev, segs=[tf], family="limits", drop_stock_events=False, watch_limits=True,
                tds=dict(no_tqdm=1)) for c, ev, tf in runs]
    # a reference step that drives exciters / governors into their limits
    scs.append(dict(sid="limits[kundur|big fault]", case="kundur/kundur_full.json", family="limits", segs=[2.0], watch_limits=True,
                    events=[dict(add="Fault", bus=8, tf=0.2, tc=0.45, xf=0.001)], tds=dict(no_tqdm=1, criteria=0)))
    out = tdsfam.run_and_validate(scs, rep, timeout=900, label="limiters in simulations")
    tdsfam.judge(PID, out, rep)
    act = {sc["sid"]: [e["active_steps"] for e in o["trace"]["ev"] if e["e"] == "limits"] for sc, o in out if o["status"] == "ok"}
    rep.extra["steps_with_active_antiwindup"] = act
    rep.rule = ("complete lattices / histories enumerated by TLC from Discrete.tla, all replayed on the real classes (exhaustive within "
                "the bounds); simulations with active limiters; non-trivial = a history with a repeated or rewound stamp, a lattice point")
    rep.assume("ordered limits (lower < upper) are the precondition of the one-hot clause; lower = upper = input with inclusive comparison "
               "sets both flags (degenerate pair, documented in DESIGN.md)")
    rep.assume("SortedLimiter with relative violations (abs_violation = 0) is not covered")
    return rep.finish()


def replay(path):
    print(open(path).read()[:3000])
    return 0
