"""
C15 - stored and exported results are the simulated values, complete and labelled.

1. TLC: Storage.tla (dict storage, unpacked view, off-load, npz append, resumed runs) - the file holds
   exactly the kept rows, in order, once each, for every (save_every, limit_store, max_store, output,
   segmentation) within the constants; TDSLoop supplies RowPerKeptStep / StoredIncreasing.
2. M1/M2: the same configuration product (TLC-enumerated) x output selections x segmentation is run
   on the real code with file output into a scratch directory; the DAE.store wrapper keeps private
   copies of (t, x, y); memory, npz, lst labels, the plot loader, the csv export, device queries and
   a replay from csv are compared bit-for-bit (replay: 1e-10) and TLC validates the traces.
"""
import json
import os
import shutil

from ..common import scratch_dir
from ..report import Report
from ..tlc import run_tlc
from .. import tdsfam

PID = "C15"

SELECTIONS = [
    [],
    [dict(model="GENROU", varname="omega")],
    [dict(model="Bus")],
    [dict(model="Bus", varname="v"), dict(model="GENROU", varname="omega", dev=2)],
    # overlapping entries: a whole variable plus one device of the same model
    [dict(model="GENROU", varname="omega"), dict(model="GENROU", dev=3)],
    [dict(model="Bus", varname="v", dev=5), dict(model="Bus", varname="v"), dict(model="TGOV1")],
]


def config_space(rep):
    d = scratch_dir("st")
    try:
        out = os.path.join(d, "cfg.json")
        r = run_tlc("Scen_Storage", "Scen_Storage.cfg", workers=1, timeout=300, env={"OUT": out})
        rep.add_tlc(r, "Scen_Storage (configuration product)")
        data = json.load(open(out))["cfg"]
    finally:
        shutil.rmtree(d, ignore_errors=True)
    data.sort(key=lambda s: json.dumps(s, sort_keys=True))
    return data


def run(tier):
    rep = Report(PID, tier)
    quick = tier == "quick"
    rnd = tdsfam.rnd_for(PID)

    rep.phase("model checking")
    r = run_tlc("MC_Storage", "MC_Storage.cfg", timeout=900)
    rep.add_tlc(r, "MC_Storage (off-load / append / resume design)")
    if r["machinery_ok"] and r["violation"]:
        rep.note("design-level counterexample in Storage: %s" % r["violation"])
    r = run_tlc("MC_TDSLoopS", "MC_TDSLoopS.cfg", timeout=3000)
    rep.add_tlc(r, "MC_TDSLoopS (RowPerKeptStep, StoredIncreasing with thinning)")

    rep.phase("configuration product on the real code")
    space = config_space(rep)
    rep.extra["configuration_space"] = len(space)
    rnd.shuffle(space)
    chosen = space[:70 if quick else len(space)]
    if not quick:
        # thorough: every configuration with every output selection
        chosen = [c for c in chosen for _ in SELECTIONS]
    scs = []
    for k, c in enumerate(chosen):
        sel = SELECTIONS[k % len(SELECTIONS)]
        steps = c["segs"]
        tstep = 1 / 30
        segs = []
        acc = 0
        for n in steps:
            acc += n
            segs.append(round(acc * tstep + (0.011 if k % 4 == 0 else 0.0), 6))
        sid = "store[se=%d|ls=%d|ms=%d|seg=%s|sel=%d]" % (c["save_every"], int(c["limit_store"]), c["max_store"],
                                                         "/".join(str(n) for n in steps), k % len(SELECTIONS))
        scs.append(dict(sid=sid, case="kundur/kundur_full.json", family="store", segs=segs, output=sel,
                        events=[dict(add="Toggle", model="Line", dev="Line_8", t=round(2.5 * tstep, 6))],
                        tds=dict(tstep=tstep, no_tqdm=1, save_every=c["save_every"], limit_store=int(c["limit_store"]),
                                 max_store=c["max_store"]),
                        replay=(c["save_every"] == 1 and not c["limit_store"] and not sel and k % 3 == 0)))
    # a longer run across the default max_store would be slow; use a moderate one with off-loading
    scs.append(dict(sid="store[long|ls=1|ms=25]", case="kundur/kundur_full.json", family="store", segs=[2.5], output=[],
                    drop_stock_events=False, events=[], tds=dict(no_tqdm=1, limit_store=1, max_store=25)))
    scs.append(dict(sid="store[ieee14|sel]", case="ieee14/ieee14_fault.json", family="store", segs=[0.4, 0.8],
                    output=[dict(model="Bus", varname="v")], drop_stock_events=False, events=[], tds=dict(no_tqdm=1)))
    out = tdsfam.run_and_validate(scs, rep, timeout=900, label="storage", task="vh.storedrv:run_store_scenario")
    tdsfam.judge(PID, out, rep)
    for sc, o in out:
        if o["status"] == "ok":
            rep.nontriv(sc["sid"])
    for sc, o in out[:2]:
        if o["status"] == "ok":
            rep.sample(dict(scenario=tdsfam._strip(sc), verdict=o["verdict"],
                            files=[e for e in o["trace"]["ev"] if e["e"] == "files"]))
    rep.rule = ("configuration = save_every x limit_store x max_store x segmentation (TLC-enumerated) x output selection; "
                "%s; non-trivial = every configuration (each stores or off-loads differently)" %
                ("seeded sample of 70" if quick else "all, each with every output selection"))
    rep.assume("row identity: the DAE.store wrapper copies dae.x / dae.y at the moment of storing; comparisons are bit-for-bit "
               "(csv replay: 1e-10 because pandas' float parser is not exactly round-tripping)")
    return rep.finish()


def replay(path):
    d = json.load(open(path))
    rep = Report(PID, "quick")
    out = tdsfam.run_and_validate([d["replay"]["scenario"]], rep, label="replay", task="vh.storedrv:run_store_scenario")
    tdsfam.judge(PID, out, rep)
    return 1 if rep.violations else 0
