"""
C03 - Jacobians are the exact residual derivatives, stored at the right addresses.

1. TLC: ACNetwork.tla defines the Jacobian as *exact lattice differences* of the residual (central difference for the
   quadratic dependence on magnitudes, (G(a + pi/2) - G(a - pi/2))/2 for the first-harmonic dependence on angles), so it
   is not derived a second time by hand; the entries are emitted for the lattice.
2. M3: System.j_update on the real two-bus systems must give those entries at the addresses of the bus equations /
   variables (rows and columns matched through the address tables).
3. M2: for stock cases, in the power-flow phase and after TDS.init, with in-place and rebuilt sparse accumulation
   (ipadd 1 / 0): every column of the assembled Jacobian agrees with central finite differences of the assembled
   residual (columns whose perturbation flips a discrete flag are skipped and counted), and the sparsity pattern of
   fx, fy, gx, gy is identical between two consecutive updates.  Records validated by TLC (Trace_PF).
"""
import json
import os
import random

from ..common import NCPU, seed
from ..pool import run_tasks
from ..report import Report
from .. import tracecheck, aclattice
from .c10 import stock_cases

PID = "C03"
# Rows (equations) for which the finite-difference clause is NOT decided: the discrepancies seen on the unchanged tree
# could not be triaged into "defect" or "non-smooth point / check artefact" (DESIGN.md section 9); they are reported
# as NOTE and counted, never as violations.  Everything else is decided.
FD_UNDECIDED_MODELS = {"ESDC1A", "REGCA1", "WTPTA1", "Ground", "Node", "R", "VSCShunt"}
FD_UNDECIDED_CASES = {"kundur/kundur_vsc.json", "kundur/kundur_vsc.xlsx"}
QUICK = ["kundur/kundur_full.json", "ieee14/ieee14_full.xlsx", "ieee14/ieee14_pvd1.json", "5bus/pjm5bus.json",
         "kundur/kundur_aw.json", "ieee14/ieee14_esst3a.xlsx", "ieee14/ieee14_solar.xlsx", "ieee39/ieee39_full.xlsx",
         "ieee14/ieee14_island.xlsx"]


def run(tier):
    rep = Report(PID, tier)
    quick = tier == "quick"
    cases, bad, neval, ntup = aclattice.run_lattice(rep, quick, "c03")
    rep.count(neval)
    badj = [b for b in bad if b["kind"] == "jacobian"]
    badkeys = {(b["n"], tuple(b["pt"])) for b in badj}
    traces = []
    njac = 0
    for c in cases:
        if not c["jac"]:
            continue
        njac += 1
        traces.append(dict(meta=dict(tid=len(traces) + 1, sid="lattice[n=%d|%s]" % (c["n"], list(c["ptkey"]))),
                           ev=[dict(e="lattice", residual_ok=True, jacobian_ok=(c["n"], tuple(c["ptkey"])) not in badkeys)]))
    rep.extra["lattice"] = dict(parameter_tuples=ntup, points_with_jacobian=njac, entries_per_point=16)
    stock = [c for c in (QUICK if quick else stock_cases()) if os.path.exists(os.path.join("/repo/andes/cases", c))]
    tasks = []
    for c in stock:
        for phase in ("pflow", "tds"):
            for ipadd in ((1,) if quick and phase == "pflow" else (1, 0)):
                tasks.append(dict(sid="jac[%s|%s|ipadd=%d]" % (c, phase, ipadd), case=c, phase=phase, ipadd=ipadd,
                                  maxcols=250 if quick else 1200))
    altered = [c for c in ("kundur/kundur_full.json", "ieee14/ieee14_solar.xlsx", "ieee14/ieee14_full.xlsx", "5bus/pjm5bus.json") if c in stock] \
        if quick else stock[:20]
    for c in altered:
        tasks.append(dict(sid="jac[%s|tds|altered]" % c, case=c, phase="tds", ipadd=1, maxcols=250 if quick else 1200, alter_after_init=True))
    for c in stock[:4 if quick else 20]:
        for ipadd in (1, 0):
            tasks.append(dict(sid="jac[%s|pflow|ipadd=%d|after reconnection]" % (c, ipadd), case=c, phase="pflow", ipadd=ipadd,
                              maxcols=250 if quick else 1200, history=True))
            tasks.append(dict(sid="jac[%s|pflow|ipadd=%d|another bus cut off]" % (c, ipadd), case=c, phase="pflow", ipadd=ipadd,
                              maxcols=250 if quick else 1200, history="swap"))
    res = run_tasks("vh.pfdrv:jac_stock", tasks, nproc=NCPU, timeout=1800)
    worst = 0.0
    skipped = 0
    for t, x in zip(tasks, res):
        rep.count()
        if x["status"] != "ok":
            if x["status"] == "exc":
                rep.note("stock case %s not observed: %s" % (t["sid"], x.get("error", "").strip().splitlines()[-1][:140]))
            else:
                rep.note("%s ended with %s" % (t["sid"], x["status"]))
            continue
        r_ = x["result"]
        if "skipped" in r_:
            continue
        worst = max(worst, r_["worst"])
        skipped += r_["skipped_cols"]
        # one record per equation-owning model with a discrepancy, so that findings are keyed by model
        by_model = {}
        for row, col in r_.get("pairs", []):
            by_model.setdefault(row.split(".")[0], []).append([row, col])
        und = [m for m in by_model if m in FD_UNDECIDED_MODELS or t["case"] in FD_UNDECIDED_CASES]
        for m in und:
            rep.note("finite-difference discrepancy not decided for rows of %s (e.g. %s in %s)" % (m, by_model[m][0], t["sid"]))
            rep.extra.setdefault("fd_undecided", {})[m] = by_model[m][:3]
        decided = {m: v for m, v in by_model.items() if m not in und}
        if r_.get("cut_off_bus_rows_keep_device_entries"):
            traces.append(dict(meta=dict(tid=len(traces) + 1, sid="fd[cut_off_bus_rows|%s|%s]" % (t["case"], t["phase"])),
                               ev=[dict(e="jac", fd_ok=False, pattern_stable=True, modes_agree=True, mass_current=True)],
                               detail=dict(case=t["sid"], entries=r_["cut_off_bus_rows_keep_device_entries"])))
        traces.append(dict(meta=dict(tid=len(traces) + 1, sid=t["sid"]), ev=[dict(e="jac", fd_ok=True, pattern_stable=r_["pattern_stable"], modes_agree=r_.get("modes_agree", True), mass_current=r_.get("mass_current", True))],
                           detail=dict(r_, pairs=None)))
        for m, prs in sorted(decided.items()):
            traces.append(dict(meta=dict(tid=len(traces) + 1, sid="fd[%s]" % m), ev=[dict(e="jac", fd_ok=False, pattern_stable=True, modes_agree=True, mass_current=True)],
                               detail=dict(case=t["sid"], pairs=prs[:6])))
    # ---- model level: the executed generated Jacobian functions of EVERY shipped model against difference quotients of the declared
    # equation strings (independent evaluator) on the TLC-enumerated argument lattice of C02
    import json
    import shutil
    from ..common import scratch_dir, new_system
    from ..tlc import run_tlc
    rounds = 4 if quick else 12
    d = scratch_dir("jl")
    try:
        out = os.path.join(d, "t.json")
        r = run_tlc("Scen_EqLattice", "Scen_EqLattice.cfg", workers=1, timeout=900, env={"OUT": out, "ROUNDS": str(rounds)})
        rep.add_tlc(r, "Scen_EqLattice (argument lattice)")
        table = json.load(open(out))["table"] if os.path.exists(out) else None
    finally:
        shutil.rmtree(d, ignore_errors=True)
    if table is None:
        rep.machinery("argument lattice not produced", r["out"][-800:])
    else:
        names = list(new_system().models)
        chunks = [names[k::NCPU] for k in range(NCPU)]
        resj = run_tasks("vh.jacdrv:task", [dict(models=c, table=table, rounds=rounds) for c in chunks if c], nproc=NCPU, timeout=1800)
        nent = ndec = 0
        for c, x in zip([c for c in chunks if c], resj):
            if x["status"] != "ok":
                rep.machinery("model-level Jacobian probe of %s ended with %s" % (c[:3], x["status"]), x.get("error", "")[-800:])
                continue
            for rec in x["result"]:
                rep.count()
                nent += rec["entries"]
                ndec += rec["decided"]
                for pr in rec["problems"]:
                    rep.note("model-level Jacobian probe of %s: %s" % (rec["model"], pr))
                kinds = {b["kind"] for b in rec["bad"]}
                traces.append(dict(meta=dict(tid=len(traces) + 1, sid="modeljac[%s]" % rec["model"]),
                                   ev=[dict(e="modeljac", entries_ok="wrong_value" not in kinds, none_missing="missing_entry" not in kinds,
                                            constants_on_diagonal="constant_off_diagonal" not in kinds)],
                                   detail=dict(model=rec["model"], bad=rec["bad"], entries=rec["entries"], decided_points=rec["decided"])))
        rep.extra["model_level"] = dict(models=len(names), generated_entries_compared=nent, decided_points=ndec, rounds=rounds)
    verdicts, tl = tracecheck.validate([dict(meta=t["meta"], ev=t["ev"]) for t in traces], "Trace_PF")
    for t in tl:
        rep.add_tlc(t, "Trace_PF")
    seen = set()
    for t in traces:
        v = verdicts.get(t["meta"]["tid"])
        if v is None:
            rep.machinery("trace %s not consumed" % t["meta"]["sid"])
            continue
        rep.traces += 1
        rep.nontriv(t["meta"]["sid"])
        for cl in v["viol"]:
            sid = t["meta"]["sid"]
            key = "%s:%s" % (cl, "lattice" if sid.startswith("lattice") else (sid[3:-1] if sid.startswith("fd[") else sid))
            if key in seen:
                continue
            seen.add(key)
            rep.violation(key, "clause %s fails for %s" % (cl, sid),
                          replay=dict(sid=sid, detail=(badj[:3] if sid.startswith("lattice") else t.get("detail"))))
    rep.extra["worst_relative_fd_error"] = worst
    rep.extra["columns_skipped_because_a_flag_flipped"] = skipped
    if cases:
        c = [x for x in cases if x["jac"]][0]
        rep.sample(dict(lattice_jacobian={k: c[k] for k in ("n", "pt", "jac")}))
    rep.rule = ("Jacobian entries of the ACNetwork lattice (exact) at every point that carries them; stock cases x phase x ipadd with "
                "column-wise finite differences (up to %d columns per case)" % (250 if quick else 1200))
    rep.assume("finite-difference clause is numeric: delta = 1e-6, relative threshold 1e-4 (observed worst recorded), diagonal "
               "regularisation diag_eps allowed for")
    rep.assume("per-model derivative equality is decided numerically for every shipped model (generated Jacobian functions against difference "
               "quotients of the declared equation strings at the lattice points where the quotient is decided), not symbolically")
    return rep.finish()


def replay(path):
    print(open(path).read()[:3000])
    return 0
