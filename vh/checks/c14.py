"""
C14 - resumed and snapshot-restored simulations equal the uninterrupted run.

1. TLC: TDSLoop with Segments (RunResume) - ExactlyOnce / ExpectedStatus / StoredIncreasing hold
   at every "done" state for every split of MC_TDSLoop's SegChoices, i.e. independent of segmentation.
2. M1/M2: split scenarios (TLC-enumerated splits before / at / after event times, seeded float
   schedules with splits at and around events, three-segment splits, save_ss -> load_ss between
   segments) are run on the real code, each next to the uninterrupted run of the same scenario;
   TLC validates the recorded traces (events neither lost nor repeated, gap- and duplicate-free
   time axis, same final status, final state within 10*tol relative).
3. Lifecycle clause "reset and re-run power flow reproduces the first solution": Trace_Lifecycle.
"""
import json

from ..report import Report
from ..tlc import run_tlc
from .. import tdsfam, lifecycle

PID = "C14"


def run(tier):
    rep = Report(PID, tier)
    quick = tier == "quick"
    rnd = tdsfam.rnd_for(PID)

    rep.phase("model checking")
    mod = "MC_TDSLoopQ" if quick else "MC_TDSLoop"
    r = run_tlc(mod, mod + ".cfg", timeout=3000)
    rep.add_tlc(r, mod + " (segmented runs: RunResume)")
    if r["machinery_ok"] and r["violation"]:
        rep.note("design-level counterexample in %s: %s" % (mod, r["violation"]))

    rep.phase("split scenarios")
    scen = [s for s in tdsfam.tlc_scenarios(rep) if len(s["segs"]) > 1 and len(s["fail"]) <= 1]
    rnd.shuffle(scen)
    chosen = scen[:110 if quick else 1500]
    real = []
    for k, s in enumerate(chosen):
        sc = tdsfam.to_real(s, snapshot=(k % (15 if quick else 3) == 2))
        sc["compare_single"] = not s["fail"]
        real.append(sc)
    # three segments / repeated interruption at the same time / split one step after an event
    for k, s in enumerate([x for x in chosen if not x["fail"]][:30 if quick else 300]):
        s3 = dict(s)
        taus = [t["tau"] for t in s["timers"] if 0 < t["tau"] < 40]
        cut = (taus[0] if taus else 20)
        s3["segs"] = sorted({max(1, cut - 10), cut, min(39, cut + 1)}) + [40]
        sc = tdsfam.to_real(s3, snapshot=(k % (20 if quick else 4) == 3))
        sc["compare_single"] = True
        real.append(sc)
    fl = [s for s in tdsfam.float_schedules(200 if quick else 1500, rnd, tf_max=2.0 if quick else 4.0) if len(s["segs"]) > 1]
    fl = fl[:24 if quick else 300]
    for k, s in enumerate(fl):
        s["compare_single"] = True
        if k % (10 if quick else 3) == 1:
            s["snapshot"] = True
            s["sid"] += "+snap"
    # a snapshot taken in the middle of a transient (after a line trip), restored and continued
    tg = tdsfam.TARGETS["kundur/kundur_full.json"]
    fixed = []
    for tstep, t_ev, segs in ((1 / 30, 0.2, [0.5, 1.0]), (0.02, 0.1, [0.25, 0.6, 0.9]), (1 / 30, 0.3, [0.31, 0.8])):
        fixed.append(dict(sid="snap-in-transient[ts=%.4g|ev=%.4g|seg=%s]+snap" % (tstep, t_ev, "/".join("%.4g" % x for x in segs)),
                          case="kundur/kundur_full.json", family="float", segs=segs, snapshot=True, compare_single=True,
                          events=[dict(add="Toggle", model=tg["model"], dev=tg["devs"][0], t=t_ev)],
                          tds=dict(tstep=tstep, fixt=1, no_tqdm=1)))
    out = tdsfam.run_and_validate(real + fl + fixed, rep, timeout=600, label="split vs uninterrupted")
    tdsfam.judge(PID, out, rep)
    dm = [e["dmax_ppm"] for _, o in out if o["status"] == "ok" for e in o["trace"]["ev"] if e["e"] == "compare"]
    rep.extra["max_relative_state_difference_ppm"] = max(dm) if dm else None
    rep.extra["comparisons"] = len(dm)
    for sc, o in out[:2]:
        if o["status"] == "ok":
            rep.sample(dict(scenario=tdsfam._strip(sc), verdict=o["verdict"]))

    rep.phase("lifecycle reset")
    lifecycle.run_family(rep, PID, quick, only=("reset",))

    rep.rule = ("split scenarios: TLC-enumerated (segments x events x stepping x <=1 failure), three-segment variants and "
                "seeded float schedules, each compared with its uninterrupted run; non-trivial = resumed at least once")
    rep.assume("'equal up to discretisation error' is read as: same fired events and final status, strictly increasing time "
               "axis containing every event time, final state within 10*tol*(1+|x|) (observed maximum recorded in evidence)")
    rep.assume("snapshot restore is exercised by save_ss/load_ss in the same process in the quick tier")
    return rep.finish()


def replay(path):
    d = json.load(open(path))
    rep = Report(PID, "quick")
    out = tdsfam.run_and_validate([d["replay"]["scenario"]], rep, label="replay")
    tdsfam.judge(PID, out, rep)
    return 1 if rep.violations else 0
