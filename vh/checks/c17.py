"""
C17 - failure is reported as failure.

1. TLC: Lifecycle (gating, success flags, exit code over all routine sequences <= MaxOps) and the
   exit actions of TDSLoop (busted by NaN / step collapse / criteria; SuccessIffAtTf, FailureBumpsExit).
2. M1/M2: routine sequences enumerated by TLC run on a real System (normal and overloaded inputs);
   TDS runs with injected Newton failures under fixed step without shrinking (busted), NaN
   injection and criteria trips; infeasible inputs (island without slack, missing / corrupt files
   through andes.run(cli=True)).  Recorded outcomes are validated by TLC (Trace_Lifecycle,
   Trace_TDSLoop).  A worker killed by a signal is the outcome "process dies".
"""
import json

from ..report import Report
from ..tlc import run_tlc
from .. import tdsfam, lifecycle, infeasible

PID = "C17"


def run(tier):
    rep = Report(PID, tier)
    quick = tier == "quick"
    rnd = tdsfam.rnd_for(PID)

    r = run_tlc("MC_TDSLoopS", "MC_TDSLoopS.cfg", timeout=3000)
    rep.add_tlc(r, "MC_TDSLoopS (busted exits, SuccessIffAtTf, FailureBumpsExit)")
    if r["machinery_ok"] and r["violation"]:
        rep.note("design-level counterexample in MC_TDSLoopS: %s" % r["violation"])

    lifecycle.run_family(rep, PID, quick)

    # TDS failure exits on the real loop
    scen = [s for s in tdsfam.tlc_scenarios(rep) if s["fail"]]
    rnd.shuffle(scen)
    real = []
    for k, s in enumerate(scen[:80 if quick else 2500]):
        real.append(tdsfam.to_real(s))
    for k in range(8 if quick else 80):
        # NaN injection at a chosen attempt; unstable fault that trips the criteria
        real.append(dict(sid="nan[attempt=%d]" % (k + 2), case="kundur/kundur_full.json", family="nan", segs=[0.2],
                         events=[], nan=[k + 2], tds=dict(tstep=1 / 30, no_tqdm=1)))
    real.append(dict(sid="criteria[fault 1.0s]", case="kundur/kundur_full.json", family="crit", segs=[3.0],
                     events=[dict(add="Fault", bus=7, tf=0.1, tc=1.1, xf=1e-4)], tds=dict(tstep=1 / 30, no_tqdm=1)))
    # disturbances that switch no branch (the routine's bookkeeping for the criterion is refreshed by the connectivity check)
    real.append(dict(sid="criteria[smib fault 0.45s]", case="smib/SMIB.xlsx", family="crit", segs=[4.0],
                     events=[dict(add="Fault", bus=1, tf=0.1, tc=0.55, xf=1e-4)], tds=dict(tstep=1 / 60, no_tqdm=1)))
    real.append(dict(sid="criteria[ieee14 fault 0.8s]", case="ieee14/ieee14_full.xlsx", family="crit", segs=[3.0],
                     events=[dict(add="Fault", bus=2, tf=0.2, tc=1.0, xf=1e-4)], tds=dict(tstep=1 / 30, no_tqdm=1)))
    out = tdsfam.run_and_validate(real, rep, timeout=900, label="TDS failure exits")
    tdsfam.judge(PID, out, rep)
    nfail = sum(1 for _, o in out if o["status"] == "ok" and any(e["e"] == "run_end" and not e["ret"] for e in o["trace"]["ev"]))
    rep.extra["tds_runs_ending_in_failure"] = nfail

    infeasible.run_family(rep, PID, quick)

    rep.rule = ("routine sequences (TLC-enumerated, length <= %d) x inputs; TDS runs with injected failures; infeasible inputs; "
                "non-trivial = a sequence of >= 2 operations or a run with a rejected step / failure exit" % (3 if quick else 4))
    rep.assume("NaN exits are provoked by poisoning dae.Tf for one attempt through TDS.callpert")
    return rep.finish()


def replay(path):
    d = json.load(open(path))
    rep = Report(PID, "quick")
    sc = (d.get("replay") or {}).get("scenario")
    if sc and "ops" in sc:
        sc["tid"] = 1
        print(json.dumps(lifecycle.run_ops(sc)["ev"], indent=1))
    elif sc:
        out = tdsfam.run_and_validate([sc], rep, label="replay")
        tdsfam.judge(PID, out, rep)
    return 1 if rep.violations else 0
