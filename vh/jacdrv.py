"""
C03 driver, model level: for EVERY shipped model (not only those a stock case instantiates) the Jacobian functions that are
actually executed - the generated ``<jname>_update`` functions loaded from the pycode cache, called with the library's own
argument lookup (``Model.j_args``), each returned value attributed to the (equation, variable) pair the loaded index lists
``calls.ijac / calls.jjac`` name - are compared with central differences of the model's *declared* equation strings evaluated
by the independent evaluator of vh/eqdrv.py (Python AST over numpy; no sympy).  The argument points are the TLC-enumerated
lattice of C02 (Scen_EqLattice).

A derivative is only compared where it is decided: the declared residual must be defined at all four probe points and the
central differences with two step sizes must agree (a kink of a Piecewise / abs / limiter term between the probe points is
not a point of differentiability).  What is recorded per model and validated by TLC (Trace_PF, record kind ``modeljac``):
  * every generated entry equals the difference quotient of the equation it is attributed to w.r.t. the variable it is
    attributed to (wrong value, wrong sign, wrong argument, wrong row or column all show up here);
  * no entry is missing: a pair without a generated entry has a zero difference quotient;
  * the constant entries (``..c`` lists: diag_eps on the diagonal) sit on the diagonal of their own variable.
Discrete flags, parameters and services keep their lattice values while a variable is perturbed (the library does not
differentiate through them either: VarService dependence is the documented finding of the system-level check).
"""
import numpy as np

from .common import new_system
from . import eqdrv

H1, H2 = 1e-6, 1e-4


def _declared_all(mdl, mname, ev, ns, subs):
    out = {}
    env = dict(ns)
    for sname, stext in subs.items():
        try:
            env[sname] = ev.eval("%s.subs.%s" % (mname, sname), stext, env)
        except Exception:
            pass
    for vname, v in mdl.cache.all_vars.items():
        if v.e_str is None:
            out[vname] = np.zeros(eqdrv.N_DEV)
            continue
        try:
            with np.errstate(all="ignore"):
                val = np.asarray(ev.eval("%s.%s.e_str" % (mname, vname), v.e_str, env))
            out[vname] = np.broadcast_to(val, (eqdrv.N_DEV,)).astype(complex if np.iscomplexobj(val) else float)
        except Exception:
            out[vname] = np.full(eqdrv.N_DEV, np.nan)
    return out


def probe_jacobian(ss, mname, table, rounds):
    mdl = ss.models[mname]
    ev = eqdrv.Evaluator()
    subs = {name: svc.v_str for name, svc in getattr(mdl, "services_subs", {}).items()}
    vars_list = list(mdl.cache.all_vars)
    states = list(mdl.cache.states_and_ext)
    algebs = list(mdl.cache.algebs_and_ext)
    bad, problems = [], []
    n_entries = n_decided = n_pairs_zero = 0
    for r in range(rounds):
        try:
            ns = eqdrv.prepare_model(ss, mdl, table, r)
        except Exception as ex:
            problems.append("set-up of fake devices failed: %s: %s" % (type(ex).__name__, str(ex)[:120]))
            break
        # ---- what the executed generated code says
        gen = {}
        try:
            for jname, fn in mdl.calls.j.items():
                if fn is None:
                    continue
                with np.errstate(all="ignore"):
                    vals = fn(*mdl.j_args[jname])
                eqs = states if jname[0] == "f" else algebs
                for ei, vi, val in zip(mdl.calls.ijac[jname], mdl.calls.jjac[jname], vals):
                    key = (eqs[ei], vars_list[vi])
                    gen[key] = gen.get(key, 0.0) + np.broadcast_to(np.asarray(val, dtype=float), (eqdrv.N_DEV,))
        except Exception as ex:
            problems.append("generated Jacobian function raised %s: %s" % (type(ex).__name__, str(ex)[:120]))
            continue
        const = {}
        for jname in list(mdl.calls.ijac):
            if not jname.endswith("c"):
                continue
            eqs = states if jname[0] == "f" else algebs
            for ei, vi, val in zip(mdl.calls.ijac[jname], mdl.calls.jjac[jname], mdl.calls.vjac[jname]):
                const[(eqs[ei], vars_list[vi])] = float(val)
        for (eq, var), val in const.items():
            if eq != var:
                bad.append(dict(kind="constant_off_diagonal", eq=eq, var=var, value=val))
        # ---- difference quotients of the declared equations
        base = {k: np.array(v.v, dtype=float) for k, v in mdl.cache.all_vars.items()}
        e0 = _declared_all(mdl, mname, ev, dict(ns), subs)
        for var in vars_list:
            quot = {}
            onesided = {}
            for h in (H1, H2):
                step = h * np.maximum(1.0, np.abs(base[var]))
                nsp, nsm = dict(ns), dict(ns)
                nsp[var] = base[var] + step
                nsm[var] = base[var] - step
                ep = _declared_all(mdl, mname, ev, nsp, subs)
                em = _declared_all(mdl, mname, ev, nsm, subs)
                with np.errstate(all="ignore"):
                    quot[h] = {eq: (ep[eq] - em[eq]) / (2 * step) for eq in ep}
                    if h == H2:
                        # a kink exactly at the point: forward and backward quotients differ
                        onesided = {eq: np.abs(np.real((ep[eq] - e0[eq]) / step - (e0[eq] - em[eq]) / step)) for eq in ep}
            for eq in quot[H1]:
                q1, q2 = np.real(quot[H1][eq]), np.real(quot[H2][eq])
                with np.errstate(all="ignore"):
                    decided = np.isfinite(q1) & np.isfinite(q2) & (np.abs(q1 - q2) <= 1e-4 * np.maximum(1.0, np.abs(q2))) & \
                        np.isfinite(onesided[eq]) & (onesided[eq] <= 1e-2 * np.maximum(1.0, np.abs(q2)))
                if not decided.any():
                    continue
                g = gen.get((eq, var))
                n_decided += int(decided.sum())
                if g is None:
                    n_pairs_zero += 1
                    if np.any(decided & (np.abs(q2) > 1e-6)):
                        d = int(np.argmax(decided & (np.abs(q2) > 1e-6)))
                        bad.append(dict(kind="missing_entry", eq=eq, var=var, round=r, device=d, quotient=float(q2[d])))
                    continue
                n_entries += 1
                with np.errstate(all="ignore"):
                    off = decided & np.isfinite(g) & (np.abs(g - q2) > 2e-4 * np.maximum(1.0, np.abs(q2)))
                if off.any():
                    d = int(np.argmax(off))
                    # which other pair would this value fit (names a wrong row / column)?
                    fits = []
                    for (e2, v2) in gen:
                        pass
                    bad.append(dict(kind="wrong_value", eq=eq, var=var, round=r, device=d, generated=float(g[d]), quotient=float(q2[d])))
    # one record per (kind, eq, var)
    seen, out = set(), []
    for b in bad:
        k = (b["kind"], b["eq"], b["var"])
        if k not in seen:
            seen.add(k)
            out.append(b)
    return dict(model=mname, bad=out[:12], n_bad=len(out), entries=n_entries, decided=n_decided, zero_pairs=n_pairs_zero, problems=sorted(set(problems))[:5])


def task(sc):
    ss = new_system()
    out = []
    for m in sc["models"]:
        try:
            out.append(probe_jacobian(ss, m, sc["table"], sc["rounds"]))
        except Exception:
            import traceback
            out.append(dict(model=m, bad=[], n_bad=0, entries=0, decided=0, zero_pairs=0, problems=["probe failed: " + traceback.format_exc()[-600:]]))
    return out
