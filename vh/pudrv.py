"""
C11 drivers.
 * collect_bases / check_factors: every flagged parameter of every model with devices in a loaded case
   satisfies v = vin * K(kind; Sn, Vn, Sb, Vb) with K computed exactly by TLC (PerUnitK) for the bases found.
 * run_sequence: alter / set / reset sequences at three lifecycle points on a real System.
"""
import json
import os
from fractions import Fraction

import numpy as np

from .common import load_case, scratch_dir

KINDS = ["voltage", "power", "ipower", "current", "z", "y", "dc_voltage", "dc_current", "r", "g"]


def _bases_of(ss, mdl):
    Sb = float(ss.config.mva)
    n = mdl.n
    Sn = np.asarray(mdl.Sn.v, dtype=float) if "Sn" in mdl.__dict__ else np.full(n, Sb)
    if "bus" in mdl.__dict__:
        Vb = np.asarray(ss.Bus.get(src="Vn", idx=mdl.bus.v, attr="v"), dtype=float)
        Vn = np.asarray(mdl.Vn.v, dtype=float) if "Vn" in mdl.__dict__ else Vb
    elif "bus1" in mdl.__dict__:
        Vb = np.asarray(ss.Bus.get(src="Vn", idx=mdl.bus1.v, attr="v"), dtype=float)
        Vn = np.asarray(mdl.Vn1.v, dtype=float) if "Vn1" in mdl.__dict__ else Vb
    else:
        Vb = np.ones(n)
        Vn = np.ones(n)
    return Sn, Vn, np.full(n, Sb), Vb


def _dc_bases_of(ss, mdl):
    """(Vdcn / Vdcb, Idcn / Idcb) per device: device ratings against the DC node voltage base and Sb / Vdcb"""
    Sb = float(ss.config.mva)
    n = mdl.n
    if "node" in mdl.__dict__:
        Vdcb = np.asarray(ss.Node.get(src="Vdcn", idx=mdl.node.v, attr="v"), dtype=float)
        Vdcn = np.asarray(mdl.Vdcn.v, dtype=float) if "Vdcn" in mdl.__dict__ else Vdcb
    elif "node1" in mdl.__dict__:
        Vdcb = np.asarray(ss.Node.get(src="Vdcn", idx=mdl.node1.v, attr="v"), dtype=float)
        Vdcn = np.asarray(mdl.Vdcn1.v, dtype=float) if "Vdcn1" in mdl.__dict__ else Vdcb
    else:
        return np.ones(n), np.ones(n)
    Idcb = Sb / Vdcb
    Idcn = np.asarray(mdl.Idcn.v, dtype=float) if "Idcn" in mdl.__dict__ else Idcb
    return Vdcn / Vdcb, Idcn / Idcb


def _frac(x):
    f = Fraction(float(x)).limit_denominator(10000)
    if abs(float(f) - float(x)) > 1e-12 * max(1.0, abs(float(x))) or abs(f.numerator) > 2 ** 20 or f.denominator > 2 ** 12:
        return None
    return [f.numerator, f.denominator]


def observe_case(sc):
    """Flagged parameters of a case: (model, param, kind, device, vin, v, pu_coeff, base tuple)."""
    if sc.get("gen"):
        # a generated network whose devices are rated on bases different from their buses' (factors != 1)
        from . import pfdrv, netbuild
        ss, _, _ = netbuild.build(pfdrv.network_spec(*sc["gen"]))
    else:
        ss = load_case(sc["case"], setup=not sc.get("dc_extra"))
        if sc.get("dc_extra"):
            # a DC branch rated on bases different from its node's (stock DC devices are all rated on the node base)
            for k, (vd, idc) in enumerate(sc["dc_extra"]):
                ss.add("RCs", dict(idx="RCx%d" % k, node1=1, node2=0, Vdcn1=vd, Vdcn2=vd, Idcn=idc, R=0.5 + k, C=0.02 * (k + 1)))
            ss.setup()
    recs = []
    for mname, mdl in ss.models.items():
        if mdl.n == 0:
            continue
        try:
            Sn, Vn, Sb, Vb = _bases_of(ss, mdl)
            rvd_a, rid_a = _dc_bases_of(ss, mdl)
        except Exception:
            continue
        for kind in KINDS:
            for pname, p in mdl.find_param(kind).items():
                if p.vin is None:
                    continue
                for k in range(mdl.n):
                    if isinstance(p.vin[k], (list, np.ndarray)) or np.ndim(p.v) != 1:
                        continue
                    fb = [_frac(Sn[k]), _frac(Vn[k]), _frac(Sb[k]), _frac(Vb[k])]
                    if any(x is None for x in fb):
                        continue
                    rv = Fraction(*fb[1]) / Fraction(*fb[3])
                    rs = Fraction(*fb[0]) / Fraction(*fb[2])
                    if max(abs(rv.numerator), rv.denominator, abs(rs.numerator), rs.denominator) > 20000:
                        continue
                    fd = [_frac(rvd_a[k]), _frac(rid_a[k])]
                    if any(x is None for x in fd):
                        continue
                    b = [[rv.numerator, rv.denominator], [rs.numerator, rs.denominator], fd[0], fd[1]]
                    recs.append(dict(model=mname, param=pname, kind=kind, dev=str(mdl.idx.v[k]), vin=float(p.vin[k]),
                                     v=float(p.v[k]), k=float(p.pu_coeff[k]), bases=b))
    return dict(sid=sc["sid"], recs=recs)


def _snapshot(ss, targets):
    out = {}
    for key, (mname, pname, idx) in targets.items():
        mdl = ss.models[mname]
        p = mdl.__dict__[pname]
        uid = mdl.idx2uid(idx)
        rec = dict(vin=float(p.vin[uid]), v=float(p.v[uid]), k=float(p.pu_coeff[uid]))
        # time constant propagation
        for st in mdl.states.values():
            if st.t_const is p and len(st.a) > 0:
                a = int(st.a[uid])
                rec.setdefault("tf", []).append(float(ss.dae.Tf[a]))
                if ss.TDS.Teye is not None:
                    rec.setdefault("teye", []).append(float(ss.TDS.Teye[a, a]))
        out[key] = rec
    return out


def run_sequence(sc):
    """ops applied to PQ.p0 ('power') and GENROU.M (time constant, 'power') of kundur_full at a lifecycle point."""
    import andes
    ss = load_case(sc.get("case", "kundur/kundur_full.json"))
    ss.TDS.config.no_tqdm = 1
    point = sc["point"]
    if point in ("after_pflow", "after_tds_init"):
        ss.PFlow.run()
    if point == "after_tds_init":
        ss.TDS.init()
    targets = {"PQ.p0": ("PQ", "p0", "PQ_0"), "GENROU.M": ("GENROU", "M", 2), "GENROU.xd": ("GENROU", "xd", 3)}
    groups = {"PQ.p0": "StaticLoad", "GENROU.M": "SynGen", "GENROU.xd": "SynGen"}
    if sc.get("targets"):
        targets = {k: tuple(v[:3]) for k, v in sc["targets"].items()}
        groups = {k: v[3] for k, v in sc["targets"].items()}
    ev = []
    if sc.get("export_first"):
        d0 = scratch_dir("exp0")
        try:
            for fmt in sc["export_first"]:
                andes.io.dump(ss, fmt, full_path=os.path.join(d0, "first." + fmt), overwrite=True)
        finally:
            import shutil as _sh
            _sh.rmtree(d0, ignore_errors=True)
    s0 = _snapshot(ss, targets)
    vals = [1.5, 2.25, 0.75]
    for j, op in enumerate(sc["ops"]):
        key = list(targets)[j % len(targets)]
        mname, pname, idx = targets[key]
        mdl = ss.models[mname]
        x = vals[j % len(vals)] * (1 + j)
        raised = None
        before = _snapshot(ss, targets)
        try:
            if op == "alter_v":
                mdl.alter(pname, idx, x)
            elif op == "alter_vin":
                mdl.alter(pname, idx, x, attr="vin")
            elif op == "set":
                mdl.set(pname, idx, "v", x)
            elif op == "table_vin":
                # the whole input table handed back with one cell changed (what the notebook sheet editor does)
                df = mdl.cache.df_in.copy() if hasattr(mdl.cache, "df_in") else mdl.as_df(vin=True)
                col = list(df[pname])
                col[mdl.idx.v.index(idx)] = x
                df[pname] = col
                mdl.update_from_df(df, vin=True)
            elif op == "group_alter":
                ss.groups[groups[key]].alter(pname, idx, x)
            elif op == "reset":
                if ss.TDS.initialized:
                    ss.reset()          # documented to refuse
                else:
                    ss.reset()
                    if point != "after_setup":
                        ss.PFlow.run()
        except Exception as ex:
            raised = "%s: %s" % (type(ex).__name__, str(ex)[:120])
        after = _snapshot(ss, targets)
        a, b = after[key], before[key]
        rec = dict(e="op", op=op, key=key, raised=raised is not None, raised_text=raised, tds_init=bool(ss.TDS.initialized))
        k = a["k"]
        close = lambda p, q: abs(p - q) <= 1e-12 * max(1.0, abs(p), abs(q))   # noqa
        rec["consistent"] = bool(close(a["v"], a["vin"] * k))
        if op in ("alter_v", "group_alter", "table_vin"):
            rec["effect_ok"] = bool(close(a["vin"], x) and close(a["v"], x * k))
        elif op == "alter_vin":
            rec["effect_ok"] = bool(close(a["v"], x) and close(a["vin"], x / k))
        elif op == "set":
            rec["effect_ok"] = bool(close(a["v"], x) and close(a["vin"], b["vin"]))
        else:
            rec["effect_ok"] = True
        rec["tf_follows"] = bool(all(close(t, a["v"]) for t in a.get("tf", [])) and all(close(t, a["v"]) for t in a.get("teye", [])))
        rec["n_tf"] = len(a.get("tf", []))
        # other targets untouched
        rec["others_untouched"] = bool(all(after[o] == before[o] for o in targets if o != key)) if op != "reset" else True
        if op == "reset" and not raised:
            refused = bool(before == after and ss.TDS.initialized)
            rec["reset_refused"] = refused
            rec["reset_ok"] = bool(refused or all(close(after[o]["v"], after[o]["vin"] * after[o]["k"]) and
                                                    close(after[o]["k"], s0[o]["k"]) and
                                                    (close(after[o]["vin"], s0[o]["vin"]) or close(after[o]["vin"], before[o]["vin"]))
                                                    for o in targets))
        else:
            rec["reset_refused"] = False
            rec["reset_ok"] = True
        ev.append(rec)
    # export: what a subsequent case export writes is the input-base value
    exp_ok = True
    exp_err = None
    d = scratch_dir("exp")
    try:
        for fmt in sc.get("formats", ["json", "xlsx"]):
            path = os.path.join(d, "dump." + fmt)
            andes.io.dump(ss, fmt, full_path=path, overwrite=True)
            ss2 = andes.load(path, setup=False, use_input_path=False, default_config=True, no_output=True,
                             pycode_path=ss.options.get("pycode_path"), autogen_stale=False)
            for key, (mname, pname, idx) in targets.items():
                mdl2 = ss2.models[mname]
                uid = mdl2.idx.v.index(idx)
                got = float(mdl2.__dict__[pname].v[uid])
                want = _snapshot(ss, {key: targets[key]})[key]["vin"]
                if abs(got - want) > 1e-9 * max(1.0, abs(want)):
                    exp_ok = False
                    exp_err = "%s %s: exported %r, input-base value %r" % (fmt, key, got, want)
    except Exception as ex:
        exp_ok = False
        exp_err = "%s: %s" % (type(ex).__name__, str(ex)[:160])
    finally:
        import shutil
        shutil.rmtree(d, ignore_errors=True)
    set_used = any(o == "set" for o in sc["ops"])
    ev.append(dict(e="export", ok=bool(exp_ok), error=exp_err, set_used=set_used))
    # takes effect in the next residual evaluation: g of the PQ bus changes iff p0's system value changed
    return dict(meta=dict(tid=sc["tid"], sid=sc["sid"]), ev=ev)
