"""
C01 / C03 drivers on whole systems.
 * pf_variants: one network entered in different device orders / idx kinds / device bases must give the same solution by name.
 * pf_stock: power flow of a stock case with a Newton variant / sparse library: converged => residual at the reported
   solution below tol (recomputed), voltage-controlled buses at set-point, slack at reference angle.
 * jac_stock: assembled Jacobian against central finite differences of the assembled residual, column by column;
   sparsity pattern unchanged between updates.
"""
import math
import random

import numpy as np

from .common import load_case, new_system
from . import netbuild, ybus


def _solve(ss, method="NR", lib="klu"):
    from andes.linsolvers.solverbase import Solver
    if lib != "klu":
        ss.PFlow.solver = Solver(sparselib=lib)
    ss.PFlow.config.method = method
    return bool(ss.PFlow.run())


def _by_name(ss):
    return {n: float(v) for n, v in zip(ss.dae.y_name, ss.dae.y)}


def network_spec(seed, idx_kind, base, order_seed):
    rnd = random.Random(seed)
    n = rnd.choice([3, 4, 5])
    vb = 110.0
    sn = {1: 100.0, 2: 50.0, 3: 200.0}[base]
    vn = {1: vb, 2: vb * 2.0, 3: vb * 0.95}[base]
    kz = (vn ** 2 / sn) / (vb ** 2 / 100.0)         # textbook factor: the same *physical* branch in another device base
    def bid(i):
        if idx_kind == "mixed":                     # numbers and a string in one index column
            return i if i < n else "B%d" % i
        return i if idx_kind == "int" else "B%d" % i
    edges = [(i, i + 1) for i in range(1, n)]
    if rnd.random() < 0.7:
        edges.append((1, n))
    if rnd.random() < 0.5:
        edges.append((1, 2))                       # parallel branch
    devs = [dict(model="Bus", idx=bid(i), Vn=vb) for i in range(1, n + 1)]
    rest = []
    for k, (a, b) in enumerate(edges):
        r, x, bc = rnd.choice([0.01, 0.02, 0.005]), rnd.choice([0.1, 0.08, 0.15]), rnd.choice([0.0, 0.04, 0.1])
        b1, b2 = rnd.choice([0.0, 0.02]), rnd.choice([0.0, 0.05])
        tap, phi = rnd.choice([1.0, 1.0, 1.05, 0.975]), rnd.choice([0.0, 0.0, 0.05])
        rest.append(dict(model="Line", idx=(k + 1 if idx_kind in ("int", "mixed") else "L%d" % (k + 1)), bus1=bid(a), bus2=bid(b),
                         Sn=sn, Vn1=vn, Vn2=vn, r=r / kz, x=x / kz, b=bc * kz, b1=b1 * kz, b2=b2 * kz, tap=tap, phi=phi,
                         trans=int(tap != 1.0 or phi != 0.0), u=1))
    rest.append(dict(model="Slack", idx=(100 if idx_kind in ("int", "mixed") else "S1"), bus=bid(1), Vn=vb, v0=1.02, a0=0.0, p0=0.2, q0=0.0))
    if n >= 4:
        rest.append(dict(model="PV", idx=(101 if idx_kind in ("int", "mixed") else "G1"), bus=bid(n), Vn=vb, Sn=sn, v0=1.01, p0=0.3,
                         q0=0.0, qmax=99, qmin=-99))      # PV.p0 is documented to be in the system base
    for j in range(2, n + 1):
        # PQ has no device MVA base: its powers are in the system base
        rest.append(dict(model="PQ", idx=(200 + j if idx_kind in ("int", "mixed") else "D%d" % j), bus=bid(j), Vn=vb,
                         p0=rnd.choice([0.1, 0.2, 0.15]), q0=rnd.choice([0.02, 0.05])))
    rest.append(dict(model="PQ", idx=(299 if idx_kind == "int" else "D9"), bus=bid(2), Vn=vb, p0=0.05, q0=0.01))   # two loads on one bus
    rest.append(dict(model="Shunt", idx=(300 if idx_kind in ("int", "mixed") else "H1"), bus=bid(n), Vn=vn, Sn=sn, b=0.05 * kz, g=0.0))
    rest.append(dict(model="Shunt", idx=(301 if idx_kind in ("int", "mixed") else "H2"), bus=bid(n), Vn=vn, Sn=sn, b=0.03 * kz, g=0.01 * kz))   # two shunts on one bus
    rest.append(dict(model="Line", idx=(90 if idx_kind == "int" else "Loff"), bus1=bid(1), bus2=bid(n), Sn=sn, Vn1=vn, Vn2=vn,
                     r=0.01 / kz, x=0.1 / kz, u=0))                                                         # an offline branch
    random.Random(order_seed).shuffle(rest)
    return dict(devices=devs + rest)


def pf_variants(sc):
    """The same physical network in several encodings: solutions compared by variable name (bus part only)."""
    out = []
    ref = None
    for (idx_kind, base, oseed, method, lib) in sc["variants"]:
        spec = network_spec(sc["seed"], idx_kind, base, oseed)
        ss, ids, ok = netbuild.build(spec)
        conv = _solve(ss, method, lib)
        # bus voltages by bus position (idx kinds differ in naming)
        sol = np.hstack([np.array(ss.Bus.a.v), np.array(ss.Bus.v.v)])
        ss.PFlow.fg_update()
        resid = float(np.max(np.abs(ss.dae.g))) if conv else float("nan")
        if ref is None:
            ref = sol
        iok, iworst, iwhere = ybus.verdict(ss) if conv else (None, None, "")
        out.append(dict(variant="%s/base%d/order%d/%s/%s" % (idx_kind, base, oseed, method, lib), converged=conv,
                        indep_ok=bool(iok is not False), indep=[iworst, iwhere],
                        same=bool(conv and len(sol) == len(ref) and np.max(np.abs(sol - ref)) <= 1e-7),
                        resid_ok=bool(conv and resid <= ss.PFlow.config.tol), dmax=float(np.max(np.abs(sol - ref))) if conv and len(sol) == len(ref) else -1.0))
    # the same network after a history of connection changes: the last bus is cut off (all its branches out of service),
    # the power flow is run, the branches are put back and the power flow is run again - the solution of the restored
    # network must be the reference solution and balance at EVERY bus (computed without the library's island list)
    if ref is not None and sc.get("history", True):
        spec = network_spec(sc["seed"], "int", 1, 0)
        ss, ids, ok = netbuild.build(spec)
        last = ss.Bus.idx.v[-1]
        cut = [ss.Line.idx.v[k] for k in range(ss.Line.n)
               if ss.Line.u.v[k] == 1 and (ss.Line.bus1.v[k] == last or ss.Line.bus2.v[k] == last)]
        for i in cut:
            ss.Line.alter("u", i, 0)
        try:
            _solve(ss, "NR", "klu")
        except Exception:
            pass
        for i in cut:
            ss.Line.alter("u", i, 1)
        try:
            conv = _solve(ss, "NR", "klu")
        except Exception:
            conv = False
        sol = np.hstack([np.array(ss.Bus.a.v), np.array(ss.Bus.v.v)])
        resid = float("nan")
        if conv:
            ss.PFlow.fg_update()
            resid = float(np.max(np.abs(ss.dae.g)))
        iok, iworst, iwhere = ybus.verdict(ss) if conv else (None, None, "")
        out.append(dict(variant="history/cut-last-bus(%d branches)/reconnect" % len(cut), converged=conv,
                        indep_ok=bool(iok is not False), indep=[iworst, iwhere],
                        same=bool(conv and len(sol) == len(ref) and np.max(np.abs(sol - ref)) <= 1e-7),
                        resid_ok=bool(conv and resid <= ss.PFlow.config.tol),
                        dmax=float(np.max(np.abs(sol - ref))) if conv and len(sol) == len(ref) else -1.0))
    return dict(sid=sc["sid"], records=out)


def pf_stock(sc):
    ss = load_case(sc["case"])
    try:
        conv = _solve(ss, sc["method"], sc["lib"])
    except Exception as ex:
        return dict(sid=sc["sid"], raised="%s: %s" % (type(ex).__name__, str(ex)[:120]))
    rec = dict(sid=sc["sid"], converged=conv, raised=None)
    if conv:
        ss.PFlow.fg_update()
        g = np.asarray(ss.dae.g)
        iso = [int(b) for b in getattr(ss.Bus, "islanded_buses", [])]
        mask = np.ones(len(g), dtype=bool)
        for b in iso:
            mask[b] = False
            mask[ss.Bus.n + b] = False
        rec["resid_ok"] = bool(np.max(np.abs(g[mask])) <= ss.PFlow.config.tol)
        rec["resid"] = float(np.max(np.abs(g[mask])))
        # set-points: PV buses not at a reactive limit sit at v0; the slack bus at its reference angle
        pv = ss.PV
        ok_v = True
        for k in range(pv.n):
            if pv.u.v[k] != 1:
                continue
            free = True
            if hasattr(pv, "qlim") and len(np.atleast_1d(pv.qlim.zi)) == pv.n:
                free = bool(pv.qlim.zi[k] == 1)
            if free:
                vb = ss.Bus.v.v[ss.Bus.idx2uid(pv.bus.v[k])]
                ok_v = ok_v and abs(vb - pv.v0.v[k]) <= 10 * ss.PFlow.config.tol
        sl = ss.Slack
        ok_a = True
        for k in range(sl.n):
            if sl.u.v[k] == 1:
                ab = ss.Bus.a.v[ss.Bus.idx2uid(sl.bus.v[k])]
                vb = ss.Bus.v.v[ss.Bus.idx2uid(sl.bus.v[k])]
                ok_a = ok_a and abs(ab - sl.a0.v[k]) <= 10 * ss.PFlow.config.tol and abs(vb - sl.v0.v[k]) <= 10 * ss.PFlow.config.tol
        rec["setpoints_ok"] = bool(ok_v and ok_a)
        rec["nan"] = bool(np.isnan(ss.dae.y).any())
        iok, iworst, iwhere = ybus.verdict(ss)
        rec["indep_ok"] = bool(iok is not False)
        rec["indep"] = [iworst, iwhere, "decided" if iok is not None else "undecided"]
        rec["source_ok"] = True
        if sc["case"].endswith((".m", ".raw")):
            # the third-party source file read independently (vh/srcread.py) must balance at the reported voltages
            from . import srcread
            from .common import case_path
            net = srcread.read_source(case_path(sc["case"]))
            V = {idx: ss.Bus.v.v[k] * np.exp(1j * ss.Bus.a.v[k]) for k, idx in enumerate(ss.Bus.idx.v)}
            r = srcread.source_balance(net, V, tol=float(ss.PFlow.config.tol))
            rec["source_ok"] = bool(r["undecided"] or not r["bad"])
            rec["source"] = dict(checked=r["checked"], worst=r["worst"], bad=r["bad"][:4], undecided=r["undecided"][:3])
    return rec


def pf_qlimits(sc):
    """PV -> PQ conversion (PV.config.pv2pq = 1): a generated network whose PV generators have reactive limits, some of them
    binding.  Expected from the documented behaviour: a generator that the library reports at a limit (qlim.zu / zl) delivers
    exactly that limit and no longer controls its voltage; every other one sits at its voltage set-point; the solution balances
    (independently) with the reported reactive outputs; flags never return (sticky) - observed after every Newton iteration."""
    rnd = random.Random(sc["seed"])
    n = sc.get("n", 5)
    vb = 110.0
    devs = [dict(model="Bus", idx=i, Vn=vb) for i in range(1, n + 1)]
    edges = [(i, i + 1) for i in range(1, n)] + [(1, n)]
    for k, (a, b) in enumerate(edges):
        devs.append(dict(model="Line", idx=k + 1, bus1=a, bus2=b, Vn1=vb, Vn2=vb, r=0.01, x=rnd.choice([0.08, 0.1, 0.15]), b=0.04, u=1))
    devs.append(dict(model="Slack", idx=100, bus=1, Vn=vb, v0=1.02, a0=0.0, p0=0.2, q0=0.0))
    gens = []
    for j, bus in enumerate(range(2, n + 1)):
        if j % 2 == 0 or sc.get("all_pv"):
            lim = rnd.choice(sc.get("qlims", [0.02, 0.05, 0.5]))
            lo = rnd.choice(sc.get("qmins", [-0.5, -0.01]))
            devs.append(dict(model="PV", idx=200 + bus, bus=bus, Vn=vb, Sn=100.0, v0=rnd.choice([1.0, 1.03, 1.05, 0.97]), p0=rnd.choice([0.1, 0.3]),
                             q0=0.0, qmax=lim, qmin=lo))
            gens.append(200 + bus)
        devs.append(dict(model="PQ", idx=300 + bus, bus=bus, Vn=vb, p0=rnd.choice([0.2, 0.4, 0.6]), q0=rnd.choice([0.05, 0.2, 0.3])))
    opts = ["PV.pv2pq=1", "PV.npv2pq=%d" % sc.get("nsel", 0)]
    ss, ids, ok = netbuild.build(dict(devices=devs, sys_kw=dict(config_option=opts)))
    hist = []
    pv = ss.PV
    orig = ss.PFlow.nr_step

    def stepped(*a, **kw):
        r_ = orig(*a, **kw)
        hist.append((np.array(pv.qlim.zl).astype(int).tolist(), np.array(pv.qlim.zu).astype(int).tolist()))
        return r_
    ss.PFlow.nr_step = stepped
    conv = _solve(ss, sc.get("method", "NR"), "klu")
    tol = float(ss.PFlow.config.tol)
    rec = dict(sid=sc["sid"], converged=bool(conv), n_iter=len(hist), enabled=int(pv.config.pv2pq))
    sticky = True
    for k in range(1, len(hist)):
        for side in (0, 1):
            if len(hist[k][side]) == pv.n and len(hist[k - 1][side]) == pv.n:
                sticky = sticky and all(b >= a for a, b in zip(hist[k - 1][side], hist[k][side]))
    rec["sticky"] = bool(sticky)
    if conv:
        zl, zu, zi = (np.atleast_1d(getattr(pv.qlim, f)).astype(int) for f in ("zl", "zu", "zi"))
        at_limit, at_setpoint, inside, onehot = True, True, True, True
        detail = []
        for k in range(pv.n):
            q, v = float(pv.q.v[k]), float(ss.Bus.v.v[ss.Bus.idx2uid(pv.bus.v[k])])
            qmax, qmin, v0 = float(pv.qmax.v[k]), float(pv.qmin.v[k]), float(pv.v0.v[k])
            onehot = onehot and (zl[k] + zu[k] + zi[k] == 1)
            if zu[k]:
                at_limit = at_limit and abs(q - qmax) <= 10 * tol
            if zl[k]:
                at_limit = at_limit and abs(q - qmin) <= 10 * tol
            if zi[k]:
                at_setpoint = at_setpoint and abs(v - v0) <= 10 * tol
                inside = inside and (qmin - 1e-3 <= q <= qmax + 1e-3)
            detail.append(dict(idx=pv.idx.v[k], q=q, qmin=qmin, qmax=qmax, v=v, v0=v0, zl=int(zl[k]), zu=int(zu[k]), zi=int(zi[k])))
        iok, iworst, iwhere = ybus.verdict(ss)
        rec.update(at_limit=bool(at_limit), at_setpoint=bool(at_setpoint), inside=bool(inside), onehot=bool(onehot), indep_ok=bool(iok is not False),
                   indep=[iworst, iwhere], n_converted=int(zl.sum() + zu.sum()), detail=detail)
    return rec


def _pattern(ss):
    from andes.shared import sparse
    out = {}
    for name in ("fx", "fy", "gx", "gy"):
        m = ss.dae.__dict__[name]
        out[name] = frozenset(zip([int(i) for i in m.I], [int(j) for j in m.J]))
    return out


def jac_stock(sc):
    """Assembled Jacobian vs central differences of the assembled residual at the operating point."""
    ss = load_case(sc["case"], **({"config_option": ["System.ipadd=%d" % sc["ipadd"]]} if "ipadd" in sc else {}))
    ss.TDS.config.no_tqdm = 1
    rec = dict(sid=sc["sid"], phase=sc["phase"])
    if not ss.PFlow.run():
        return dict(rec, skipped="pflow")
    dae = ss.dae
    if sc.get("history"):
        # a connection history first: the bus with the fewest branches (not a slack bus) is cut off, the power flow is run with
        # the bus islanded, the branches are put back and the power flow is run again; the Jacobian is then examined
        deg = {}
        for k in range(ss.Line.n):
            if ss.Line.u.v[k] == 1:
                for b in (ss.Line.bus1.v[k], ss.Line.bus2.v[k]):
                    deg.setdefault(b, []).append(ss.Line.idx.v[k])
        slack_buses = set(ss.Slack.bus.v)
        cand = sorted((len(v), str(b), b) for b, v in deg.items() if b not in slack_buses)
        if not cand:
            return dict(rec, skipped="no bus to cut")
        cut = deg[cand[0][2]]
        for i in cut:
            ss.Line.alter("u", i, 0)
        try:
            ss.PFlow.run()
        except Exception:
            pass
        for i in cut:
            ss.Line.alter("u", i, 1)
        if sc["history"] == "swap":
            # ... and another bus is cut off instead: the same number of islanded buses, a different bus; the Jacobian is
            # examined at the initial point of that state
            if len(cand) < 2:
                return dict(rec, skipped="no second bus to cut")
            cut2 = deg[cand[1][2]]
            for i in cut2:
                ss.Line.alter("u", i, 0)
            # rows of the bus that is cut off now are regularised by the library (residual zero, eps on the diagonal) and are
            # not compared; the rows of the re-connected bus are
            uid2 = ss.Bus.idx2uid(cand[1][2])
            rec["_skip_rows"] = [int(ss.Bus.a.a[uid2]), int(ss.Bus.v.a[uid2])]
            ss.connectivity(info=False)       # what PFlow.run does before initialising
            ss.PFlow.init()
            rec["history"] = "cut bus %s, power flow, reconnect, cut bus %s, initialise" % (cand[0][2], cand[1][2])
        else:
            if not ss.PFlow.run():
                return dict(rec, skipped="pflow after reconnection")
            rec["history"] = "cut bus %s (%d branches), power flow, reconnect, power flow" % (cand[0][2], len(cut))
    if sc["phase"] == "tds":
        ss.TDS.init()
        if ss.TDS.test_ok is False:
            rec["init_failed"] = True
        models = ss.exist.pflow_tds
        def F():
            ss.TDS.fg_update(models)
            return np.hstack([np.array(dae.f), np.array(dae.g)])
    else:
        models = ss.PFlow.models
        def F():
            ss.PFlow.fg_update()
            return np.hstack([np.array(dae.f), np.array(dae.g)])
    # in-place parameter changes after the first Jacobian evaluation: the residual uses the new values, so must the Jacobian
    if sc.get("alter_after_init"):
        ss.j_update(models=models)
        for mname, pname in (("GENCLS", "D"), ("GENROU", "D"), ("GENROU", "M"), ("TGOV1", "R"), ("EXDC2", "KA"), ("Line", "x"),
                             ("PQ", "p0"), ("IEEEG1", "K"), ("ESST3A", "KA"), ("REGCA1", "Tg")):
            mdl = ss.models[mname]
            if mdl.n == 0 or mname not in models:
                continue
            for k in range(min(mdl.n, 2)):
                par = mdl.__dict__[pname]
                v = float(par.vin[k]) if par.vin is not None else float(par.v[k])
                mdl.alter(pname, mdl.idx.v[k], v * 1.7 + 0.1)
    n, m = dae.n, dae.m
    # the mass matrix of the step equations (dae.Tf in the residual, TDS.Teye in the step Jacobian) carries the time constants
    # the models have now
    rec["mass_current"] = True
    if sc["phase"] == "tds" and dae.n:
        Tm = np.ones(dae.n)
        for mdl in models.values():
            if mdl.n == 0:
                continue
            for st in mdl.states.values():
                if st.t_const is not None:
                    Tm[np.asarray(st.a, dtype=int)] = np.asarray(st.t_const.v, dtype=float)
        teye = ss.TDS.Teye
        td = np.array([teye[i, i] for i in range(dae.n)]) if teye is not None and teye.size[0] == dae.n else Tm
        rec["mass_current"] = bool(np.array_equal(np.asarray(dae.Tf, dtype=float), Tm) and np.array_equal(td, Tm))
    def flags():
        out = []
        for mdl in models.values():
            if mdl.n == 0:
                continue
            for d in mdl.discrete.values():
                for fl in d.export_flags:
                    out.append(np.ravel(np.array(d.__dict__[fl], dtype=float)))
        return np.hstack(out) if out else np.zeros(0)
    F0 = F()
    z0 = flags()
    ss.j_update(models=models)
    pat1 = _pattern(ss)
    from andes.shared import matrix, sparse
    J = np.array(matrix(sparse([[dae.fx, dae.gx], [dae.fy, dae.gy]])))
    ss.j_update(models=models)
    pat2 = _pattern(ss)
    rec["pattern_stable"] = bool(pat1 == pat2)
    rec["modes_agree"] = True
    if sc.get("ipadd") == 0 and not sc.get("history") and not sc.get("alter_after_init"):
        # the two ways of accumulating the Jacobian (in place into the stored pattern / rebuilt) give the same matrices:
        # same structural entries, same values
        sc1 = dict(sc, ipadd=1)
        ss1 = load_case(sc1["case"], config_option=["System.ipadd=1"])
        ss1.TDS.config.no_tqdm = 1
        if ss1.PFlow.run():
            if sc["phase"] == "tds":
                ss1.TDS.init()
                m1 = ss1.exist.pflow_tds
                ss1.TDS.fg_update(m1)
            else:
                m1 = ss1.PFlow.models
                ss1.PFlow.fg_update()
            ss1.j_update(models=m1)
            patA = _pattern(ss1)
            J1 = np.array(matrix(sparse([[ss1.dae.fx, ss1.dae.gx], [ss1.dae.fy, ss1.dae.gy]])))
            # rows of buses with no branch in service are regularised differently by the two modes (see the cut-off bus finding)
            skip = set()
            deg0 = {}
            for k_ in range(ss.Line.n):
                if ss.Line.u.v[k_] == 1:
                    for b_ in (ss.Line.bus1.v[k_], ss.Line.bus2.v[k_]):
                        deg0[b_] = deg0.get(b_, 0) + 1
            for k_ in range(ss.Bus.n):
                if deg0.get(ss.Bus.idx.v[k_], 0) == 0:
                    skip.update([int(ss.Bus.a.a[k_]), int(ss.Bus.v.a[k_])])
            keep = np.array([i for i in range(J.shape[0]) if (i - dae.n) not in skip], dtype=int)
            same_pat = all({e for e in patA[nm] if not (nm[0] == "g" and e[0] in skip)} == {e for e in pat1[nm] if not (nm[0] == "g" and e[0] in skip)}
                           for nm in ("fx", "fy", "gx", "gy"))
            same_val = J1.shape == J.shape and bool(np.all(np.abs(J1[keep] - J[keep]) <= 1e-10 * (1.0 + np.abs(J[keep]))))     # sums of many terms in another order
            rec["modes_agree"] = bool(same_pat and same_val)
            if not rec["modes_agree"]:
                diff = []
                for name in ("fx", "fy", "gx", "gy"):
                    d_ = sorted(patA[name] ^ pat1[name])[:3]
                    if d_:
                        diff.append("%s entries only in one mode: %s" % (name, d_))
                rec["modes_diff"] = diff or ["values differ by %g" % float(np.max(np.abs(J1 - J)))]
    xy0 = np.hstack([np.array(dae.x), np.array(dae.y)])
    bad_cols = []
    skipped = 0
    delta = 1e-6
    cols = range(n + m) if (n + m) <= sc.get("maxcols", 400) else sorted(random.Random(1).sample(range(n + m), sc.get("maxcols", 400)))
    worst = 0.0
    for k in cols:
        cols_ok = True
        vals = []
        for sgn in (1, -1):
            xy = np.array(xy0)
            xy[k] += sgn * delta
            dae.x[:] = xy[:n]
            dae.y[:] = xy[n:]
            ss.vars_to_models()
            vals.append(F())
            if len(z0) and not np.array_equal(flags(), z0):
                cols_ok = False
        if not cols_ok:
            skipped += 1
            continue
        fd = (vals[0] - vals[1]) / (2 * delta)
        scale = 1.0 + np.abs(J[:, k]).max()
        err = np.abs(J[:, k] - fd)
        # the diagonal of gy carries diag_eps regularisation
        if k >= n:
            err[k] = max(0.0, err[k] - 1e-6)
        for r_skip in rec.get("_skip_rows", []):
            err[n + r_skip] = 0.0
        e = float(err.max() / scale)
        worst = max(worst, e)
        if e > 1e-4:
            for r_ in np.where(err / scale > 1e-4)[0]:
                r_ = int(r_)
                bad_cols.append(dict(col=int(k), colname=dae.xy_name[k], row=r_, rowname=(dae.xy_name[r_]), J=float(J[r_, k]), fd=float(fd[r_])))
    dae.x[:] = xy0[:n]
    dae.y[:] = xy0[n:]
    ss.vars_to_models()
    F()
    # structurally non-zero entries (seen by finite differences) are inside the stored pattern
    def mv(name):
        parts = name.split()
        return "%s.%s" % (parts[1], parts[0]) if len(parts) >= 2 else name
    # rows of buses that are cut off (no branch in service; computed from the device tables, not from the library's list):
    # the library forces their residual to zero and keeps the entries of the devices connected there
    deg_now = {}
    for k in range(ss.Line.n):
        if ss.Line.u.v[k] == 1:
            for b_ in (ss.Line.bus1.v[k], ss.Line.bus2.v[k]):
                deg_now[b_] = deg_now.get(b_, 0) + 1
    cut_rows = set()
    for k in range(ss.Bus.n):
        if deg_now.get(ss.Bus.idx.v[k], 0) == 0:
            cut_rows.update([n + int(ss.Bus.a.a[k]), n + int(ss.Bus.v.a[k])])
    isl = [b for b in bad_cols if b["row"] in cut_rows and b["fd"] == 0.0]
    bad_cols = [b for b in bad_cols if not (b["row"] in cut_rows and b["fd"] == 0.0)]
    rec["cut_off_bus_rows_keep_device_entries"] = sorted({"%s / %s" % (b["rowname"], b["colname"]) for b in isl})[:6]
    pairs = sorted({(mv(b["rowname"]), mv(b["colname"])) for b in bad_cols})
    rec.update(ncols=len(list(cols)), skipped_cols=skipped, fd_ok=bool(not bad_cols), bad=bad_cols[:5], worst=worst, n=n, m=m,
               pairs=[list(p_) for p_ in pairs])
    return rec
