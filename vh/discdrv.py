"""
C09 driver: instantiates the real discrete component classes stand-alone (as tests/test_discrete.py does),
feeds them the inputs / time-stamp histories TLC enumerated from Discrete.tla and compares what they return
with the value the definition prescribes (exact; rationals compared at 1e-12).
Vectorised: one component instance carries many lattice points as "devices".
"""
from fractions import Fraction

import numpy as np

from .common import andes_mod


def _mk():
    andes_mod()
    from andes.core.param import NumParam
    from andes.core.var import Algeb, State
    return NumParam, Algeb, State


def check_limiters(cases):
    NumParam, Algeb, State = _mk()
    from andes.core.discrete import Limiter, HardLimiter, DeadBand
    bad = []
    groups = {}
    for c in cases:
        groups.setdefault((c["eq"], c["sl"], c["su"], c["nol"], c["nou"]), []).append(c)
    for (eq, sl, su, nol, nou), cs in groups.items():
        for cls in (Limiter, HardLimiter):
            u, lo, hi = Algeb(), NumParam(), NumParam()
            u.v = np.array([float(c["u"]) for c in cs])
            lo.v = np.array([float(c["lo"]) for c in cs])
            hi.v = np.array([float(c["hi"]) for c in cs])
            lim = cls(u, lo, hi, equal=eq, sign_lower=sl, sign_upper=su, no_lower=nol, no_upper=nou)
            lim.list2array(len(cs))
            lim.check_var()
            for k, c in enumerate(cs):
                g = lambda a: int(a[k]) if len(a) > k else int(a[0])   # noqa  (flags that are not exported keep size 1)
                got = dict(zu=g(lim.zu), zl=g(lim.zl), zi=g(lim.zi))
                if got != c["exp"]:
                    bad.append(dict(cls=cls.__name__, case={x: c[x] for x in c if x != "exp"}, expected=c["exp"], got=got))
    return bad


def check_antiwindup(cases):
    NumParam, Algeb, State = _mk()
    from andes.core.discrete import AntiWindup
    bad = []
    groups = {}
    for c in cases:
        groups.setdefault((c["sl"], c["su"]), []).append(c)
    for (sl, su), cs in groups.items():
        x, lo, hi = State(), NumParam(), NumParam()
        x.v = np.array([float(c["x"]) for c in cs])
        x.e = np.array([float(c["e"]) for c in cs])
        x.a = np.arange(len(cs))
        lo.v = np.array([float(c["lo"]) for c in cs])
        hi.v = np.array([float(c["hi"]) for c in cs])
        aw = AntiWindup(x, lo, hi, sign_lower=sl, sign_upper=su)
        aw.list2array(len(cs))
        aw.check_var()
        aw.check_eq(niter=0)
        for k, c in enumerate(cs):
            got = dict(zu=int(aw.zu[k]), zl=int(aw.zl[k]), zi=int(aw.zi[k]), x=int(x.v[k]) if float(x.v[k]).is_integer() else float(x.v[k]),
                       e=int(x.e[k]) if float(x.e[k]).is_integer() else float(x.e[k]))
            if got != c["exp"]:
                bad.append(dict(cls="AntiWindup", case={q: c[q] for q in c if q != "exp"}, expected=c["exp"], got=got))
        # pegged states are reported for the integrator (x_set) exactly when zi = 0
        pegged = set()
        for addr, _, _ in aw.x_set:
            pegged.update(int(a) for a in np.ravel(addr))
        want = {k for k, c in enumerate(cs) if c["exp"]["zi"] == 0}
        if pegged != want:
            bad.append(dict(cls="AntiWindup.x_set", case=dict(sl=sl, su=su), expected=sorted(want)[:10], got=sorted(pegged)[:10]))
    return bad


def check_simple(cmp_cases, sw_cases, sel_cases):
    NumParam, Algeb, State = _mk()
    from andes.core.discrete import LessThan, IsEqual, Switcher, Selector
    bad = []
    for eq in (True, False):
        cs = [c for c in cmp_cases if c["eq"] == eq]
        u, b = Algeb(), NumParam()
        u.v = np.array([float(c["u"]) for c in cs])
        b.v = np.array([float(c["bound"]) for c in cs])
        lt = LessThan(u, b, equal=eq)
        lt.list2array(len(cs))
        lt.check_var()
        ie = IsEqual(u, b)
        ie.list2array(len(cs))
        ie.check_var()
        for k, c in enumerate(cs):
            if int(lt.z1[k]) != c["lt"] or int(lt.z0[k]) != 1 - c["lt"]:
                bad.append(dict(cls="LessThan", case=c, got=[int(lt.z0[k]), int(lt.z1[k])]))
            if int(ie.z1[k]) != c["iseq"]:
                bad.append(dict(cls="IsEqual", case=c, got=int(ie.z1[k])))
    p = NumParam()
    p.v = np.array([float(c["u"]) for c in sw_cases])
    sw = Switcher(u=p, options=(0, 1, 2, 3))
    sw.list2array(len(sw_cases))
    for k, c in enumerate(sw_cases):
        got = [int(sw.__dict__["s%d" % i][k]) for i in range(4)]
        if got != c["flags"]:
            bad.append(dict(cls="Switcher", case=c, got=got))
    # an option outside the declared ones must be refused
    p2 = NumParam()
    p2.v = np.array([5.0])
    try:
        from types import SimpleNamespace
        sw2 = Switcher(u=p2, options=(0, 1, 2, 3))
        sw2.owner = SimpleNamespace(class_name="Probe")
        p2.name = "mode"
        sw2.list2array(1)
        bad.append(dict(cls="Switcher", case="invalid option 5", got="accepted"))
    except ValueError:
        pass
    for fun in ("max", "min"):
        cs = [c for c in sel_cases if c["fun"] == fun]
        a, b, c3 = Algeb(), Algeb(), Algeb()
        a.v = np.array([float(c["a"]) for c in cs])
        b.v = np.array([float(c["b"]) for c in cs])
        c3.v = np.array([float(c["c"]) for c in cs])
        f = (lambda xs: np.maximum.reduce(xs)) if fun == "max" else (lambda xs: np.minimum.reduce(xs))
        sel = Selector(a, b, c3, fun=f)
        sel.list2array(len(cs))
        sel.check_var()
        for k, c in enumerate(cs):
            got = [int(sel.s0[k]), int(sel.s1[k]), int(sel.s2[k])]
            if got != c["s"]:
                bad.append(dict(cls="Selector", case=c, got=got))
    return bad


def _close(x, frac):
    f = Fraction(frac[0], frac[1])
    return abs(float(x) - float(f)) <= 1e-12 * max(1.0, abs(float(f)))


def check_histories(cases):
    NumParam, Algeb, State = _mk()
    from andes.core.discrete import Delay, Average, Derivative
    bad = []
    for c in cases:
        d = c["d"]
        u1, u2, u3 = Algeb(), Algeb(), Algeb()
        for u in (u1, u2, u3):
            u.v = np.array([0.0, 0.0])        # two devices: the second carries the value + 10
        dl = Delay(u1, mode="step", delay=d)
        av = Average(u2, mode="step", delay=d)
        dr = Derivative(u3)
        for comp in (dl, av, dr):
            comp.list2array(2)
        for k, call in enumerate(c["calls"]):
            t = call["t"] * 0.5
            for u in (u1, u2, u3):
                u.v[:] = [float(call["u"]), float(call["u"]) + 10.0]
            dl.check_var(t)
            av.check_var(t)
            dr.check_var(t)
            if not (dl.v[0] == c["delay"][k] and dl.v[1] == c["delay"][k] + 10):
                bad.append(dict(cls="Delay", calls=c["calls"][:k + 1], d=d, expected=c["delay"][k], got=dl.v.tolist()))
                break
            if d == 1 and not _close(dr.v[0], c["deriv"][k]):
                bad.append(dict(cls="Derivative", calls=c["calls"][:k + 1], expected=c["deriv"][k], got=dr.v.tolist()))
                break
            if not _close(av.v[0], c["avg"][k]):
                bad.append(dict(cls="Average", calls=c["calls"][:k + 1], d=d, expected=c["avg"][k], got=av.v.tolist()))
                break
    return bad


def check_sampling(cases):
    NumParam, Algeb, State = _mk()
    from andes.core.discrete import Sampling
    bad = []
    for c in cases:
        u = Algeb()
        u.v = np.array([0.0])
        sp = Sampling(u, interval=1.0, offset=0.0)
        sp.list2array(1)
        for k, call in enumerate(c["calls"]):
            u.v[:] = float(call["u"])
            sp.check_var(call["t"] * 0.5)
            if sp.v[0] != c["out"][k]:
                bad.append(dict(cls="Sampling", calls=c["calls"][:k + 1], expected=c["out"][k], got=float(sp.v[0])))
                break
    return bad


def check_deadband_rt(cases):
    """DeadBandRT on every TLC-enumerated input history (values in halves, band (-1, 1)): all five flags after every call."""
    NumParam, Algeb, State = _mk()
    from andes.core.discrete import DeadBandRT
    bad = []
    cases = list(cases)
    n = len(cases)
    u, c, lo, hi = Algeb(), NumParam(), NumParam(), NumParam()
    u.v = np.zeros(n)
    c.v = np.zeros(n)
    lo.v = -np.ones(n)
    hi.v = np.ones(n)
    db = DeadBandRT(u, c, lo, hi)
    db.list2array(n)
    steps = len(cases[0]["inputs"]) if cases else 0
    failed = set()
    for k in range(steps):
        u.v[:] = [cs["inputs"][k] * 0.5 for cs in cases]
        db.check_var()
        for j, cs in enumerate(cases):
            if j in failed:
                continue
            exp = cs["flags"][k]
            got = dict(zu=int(db.zu[j]), zl=int(db.zl[j]), zi=int(db.zi[j]), zur=int(db.zur[j]), zlr=int(db.zlr[j]))
            if got != exp:
                failed.add(j)
                bad.append(dict(cls="DeadBandRT", step=k, inputs_in_halves=cs["inputs"], expected=exp, got=got))
    return bad


def check_ratelimiter(cases, awr_cases):
    """RateLimiter and AntiWindupRate on the TLC-enumerated lattices (condition flags per device)."""
    NumParam, Algeb, State = _mk()
    from andes.core.discrete import RateLimiter, AntiWindupRate
    bad = []
    cases = list(cases)
    n = len(cases)
    if n:
        x, rl, ru, cl, cu = State(), NumParam(), NumParam(), NumParam(), NumParam()
        x.v = np.zeros(n)
        x.e = np.array([float(c["e"]) for c in cases])
        x.a = np.arange(n)
        rl.v = np.array([float(c["rl"]) for c in cases])
        ru.v = np.array([float(c["ru"]) for c in cases])
        cl.v = np.array([float(c["cl"]) for c in cases])
        cu.v = np.array([float(c["cu"]) for c in cases])
        lim = RateLimiter(x, rl, ru, lower_cond=cl, upper_cond=cu)
        lim.list2array(n)
        lim.check_eq()
        for k, c in enumerate(cases):
            got = dict(zlr=int(lim.zlr[k]), zur=int(lim.zur[k]), e=int(x.e[k]) if float(x.e[k]).is_integer() else float(x.e[k]))
            if got != c["exp"]:
                bad.append(dict(cls="RateLimiter", case={q: c[q] for q in c if q != "exp"}, expected=c["exp"], got=got))
    cases = list(awr_cases)
    n = len(cases)
    if n:
        x, lo, hi, rl, ru, cl, cu = State(), NumParam(), NumParam(), NumParam(), NumParam(), NumParam(), NumParam()
        x.v = np.array([float(c["x"]) for c in cases])
        x.e = np.array([float(c["e"]) for c in cases])
        x.a = np.arange(n)
        for par, key in ((lo, "lo"), (hi, "hi"), (rl, "rl"), (ru, "ru"), (cl, "cl"), (cu, "cu")):
            par.v = np.array([float(c[key]) for c in cases])
        lim = AntiWindupRate(x, lo, hi, rl, ru, rate_lower_cond=cl, rate_upper_cond=cu)
        lim.list2array(n)
        lim.check_var()
        lim.check_eq(niter=0)
        num = lambda v: int(v) if float(v).is_integer() else float(v)   # noqa
        for k, c in enumerate(cases):
            got = dict(rate=dict(zlr=int(lim.zlr[k]), zur=int(lim.zur[k])),
                       aw=dict(zu=int(lim.zu[k]), zl=int(lim.zl[k]), zi=int(lim.zi[k]), x=num(x.v[k]), e=num(x.e[k])))
            exp = dict(rate=dict(zlr=c["exp"]["rate"]["zlr"], zur=c["exp"]["rate"]["zur"]), aw=c["exp"]["aw"])
            if got != exp:
                bad.append(dict(cls="AntiWindupRate", case={q: c[q] for q in c if q != "exp"}, expected=exp, got=got))
    return bad


def _owner(n):
    from types import SimpleNamespace
    return SimpleNamespace(class_name="Probe", idx=SimpleNamespace(v=list(range(n))))


def _num(v):
    return int(v) if float(v).is_integer() else float(v)


def check_gate(cases):
    """Discrete.check_iter_err (-1 in the lattice = argument not supplied); err_tol / err in hundredths."""
    NumParam, Algeb, State = _mk()
    from andes.core.discrete import Limiter
    bad = []
    for c in cases:
        u, lo, hi = Algeb(), NumParam(), NumParam()
        u.v, lo.v, hi.v = np.zeros(1), -np.ones(1), np.ones(1)
        lim = Limiter(u, lo, hi, min_iter=c["min_iter"], err_tol=c["err_tol"] / 100.0)
        got = lim.check_iter_err(niter=None if c["niter"] < 0 else c["niter"], err=None if c["err"] < 0 else c["err"] / 100.0)
        if bool(got) != c["open"]:
            bad.append(dict(cls="Discrete.check_iter_err", case={q: c[q] for q in c if q != "open"}, expected=c["open"], got=bool(got)))
    return bad


def check_adjust(cases, aw_cases):
    """Limit adjustment at initialisation: Limiter / HardLimiter.check_var and AntiWindup.check_eq with is_init."""
    NumParam, Algeb, State = _mk()
    from andes.core.discrete import Limiter, HardLimiter, AntiWindup
    bad = []
    groups = {}
    for c in cases:
        groups.setdefault((c["eq"], c["comp_allow"], c["model_allow"], c["adj_lo"], c["adj_hi"], c["is_init"]), []).append(c)
    for (eq, ca, ma, al, ah, ii), cs in groups.items():
        for cls in (Limiter, HardLimiter):
            n = len(cs)
            u, lo, hi = Algeb(), NumParam(), NumParam()
            u.name, lo.name, hi.name = "u", "lower", "upper"
            u.v = np.array([float(c["u"]) for c in cs])
            lo.v = np.array([float(c["lo"]) for c in cs])
            hi.v = np.array([float(c["hi"]) for c in cs])
            lim = cls(u, lo, hi, equal=eq, allow_adjust=ca, name="lim")
            lim.owner = _owner(n)
            lim.list2array(n)
            lim.check_var(allow_adjust=ma, adjust_lower=al, adjust_upper=ah, is_init=ii)
            for k, c in enumerate(cs):
                got = dict(lo=_num(lo.v[k]), hi=_num(hi.v[k]), flags=dict(zu=int(lim.zu[k]), zl=int(lim.zl[k]), zi=int(lim.zi[k])))
                if got != c["exp"]:
                    bad.append(dict(cls="%s.adjust" % cls.__name__, case={q: c[q] for q in c if q != "exp"}, expected=c["exp"], got=got))
    groups = {}
    for c in aw_cases:
        groups.setdefault((c["comp_allow"], c["model_allow"], c["adj_lo"], c["adj_hi"], c["is_init"]), []).append(c)
    for (ca, ma, al, ah, ii), cs in groups.items():
        n = len(cs)
        x, lo, hi = State(), NumParam(), NumParam()
        x.name, lo.name, hi.name = "x", "lower", "upper"
        x.v = np.array([float(c["x"]) for c in cs])
        x.e = np.array([float(c["e"]) for c in cs])
        x.a = np.arange(n)
        lo.v = np.array([float(c["lo"]) for c in cs])
        hi.v = np.array([float(c["hi"]) for c in cs])
        aw = AntiWindup(x, lo, hi, allow_adjust=ca, name="aw")
        aw.owner = _owner(n)
        aw.list2array(n)
        aw.check_var(allow_adjust=ma, adjust_lower=al, adjust_upper=ah, is_init=ii)
        aw.check_eq(allow_adjust=ma, adjust_lower=al, adjust_upper=ah, is_init=ii)
        for k, c in enumerate(cs):
            got = dict(lo=_num(lo.v[k]), hi=_num(hi.v[k]),
                       aw=dict(zu=int(aw.zu[k]), zl=int(aw.zl[k]), zi=int(aw.zi[k]), x=_num(x.v[k]), e=_num(x.e[k])))
            if got != c["exp"]:
                bad.append(dict(cls="AntiWindup.adjust", case={q: c[q] for q in c if q != "exp"}, expected=c["exp"], got=got))
    return bad


def check_aw_lock(cases):
    """AntiWindup flags inside one Newton loop: free up to niter_lock iterations, sticky afterwards."""
    NumParam, Algeb, State = _mk()
    from andes.core.discrete import AntiWindup
    bad = []
    groups = {}
    for c in cases:
        groups.setdefault(c["niter"], []).append(c)
    for niter, cs in groups.items():
        n = len(cs)
        x, lo, hi = State(), NumParam(), NumParam()
        x.v = np.array([float(c["x1"]) for c in cs])
        x.e = np.array([float(c["e1"]) for c in cs])
        x.a = np.arange(n)
        lo.v = np.array([float(c["lo"]) for c in cs])
        hi.v = np.array([float(c["hi"]) for c in cs])
        aw = AntiWindup(x, lo, hi)
        aw.list2array(n)
        aw.check_eq(niter=0)
        first = [dict(zu=int(aw.zu[k]), zl=int(aw.zl[k]), zi=int(aw.zi[k]), x=_num(x.v[k]), e=_num(x.e[k])) for k in range(n)]
        x.v[:] = [float(c["x2"]) for c in cs]
        x.e[:] = [float(c["e2"]) for c in cs]
        aw.check_eq(niter=niter)
        for k, c in enumerate(cs):
            got = dict(first=first[k], second=dict(zu=int(aw.zu[k]), zl=int(aw.zl[k]), zi=int(aw.zi[k]), x=_num(x.v[k]), e=_num(x.e[k])))
            if got != c["exp"]:
                bad.append(dict(cls="AntiWindup.niter_lock", case={q: c[q] for q in c if q != "exp"}, expected=c["exp"], got=got))
        # the list of pegged states handed to the integrator after the second evaluation names exactly the states pegged now
        pegged = set()
        for addr, _, _ in aw.x_set:
            pegged.update(int(a) for a in np.ravel(addr))
        want = {k for k in range(n) if int(aw.zi[k]) == 0}
        if pegged != want:
            bad.append(dict(cls="AntiWindup.x_set", case=dict(niter=niter, after="second evaluation of one device set"),
                            expected=sorted(want)[:10], got=sorted(pegged)[:10]))
        # all devices pegged at one limit, then all released (state back inside, derivative zero): nothing is held any more
        for side, xv, ev_ in (("upper", 3.0, 1.0), ("lower", -2.0, -1.0)):
            x.v[:] = xv
            x.e[:] = ev_
            aw.check_eq(niter=0)
            x.v[:] = 0.0
            x.e[:] = 0.0
            aw.check_eq(niter=0)
            left = set()
            for addr, _, _ in aw.x_set:
                left.update(int(a) for a in np.ravel(addr))
            if left or not np.all(aw.zi == 1):
                bad.append(dict(cls="AntiWindup.x_set", case=dict(niter=niter, after="all devices pegged at the %s limit, then released" % side),
                                expected=[], got=sorted(left)[:10]))
    return bad


def check_sorted(cases):
    """SortedLimiter (PV -> PQ conversion): three devices per case, sticky flags over two evaluations; the closed gate is
    presented as (niter = 0 < min_iter, err = 1 > err_tol), the open one alternately as a late iteration, a small error, or no
    iteration information at all."""
    NumParam, Algeb, State = _mk()
    from andes.core.discrete import SortedLimiter
    bad = []
    opens = (dict(niter=2, err=1.0), dict(niter=0, err=0.001), dict(niter=None, err=None), dict(niter=5, err=1e-9))
    for j, c in enumerate(cases):
        u, lo, hi = Algeb(), NumParam(), NumParam()
        u.v = np.zeros(3)
        lo.v = -10.0 * np.ones(3)
        hi.v = 10.0 * np.ones(3)
        lim = SortedLimiter(u, lo, hi, n_select=c["n"], min_iter=2, err_tol=0.01, abs_violation=True)
        lim.list2array(3)
        for k, call in enumerate(c["calls"]):
            u.v[:] = call["u"]
            kw = opens[(j + k) % len(opens)] if call["open"] else dict(niter=0, err=1.0)
            lim.check_var(dae_t=-1.0, **kw)
            got = dict(zu=[int(v) for v in lim.zu], zl=[int(v) for v in lim.zl], zi=[int(v) for v in lim.zi])
            if got != c["flags"][k]:
                bad.append(dict(cls="SortedLimiter", evaluation=k, calls=c["calls"], n_select=c["n"], passed=kw, expected=c["flags"][k], got=got))
                break
    return bad


def check_timemode(cases):
    """Delay / Average with mode='time' on monotone and repeated time stamps (half seconds), against the interpolant definitions."""
    NumParam, Algeb, State = _mk()
    from andes.core.discrete import Delay, Average
    bad = []
    for c in cases:
        D = c["D"] * 0.5
        u1, u2 = Algeb(), Algeb()
        for u in (u1, u2):
            u.v = np.array([0.0, 0.0])
        dl = Delay(u1, mode="time", delay=D)
        av = Average(u2, mode="time", delay=D)
        dl.list2array(2)
        av.list2array(2)
        for k, call in enumerate(c["calls"]):
            t = call["t"] * 0.5
            for u in (u1, u2):
                u.v[:] = [float(call["u"]), float(call["u"]) + 10.0]
            dl.check_var(t)
            av.check_var(t)
            ed, ea = Fraction(*c["delay"][k]), Fraction(*c["avg"][k])
            if not (abs(dl.v[0] - float(ed)) <= 1e-12 and abs(dl.v[1] - float(ed) - 10) <= 1e-12):
                bad.append(dict(cls="Delay", mode="time", calls=c["calls"][:k + 1], delay_s=D, expected=float(ed), got=dl.v.tolist()))
                break
            if not (abs(av.v[0] - float(ea)) <= 1e-12 and abs(av.v[1] - float(ea) - 10) <= 1e-12):
                bad.append(dict(cls="Average", mode="time", calls=c["calls"][:k + 1], delay_s=D, expected=float(ea), got=av.v.tolist()))
                break
    return bad


def check_shuntsw(data):
    """ShuntAdjust + SwBlock stand-alone (two devices, levels 0..MaxSel of 0.25 pu each) on the call sequences enumerated from
    ShuntSw.tla: level and time of the last switching of each device after every call."""
    NumParam, Algeb, State = _mk()
    from types import SimpleNamespace
    from andes.core.service import SwBlock
    from andes.core.discrete import ShuntAdjust
    bad = []
    maxsel, dt_ticks = int(data["MaxSel"]), int(data["Dt"])
    n = 2
    zv = {"low": 0.9, "in": 1.0, "high": 1.2}
    for c in data["cases"]:
        owner = SimpleNamespace(class_name="Probe", idx=SimpleNamespace(v=list(range(n))))

        def par(vals, name):
            p = NumParam()
            p.v = np.array(vals, dtype=float)
            p.name = name
            p.owner = owner
            return p
        b0 = par([0.25 * s for s in c["init"]["sel"]], "b")
        g0 = par([0.0] * n, "g")
        ns = SimpleNamespace(v=[[maxsel]] * n, name="ns", owner=owner)
        bs = SimpleNamespace(v=[[0.25]] * n, name="bs", owner=owner)
        gs = SimpleNamespace(v=[[0.0]] * n, name="gs", owner=owner)
        beff = SwBlock(init=b0, ns=ns, blocks=bs)
        geff = SwBlock(init=g0, ns=ns, blocks=gs, ext_sel=beff)
        _ = beff.v, geff.v
        v = Algeb()
        v.v = np.ones(n)
        adj = ShuntAdjust(v=v, lower=par([0.95] * n, "lo"), upper=par([1.05] * n, "hi"), bsw=beff, gsw=geff, dt=par([0.5 * dt_ticks] * n, "dt"),
                          u=par([1.0 if o else 0.0 for o in c["init"]["on"]], "u"), min_iter=2, err_tol=0.01)
        adj.list2array(n)
        for k, call in enumerate(c["calls"]):
            v.v[:] = [zv[z] for z in call["zone"]]
            kw = dict(niter=5, err=1e-9) if call["open"] else dict(niter=0, err=1.0)
            adj.check_var(dae_t=0.5 * call["t"], **kw)
            got = dict(sel=[int(s) for s in beff.sel], tLast=[int(round(float(x) / 0.5)) for x in adj.t_last])
            beff_ok = all(abs(float(beff.v[d]) - 0.25 * got["sel"][d]) < 1e-12 for d in range(n))
            if got != c["after"][k] or not beff_ok:
                bad.append(dict(cls="ShuntAdjust", call=k, calls=c["calls"], init=c["init"], expected=c["after"][k], got=got,
                                susceptance_follows_level=beff_ok))
                break
    return bad
