"""
Crash-tolerant process pool.

A scenario that kills the interpreter (KLU can SIGSEGV) yields the *outcome*
``{"status": "crash", "signal": n}`` for that scenario; the worker is replaced and the
remaining scenarios run.  A scenario that exceeds its time budget yields ``timeout``.
Exceptions raised by the task function itself are returned as ``exc`` with the traceback.
"""
import importlib
import multiprocessing as mp
import os
import sys
import time
import traceback
from multiprocessing.connection import wait


def _resolve(spec):
    mod, name = spec.split(":")
    return getattr(importlib.import_module(mod), name)


def _worker(conn, fn_spec, quiet):
    if quiet:
        devnull = os.open(os.devnull, os.O_WRONLY)
        os.dup2(devnull, 1)
        os.dup2(devnull, 2)
    try:
        fn = _resolve(fn_spec)
    except Exception:
        conn.send((-1, "exc", traceback.format_exc()))
        return
    while True:
        try:
            msg = conn.recv()
        except EOFError:
            return
        if msg is None:
            return
        i, task = msg
        try:
            res = fn(task)
            conn.send((i, "ok", res))
        except BaseException:
            conn.send((i, "exc", traceback.format_exc()))


class _W:
    def __init__(self, ctx, fn_spec, quiet):
        self.parent, child = ctx.Pipe()
        self.proc = ctx.Process(target=_worker, args=(child, fn_spec, quiet), daemon=True)
        self.proc.start()
        child.close()
        self.task = None
        self.t0 = None


def run_tasks(fn_spec, tasks, nproc=None, timeout=300, quiet=True, progress=None, retry_timeouts=True):
    """
    Run ``fn(task)`` for every task in worker processes.

    A task that exceeds its time budget is run once more after all others have finished, with few tasks side by side and
    three times the budget: on a loaded machine a slow run is not a hang, and only a repeated timeout is reported as one.
    """
    tasks = list(tasks)
    out = _run_tasks(fn_spec, tasks, nproc, timeout, quiet, progress)
    if retry_timeouts and timeout:
        again = [i for i, o in enumerate(out) if o and o.get("status") == "timeout"]
        if again:
            res = _run_tasks(fn_spec, [tasks[i] for i in again], min(3, len(again)), timeout * 3, quiet, None)
            for i, r in zip(again, res):
                out[i] = r if r.get("status") != "timeout" else dict(r, repeated=True)
    return out


def _run_tasks(fn_spec, tasks, nproc=None, timeout=300, quiet=True, progress=None):
    """
    One pass over the tasks.

    Returns a list (same order as tasks) of dicts
    ``{"status": "ok", "result": ...}``, ``{"status": "exc", "error": tb}``,
    ``{"status": "crash", "signal": n}`` or ``{"status": "timeout"}``.
    """
    tasks = list(tasks)
    n = len(tasks)
    out = [None] * n
    if n == 0:
        return out
    nproc = max(1, min(nproc or (os.cpu_count() or 4), n))
    ctx = mp.get_context("fork")
    workers = [_W(ctx, fn_spec, quiet) for _ in range(nproc)]
    nxt = 0
    done = 0

    def feed(w):
        nonlocal nxt
        if nxt < n:
            w.task = nxt
            w.t0 = time.time()
            w.parent.send((nxt, tasks[nxt]))
            nxt += 1
        else:
            w.task = None
            try:
                w.parent.send(None)
            except Exception:
                pass

    for w in workers:
        feed(w)

    while done < n:
        live = [w for w in workers if w.task is not None]
        if not live:
            # tasks remain but no worker is busy: respawn one
            w = _W(ctx, fn_spec, quiet)
            workers.append(w)
            feed(w)
            continue
        ready = wait([w.parent for w in live] + [w.proc.sentinel for w in live], timeout=1.0)
        now = time.time()
        for w in live:
            if w.task is None:
                continue
            got = False
            if w.parent in ready:
                try:
                    i, st, res = w.parent.recv()
                    got = True
                except (EOFError, OSError):
                    got = False
                if got:
                    if i == -1:
                        raise RuntimeError("worker could not import task function:\n" + str(res))
                    out[i] = {"status": st, "result": res} if st == "ok" else {"status": st, "error": res}
                    done += 1
                    if progress:
                        progress(done, n)
                    feed(w)
                    continue
            if (w.proc.sentinel in ready or not w.proc.is_alive()) and not got:
                w.proc.join(timeout=5)
                code = w.proc.exitcode
                out[w.task] = {"status": "crash", "signal": -code if code is not None and code < 0 else code}
                done += 1
                if progress:
                    progress(done, n)
                idx = workers.index(w)
                workers[idx] = _W(ctx, fn_spec, quiet)
                feed(workers[idx])
                continue
            if timeout and now - w.t0 > timeout:
                w.proc.kill()
                w.proc.join(timeout=5)
                out[w.task] = {"status": "timeout"}
                done += 1
                if progress:
                    progress(done, n)
                idx = workers.index(w)
                workers[idx] = _W(ctx, fn_spec, quiet)
                feed(workers[idx])
    for w in workers:
        try:
            w.parent.send(None)
        except Exception:
            pass
    for w in workers:
        w.proc.join(timeout=2)
        if w.proc.is_alive():
            w.proc.kill()
    return out
