"""
Infeasible / ill-posed inputs (C17): each must be *reported* - false success flag, non-zero exit
code, no exception escaping the public entry point, no process death.
Records use the Trace_Lifecycle format with op = "infeasible".
"""
import json
import os
import shutil

import numpy as np

from .common import load_case, case_path, scratch_dir, sys_kwargs, andes_mod, NCPU
from .pool import run_tasks
from . import tracecheck

KINDS = ["missing_file", "corrupt_json", "corrupt_xlsx", "overload", "zero_impedance", "island_no_slack",
         "dangling_reference", "no_pflow_element", "tds_after_failed_pflow", "eig_after_failed_pflow",
         "garbage_raw", "multi_one_overloaded", "multi_one_corrupt", "multi_bad_in_first_batch", "dyn_data_nan_init", "dyn_data_zero_rating_init"]
# "all branches out of service" is not an infeasible input under the library's semantics: every bus but the slack bus is
# reported as islanded and excluded, the power flow of what remains passes its residual test (it used to be "reported" only
# because System.connectivity() raised IndexError, repaired by 8c24139)


def _rec(kind, ret, raised, exit_after, nan=False):
    return dict(op="infeasible", kind=kind, ret=bool(ret), raised=raised is not None, raised_text=raised,
                exit_before=0, exit_after=int(exit_after), state_unchanged=True, residual_ok=True, nan=bool(nan),
                pf_after="none", tds_init=False, tcls="neg", busted=False, pf_equal_first=True, nominal=True, reset_outcome_ok=True)


def run_one(sc):
    andes = andes_mod()
    kind = sc["kind"]
    d = scratch_dir("inf")
    raised = None
    ret = None
    exit_code = 0
    nan = False
    kw = sys_kwargs()
    try:
        if kind in ("multi_one_overloaded", "multi_one_corrupt", "multi_bad_in_first_batch"):
            # several cases in one invocation (what `andes run a.json b.json` does): one good case and one that fails
            import json as _json
            src = _json.load(open(case_path("5bus/pjm5bus.json")))
            _json.dump(src, open(os.path.join(d, "a_good.json"), "w"))
            files = ["a_good.json", "b_bad.json"]
            if kind == "multi_bad_in_first_batch":
                # more cases than processes: the failing case runs in the first batch, the last batch is clean
                os.remove(os.path.join(d, "a_good.json"))
                bad = _json.loads(_json.dumps(src))
                for dev in bad["PQ"]:
                    dev["p0"] *= 80.0
                _json.dump(bad, open(os.path.join(d, "a_bad.json"), "w"))
                for nm in ("b_good.json", "c_good.json"):
                    _json.dump(src, open(os.path.join(d, nm), "w"))
                files = ["a_bad.json", "b_good.json", "c_good.json"]
            elif kind == "multi_one_overloaded":
                bad = _json.loads(_json.dumps(src))
                for dev in bad["PQ"]:
                    dev["p0"] *= 80.0
                _json.dump(bad, open(os.path.join(d, "b_bad.json"), "w"))
            else:
                open(os.path.join(d, "b_bad.json"), "w").write(_json.dumps(src)[:2000])
            kw2 = {k: v for k, v in kw.items() if k != "autogen_stale"}
            try:
                ec = andes.run(files, input_path=d, cli=True, routine="pflow", verbose=50, ncpu=2, **kw2)
                exit_code = int(ec)
                ret = (exit_code == 0)
            except SystemExit as ex:
                exit_code = int(ex.code or 0)
                ret = exit_code == 0
            except Exception as ex:
                raised = "%s: %s" % (type(ex).__name__, str(ex)[:200])
        elif kind in ("missing_file", "corrupt_json", "corrupt_xlsx", "garbage_raw"):
            if kind == "missing_file":
                path = os.path.join(d, "does_not_exist.json")
            elif kind == "corrupt_json":
                path = os.path.join(d, "bad.json")
                src = open(case_path("kundur/kundur_full.json")).read()
                open(path, "w").write(src[:len(src) // 2])
            elif kind == "corrupt_xlsx":
                path = os.path.join(d, "bad.xlsx")
                src = open(case_path("kundur/kundur_full.xlsx"), "rb").read()
                open(path, "wb").write(src[:len(src) // 3])
            else:
                path = os.path.join(d, "bad.raw")
                open(path, "w").write("0, 100.0\nthis is not a raw file\n@@@@\n")
            try:
                ec = andes.run(path, cli=True, routine="pflow", verbose=50, **kw)
                exit_code = int(ec)
                ret = (exit_code == 0)
            except SystemExit as ex:
                exit_code = int(ex.code or 0)
                ret = exit_code == 0
            except Exception as ex:
                raised = "%s: %s" % (type(ex).__name__, str(ex)[:200])
        else:
            ss = load_case("kundur/kundur_full.json", setup=False)
            if kind == "overload":
                for i in range(ss.PQ.n):
                    ss.PQ.p0.v[i] *= 80.0
            elif kind == "zero_impedance":
                ss.Line.x.v[0] = 0.0
                ss.Line.r.v[0] = 0.0
            elif kind == "island_no_slack":
                # open every line of one generator bus that does not hold the slack
                # isolate the slack bus: the rest of the network is an island without slack
                gb = ss.Slack.bus.v[0]
                for i in range(ss.Line.n):
                    if ss.Line.bus1.v[i] == gb or ss.Line.bus2.v[i] == gb:
                        ss.Line.u.v[i] = 0
            elif kind == "singular_all_lines_out":
                for i in range(ss.Line.n):
                    ss.Line.u.v[i] = 0
            elif kind == "dyn_data_nan_init":
                ss.GENROU.S10.v[0] = -0.5          # saturation data that make the initial values NaN
            elif kind == "dyn_data_zero_rating_init":
                ss.GENROU.Sn.v[1] = 0.0            # a machine rated 0 MVA: division by zero in the per-unit conversion
            elif kind == "dangling_reference":
                ss.add("GENCLS", dict(bus=1, gen="no_such_generator", M=6.0, D=1.0, xd1=0.3))
            elif kind == "no_pflow_element":
                ss = andes.System(**kw)
            ok = ss.setup()
            if kind == "dangling_reference":
                # the documented outcome is a failed set-up; a later converged power flow must not hide it
                pf = ss.PFlow.run() if True else None
                ret = bool(ok) and bool(pf)
                exit_code = ss.exit_code
            elif kind in ("dyn_data_nan_init", "dyn_data_zero_rating_init"):
                # the verdict of the initialisation alone (TDS.init called directly, as `andes run --init` does)
                ss.PFlow.run()
                ss.TDS.init()
                ret = bool(ss.TDS.test_ok is True)
                exit_code = ss.exit_code
                nan = bool(ret) and bool(np.isnan(ss.dae.x).any() or np.isnan(ss.dae.y).any())
            elif kind in ("tds_after_failed_pflow", "eig_after_failed_pflow"):
                for i in range(ss.PQ.n):
                    ss.PQ.p0.v[i] *= 80.0
                ss.PFlow.run()
                ec0 = ss.exit_code
                ret = ss.TDS.run(no_summary=True) if kind.startswith("tds") else ss.EIG.run()
                exit_code = ss.exit_code
            else:
                ret = ss.PFlow.run()
                exit_code = ss.exit_code
                nan = bool(ret) and bool(np.isnan(ss.dae.y).any())
    except Exception as ex:
        raised = "%s: %s" % (type(ex).__name__, str(ex)[:200])
    finally:
        shutil.rmtree(d, ignore_errors=True)
    return dict(meta=dict(tid=sc["tid"], sid=sc["sid"]), ev=[_rec(kind, ret, raised, exit_code, nan)])


def run_family(rep, pid, quick):
    scs = [dict(sid="infeasible[%s]" % k, kind=k, tid=i + 1) for i, k in enumerate(KINDS)]
    res = run_tasks("vh.infeasible:run_one", scs, nproc=min(NCPU, len(scs)), timeout=300)
    traces = [r["result"] for r in res if r["status"] == "ok"]
    verdicts, tl = tracecheck.validate(traces, "Trace_Lifecycle", jobs=1)
    for t in tl:
        rep.add_tlc(t, "Trace_Lifecycle (infeasible inputs)")
    for sc, r in zip(scs, res):
        rep.count()
        rep.nontriv(sc["sid"])
        if r["status"] in ("crash", "timeout"):
            rep.violation("ProcessDies:%s" % sc["sid"],
                          "interpreter %s (signal %s) on infeasible input %s: no flag, no exit code" % (
                              r["status"], r.get("signal"), sc["kind"]), replay=dict(scenario=sc, outcome=r))
            continue
        if r["status"] == "exc":
            rep.machinery("driver exception in %s" % sc["sid"], r.get("error", "")[-1500:])
            continue
        v = verdicts.get(sc["tid"])
        if v is None:
            rep.machinery("trace %s not consumed" % sc["sid"])
            continue
        rep.traces += 1
        for cl in v["viol"]:
            rep.violation("%s" % cl, "clause %s: infeasible input %s -> %s" % (cl, sc["kind"], r["result"]["ev"][0]),
                          replay=dict(scenario=sc, record=r["result"]["ev"][0]))
    rep.extra["infeasible_inputs"] = KINDS
