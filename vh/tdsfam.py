"""
Scenario families for the TDS loop and the shared run -> encode -> validate pipeline
used by the C04 / C06 / C14 / C15 / C17 checks.
"""
import json
import os
import random
import shutil

from .common import scratch_dir, NCPU, seed
from .pool import run_tasks
from .tlc import run_tlc
from . import tdsdrv, tracecheck

UNIT = 1e-5     # one model time unit in seconds (Eps = 10 units = 1e-4 s)

# clause -> properties it is a literal reading of
CLAUSES = {
    "FiresAtExactEventTime": ("C06",),
    "NeverTwice": ("C06", "C14"),
    "OnlyAddressedDevice": ("C06",),
    "EffectOnAddressedDevice": ("C06",),
    "DisabledNeverFires": ("C06",),
    "AlterEffectExact": ("C06",),
    "ExactlyOnce": ("C06", "C14"),
    "ExactlyOnce@t0": ("C06", "C14"),
    "EffectPersists": ("C06", "C14"),
    "EffectPersists@t0": ("C06", "C14"),
    "NoStepCrossesEvent": ("C06",),
    "StoredTimesIncrease": ("C06", "C14", "C15"),
    "TimeAxisStrictlyIncreasing": ("C06", "C14", "C15"),
    "AcceptedTimesIncrease": ("C06", "C04"),
    "SuccessIffAtTf": ("C06", "C17"),
    "UnstableRunReportedAsSuccess": ("C17",),
    "StepNonNegative": ("C04", "C06"),
    "StepWithinFixedStep": ("C04",),
    "FixedStepIsConfiguredStep": ("C04", "C06", "C20"),
    "StepNotPastTf": ("C04",),
    "RejectedStepRestoresState": ("C04", "C17"),
    "RejectedStepGivesTimeBack": ("C04", "C06", "C17"),      # C17: no partially updated state is presented as a solution
    "AcceptedStepWithinTol": ("C04",),
    "AcceptedStepSatisfiesImplicitRule": ("C04", "C09"),
    "StepUsesCurrentTimeConstants": ("C04",),
    "ResumedEqualsUninterrupted": ("C14",),
    "ResumedFiresSameEvents": ("C14",),
    "ResumedSameFinalStatus": ("C14",),
    "ResumedAxisHasEventTimes": ("C14",),
    "ResumedSameSuccess": ("C14",),
    "LimitedStateWithinLimits": ("C09",),
    "PeggedStateHasZeroDerivative": ("C09",),
    "LimiterFlagsOneHot": ("C09",),
    "RowPerKeptStep": ("C15",),
    "MemoryRowsAreSolverValues": ("C15",),
    "OutputFilesWritten": ("C15",),
    "FileRowsAreSolverValues": ("C15",),
    "LabelsNameColumns": ("C15",),
    "PlotLoaderReadsFile": ("C15",),
    "CsvExportExact": ("C15",),
    "QueriesReturnRightColumns": ("C15",),
    "InMemoryPlotterShowsTheRun": ("C15",),
    "FileHasOneRowPerKeptStep": ("C15",),
    "ReplayFromCsvReproduces": ("C15",),
    "OneRowPerStep": ("C15",),
    "StoredRowIsAcceptedStep": ("C15",),
    "FailureBumpsExitCode": ("C17",),
    "RunNeverRaises": ("C17",),
    "NoNaNPresented": ("C17",),
    "NoNaNAccepted": ("C17", "C04"),
}

TARGETS = {
    "kundur/kundur_full.json": dict(model="Line", devs=["Line_8", "Line_3"], fault_bus=7),
    "ieee14/ieee14_fault.json": dict(model="Line", devs=["Line_1", "Line_3"], fault_bus=9),
    "smib/SMIB.json": dict(model="Line", devs=["Line_1", "Line_2"], fault_bus=2),
}


def tlc_scenarios(report=None):
    """Enumerate the scenario space of MC_TDSLoop with TLC (Scen_TDSLoop)."""
    d = scratch_dir("scen")
    try:
        out = os.path.join(d, "scen.json")
        r = run_tlc("Scen_TDSLoop", "Scen_TDSLoop.cfg", workers=1, timeout=600, env={"OUT": out})
        if report is not None:
            report.add_tlc(r, "Scen_TDSLoop (scenario enumeration)")
        if not os.path.exists(out):
            raise RuntimeError("scenario enumeration failed: %s" % (r.get("fatal") or r["out"][-500:]))
        data = json.load(open(out))
    finally:
        shutil.rmtree(d, ignore_errors=True)
    scen = data["scen"]
    scen.sort(key=lambda s: json.dumps(s, sort_keys=True))
    return scen


def sid_of(ms):
    tm = ",".join("%s%d" % ("+" if t["en"] else "-", t["tau"]) for t in ms["timers"])
    return "mc[%s|seg=%s|fixt=%d|shr=%d|fail=%s]" % (
        tm, "/".join(str(x) for x in ms["segs"]), int(ms["fixt"]), int(ms["shrinkt"]),
        ".".join(str(x) for x in ms["fail"]) or "-")


def to_real(ms, case="kundur/kundur_full.json", extra_tds=None, snapshot=False):
    """Map a model scenario to a run of the real code: 1 unit = 1e-5 s."""
    tg = TARGETS[case]
    events = []
    for k, tm in enumerate(ms["timers"]):
        dev = tg["devs"][0]     # MC_DevOf maps both timers to device "A"
        events.append(dict(add="Toggle", model=tg["model"], dev=dev, t=tm["tau"] * UNIT, u=1 if tm["en"] else 0))
    tds = dict(tstep=20 * UNIT, fixt=1 if ms["fixt"] else 0, shrinkt=1 if ms["shrinkt"] else 0, no_tqdm=1)
    if extra_tds:
        tds.update(extra_tds)
    return dict(sid=sid_of(ms) + ("@" + case.split("/")[0] if case != "kundur/kundur_full.json" else "") +
                ("+snap" if snapshot else ""),
                case=case, events=events, segs=[x * UNIT for x in ms["segs"]], tds=tds,
                fail=sorted(ms["fail"]), snapshot=snapshot, family="mc")


def event_scenarios(report=None):
    """Fault / Alter scenario spaces enumerated by TLC (Scen_Events)."""
    d = scratch_dir("scen")
    try:
        out = os.path.join(d, "ev.json")
        r = run_tlc("Scen_Events", "Scen_Events.cfg", workers=1, timeout=600, env={"OUT": out})
        if report is not None:
            report.add_tlc(r, "Scen_Events (scenario enumeration)")
        data = json.load(open(out))
    finally:
        shutil.rmtree(d, ignore_errors=True)
    for k in data:
        data[k].sort(key=lambda s: json.dumps(s, sort_keys=True))
    return data


def fault_to_real(fs, case="kundur/kundur_full.json"):
    tg = TARGETS[case]
    b1, b2 = tg["fault_bus"], tg.get("fault_bus2", tg["fault_bus"] + 1)
    events = [dict(add="Fault", bus=b1, tf=fs["f1"][0] * UNIT, tc=fs["f1"][1] * UNIT, xf=0.05),
              dict(add="Fault", bus=b2, tf=fs["f2"][0] * UNIT, tc=fs["f2"][1] * UNIT, xf=0.05,
                   u=1 if fs["en2"] else 0)]
    sid = "fault[%d-%d|%s%d-%d|refresh=%d|seg=%s]" % (
        fs["f1"][0], fs["f1"][1], "+" if fs["en2"] else "-", fs["f2"][0], fs["f2"][1], int(fs["refresh"]),
        "/".join(str(x) for x in fs["segs"]))
    return dict(sid=sid, case=case, events=events, segs=[x * UNIT for x in fs["segs"]], family="fault",
                tds=dict(tstep=20 * UNIT, fixt=1, no_tqdm=1, refresh_event=1 if fs["refresh"] else 0))


def alter_to_real(a, case="kundur/kundur_full.json"):
    tg = TARGETS[case]
    events = [dict(add="Alter", model="PQ", dev="PQ_0", src="Ppf", attr="v", method=a["method"], amount=1.25,
                   t=a["alter"] * UNIT, u=1 if a["en"] else 0),
              dict(add="Toggle", model=tg["model"], dev=tg["devs"][0], t=a["toggle"] * UNIT)]
    sid = "alter[%s%d%s|tog=%d|refresh=%d|seg=%s]" % ("+" if a["en"] else "-", a["alter"], a["method"], a["toggle"],
                                                     int(a["refresh"]), "/".join(str(x) for x in a["segs"]))
    return dict(sid=sid, case=case, events=events, segs=[x * UNIT for x in a["segs"]], family="alter",
                tds=dict(tstep=20 * UNIT, fixt=1, no_tqdm=1, refresh_event=1 if a["refresh"] else 0))


def float_schedules(n, rnd, case="kundur/kundur_full.json", tf_max=3.0):
    """Seeded random schedules with 'ugly' decimal times - the family that exposes rounding defects."""
    tg = TARGETS[case]
    out = []
    steps = [1 / 30, 1 / 60, 0.01, 0.02, 0.1, 0.05, 1 / 120]
    for k in range(n):
        tstep = rnd.choice(steps)
        tf = round(rnd.uniform(0.3, tf_max), rnd.choice([1, 2, 3]))
        ne = rnd.choice([1, 2, 2, 3, 4])
        evs = []
        times = []
        for j in range(ne):
            dec = rnd.choice([1, 2, 3, 4, 5, 6])
            t = round(rnd.uniform(0.0, tf * 1.1), dec)
            if rnd.random() < 0.15 and times:
                t = rnd.choice(times)                       # coincident
            if rnd.random() < 0.1 and times:
                t = round(rnd.choice(times) + rnd.choice([1e-4, -1e-4, 2e-4]), 6)   # inside the eps window
            if rnd.random() < 0.05:
                t = tf
            times.append(t)
            evs.append(dict(add="Toggle", model=tg["model"], dev=rnd.choice(tg["devs"][:1]), t=t,
                            u=0 if rnd.random() < 0.1 else 1))
        fixt = 0 if rnd.random() < 0.25 else 1
        segs = [tf]
        if rnd.random() < 0.3:
            cut = round(rnd.uniform(0.05, tf * 0.95), rnd.choice([1, 2, 4]))
            if rnd.random() < 0.4 and times:
                cut = min(max(rnd.choice(times), 0.01), tf)  # split exactly at an event
            if 0 < cut < tf:
                segs = [cut, tf]
        sid = "float[ts=%.6g|fixt=%d|ev=%s|seg=%s]" % (
            tstep, fixt, ",".join(("%s%.6g" % ("" if e["u"] else "-", e["t"])) for e in evs),
            "/".join("%.6g" % s for s in segs))
        out.append(dict(sid=sid, case=case, events=evs, segs=segs, family="float",
                        tds=dict(tstep=tstep, fixt=fixt, no_tqdm=1)))
    return out


def time_constant_scenarios(case="kundur/kundur_full.json"):
    """A time constant (inertia of a machine) altered by a timed event, and between two segments, followed by a disturbance:
    the steps after the change must be taken with the new value."""
    tg = TARGETS[case]
    out = []
    for k, (t_alter, t_tog, segs) in enumerate([(0.2, 0.4, [0.8]), (0.25, 0.3, [0.3, 0.7])]):
        evs = [dict(add="Alter", model="GENROU", dev=1, src="M", attr="v", method="*", amount=2.0, t=t_alter),
               dict(add="Toggle", model=tg["model"], dev=tg["devs"][0], t=t_tog)]
        out.append(dict(sid="tconst[alter M x2 at %.6g|toggle %.6g|seg=%s]" % (t_alter, t_tog, "/".join("%.6g" % x for x in segs)),
                        case=case, events=evs, segs=segs, family="float", tds=dict(tstep=1 / 30, fixt=1, no_tqdm=1)))
    return out


def tiny_step_scenarios():
    """A fixed step smaller than the minimum step the routine estimates for its own heuristics (accepted with a warning), and
    a bus fault so that a step needs many Newton iterations: the step handed to the integrator never exceeds the fixed step."""
    evs = [dict(add="Fault", bus=3, tf=0.001, tc=0.002, xf=0.0001, rf=0.0)]
    return [dict(sid="tinystep[tstep=2e-05|fault 1-2 ms|tf=0.045]", case="smib/SMIB.json", events=evs, segs=[0.045], family="float",
                 tds=dict(tstep=2e-5, fixt=1, shrinkt=1, no_tqdm=1))]


def init_then_run_scenarios(case="kundur/kundur_full.json"):
    """TDS.init() called explicitly before TDS.run(), with events at the start time, inside and at the end."""
    tg = TARGETS[case]
    out = []
    for tstep, times, segs in [(1 / 30, [0.0], [0.2]), (0.1, [0.0, 0.15], [0.3]), (1 / 30, [0.1], [0.1, 0.3]), (0.05, [], [0.2])]:
        evs = [dict(add="Toggle", model=tg["model"], dev=tg["devs"][0], t=t) for t in times]
        out.append(dict(sid="init-then-run[ts=%.4g|ev=%s|seg=%s]" % (tstep, ",".join("%.6g" % t for t in times), "/".join("%.6g" % x for x in segs)),
                        case=case, events=evs, segs=segs, family="float", explicit_init=True, tds=dict(tstep=tstep, fixt=1, no_tqdm=1)))
    return out


def late_schedules(case="kundur/kundur_full.json"):
    """Events beyond 10 s (where a relative tolerance of 1e-5 is wider than the 0.1 ms bracket around an event time), also
    two events 0.2 ms apart and a split exactly at an event."""
    tg = TARGETS[case]
    out = []
    for tstep, times, segs in [(0.1, [10.5], [11.0]), (0.1, [10.5, 10.5002], [10.9]), (1 / 30, [10.05, 10.4], [10.2, 10.7]),
                               (0.1, [10.3, 10.6], [10.6, 10.9]), (0.05, [12.0], [12.0])]:
        evs = [dict(add="Toggle", model=tg["model"], dev=tg["devs"][0], t=t) for t in times]
        sid = "late[ts=%.6g|ev=%s|seg=%s]" % (tstep, ",".join("%.6g" % t for t in times), "/".join("%.6g" % x for x in segs))
        out.append(dict(sid=sid, case=case, events=evs, segs=segs, family="float", tds=dict(tstep=tstep, fixt=1, no_tqdm=1)))
    return out


def known_float_regressions(case="kundur/kundur_full.json"):
    """Fixed schedules that once exposed a defect (kept so that the defect is re-found if it returns)."""
    tg = TARGETS[case]
    out = []
    for tstep, times, tf in [(0.1, [0.05142, 0.12502], 0.5), (0.1, [0.05142], 0.3), (1 / 30, [0.012345], 0.2)]:
        evs = [dict(add="Toggle", model=tg["model"], dev=tg["devs"][0], t=t) for t in times]
        sid = "float[ts=%.6g|fixt=1|ev=%s|seg=%.6g]" % (tstep, ",".join("%.6g" % t for t in times), tf)
        out.append(dict(sid=sid, case=case, events=evs, segs=[tf], family="float",
                        tds=dict(tstep=tstep, fixt=1, no_tqdm=1)))
    return out


STOCK_TDS = [
    # (case, tf)  - stock cases with their own timed events
    ("kundur/kundur_full.json", 2.5),
    ("ieee14/ieee14_fault.json", 1.5),
    ("ieee14/ieee14_linetrip.xlsx", 2.0),
    ("ieee14/ieee14_alter.xlsx", 2.0),
    ("ieee14/ieee14_gentrip.xlsx", 2.0),
    ("kundur/kundur_aw.json", 2.5),
    ("ieee14/ieee14_timeseries.xlsx", 3.0),
    ("wscc9/wscc9.xlsx", 2.0),
    ("ieee39/ieee39_full.xlsx", 1.5),
    ("npcc/npcc.xlsx", 1.0),
]


def stock_scenarios(limit=None):
    out = []
    for case, tf in STOCK_TDS[:limit]:
        out.append(dict(sid="stock[%s|tf=%g]" % (case, tf), case=case, events=[], segs=[tf], family="stock",
                        drop_stock_events=False, tds=dict(no_tqdm=1)))
    return out


def _task(sc):
    res = tdsdrv.run_scenario(sc)
    return tdsdrv.encode_trace(res, sc["tid"], sc)


def run_and_validate(scenarios, report, timeout=300, label="traces", task="vh.tdsfam:_task"):
    """
    Run every scenario on the real code in worker processes, encode, validate with TLC.
    Returns list of (scenario, outcome) where outcome is
    {"status": "ok", "verdict": {...}} | {"status": "crash"/"timeout"/"exc", ...}.
    """
    for i, sc in enumerate(scenarios):
        sc["tid"] = i + 1
    results = run_tasks(task, scenarios, nproc=NCPU, timeout=timeout)
    traces = []
    for sc, r in zip(scenarios, results):
        if r["status"] == "ok":
            traces.append(r["result"])
    verdicts, tlcres = tracecheck.validate(traces, "Trace_TDSLoop")
    for tr in tlcres:
        report.add_tlc(tr, "Trace_TDSLoop (%s)" % label)
    out = []
    for sc, r in zip(scenarios, results):
        if r["status"] == "ok":
            v = verdicts.get(sc["tid"])
            if v is None:
                report.machinery("trace %s not consumed to its end by Trace_TDSLoop" % sc["sid"])
                out.append((sc, dict(status="unconsumed")))
            else:
                report.traces += 1
                out.append((sc, dict(status="ok", verdict=v, trace=r["result"])))
        else:
            out.append((sc, r))
    return out


def judge(pid, outcomes, report, crash_is_violation=True):
    """Turn verdicts into VIOLATION / KNOWN-FINDING / NOTE for property ``pid``."""
    for sc, o in outcomes:
        report.count()
        if o["status"] == "ok":
            v = o["verdict"]
            if v.get("nfired", 0) > 0 or v.get("nrej", 0) > 0 or len(sc.get("segs", [])) > 1:
                report.nontriv(sc["sid"])
            for clause in v["viol"]:
                if pid in CLAUSES.get(clause, ()):
                    report.violation("%s:%s" % (clause, sc["sid"]),
                                     "clause %s fails on recorded run of scenario %s" % (clause, sc["sid"]),
                                     replay=dict(scenario=_strip(sc), verdict=v))
            for dname in v["drift"]:
                if dname not in report.extra.setdefault("model_drift", {}):
                    report.extra["model_drift"][dname] = sc["sid"]
                    report.note("model drift (conformance layer, not an alarm): %s e.g. in %s" % (dname, sc["sid"]))
        elif o["status"] in ("crash", "timeout"):
            if crash_is_violation and pid == "C17":
                report.violation("ProcessDies:%s" % sc["sid"],
                                 "interpreter %s while running scenario %s (no result, no exit code)" % (o["status"], sc["sid"]),
                                 replay=dict(scenario=_strip(sc), outcome=o))
            else:
                report.note("scenario %s ended with %s (judged by C17)" % (sc["sid"], o["status"]))
        elif o["status"] == "exc":
            report.machinery("driver exception in scenario %s" % sc["sid"], o.get("error", "")[-1500:])


def _strip(sc):
    return {k: v for k, v in sc.items() if k not in ("tid",)}


def rnd_for(tag):
    return random.Random("%s-%d" % (tag, seed()))
