"""
C19 driver: executes an add sequence on a real System and records registry, lookups, back-references,
helper devices and the outcome of set-up for Trace_Build.
"""
import numpy as np

from .common import new_system, andes_mod


def T(v):
    """typed string of an idx / field value"""
    if v is None or (isinstance(v, float) and np.isnan(v)):
        return "none"
    if isinstance(v, (bool, np.bool_)):
        return "b:%d" % int(v)
    if isinstance(v, (int, np.integer)):
        return "i:%d" % int(v)
    if isinstance(v, (float, np.floating)):
        return "i:%d" % int(v) if float(v).is_integer() else "f:%r" % float(v)
    return "s:%s" % v


REQ = {"none": None, "i1": 1, "i2": 2, "sPV_1": "PV_1", "sPV_2": "PV_2", "sSlack_2": "Slack_2", "s1": "1"}


def run_build(sc):
    andes_mod()
    ss = new_system()
    ev = []
    for b in (1, 2, 3):
        ss.add("Bus", dict(idx=b, Vn=110.0))
    ss.add("Line", dict(idx="L1", bus1=1, bus2=2, Vn1=110.0, Vn2=110.0, r=0.01, x=0.1))
    ss.add("Line", dict(idx="L2", bus1=2, bus2=3, Vn1=110.0, Vn2=110.0, r=0.01, x=0.1))
    ss.add("PQ", dict(idx="D1", bus=3, Vn=110.0, p0=0.2, q0=0.05))
    adds = []
    have_slack = False
    if sc.get("tid", 0) % 2 == 1 and sc["adds"]:
        # a device that must be refused (its mandatory bus is missing) in front of the additions: the refusal leaves no trace
        m0 = sc["adds"][0]["model"]
        mdl0 = ss.models[m0]
        before = (mdl0.n, list(mdl0.idx.v), dict(mdl0.uid), [len(p.v) for p in mdl0.params.values()], len(ss.StaticGen._idx2model))
        raised = False
        try:
            ss.add(m0, dict(Vn=110.0, v0=1.0, p0=0.1))
        except Exception:
            raised = True
        after = (mdl0.n, list(mdl0.idx.v), dict(mdl0.uid), [len(p.v) for p in mdl0.params.values()], len(ss.StaticGen._idx2model))
        ev.append(dict(e="refused", model=m0, raised=bool(raised), unchanged=bool(before == after)))
    for k, op in enumerate(sc["adds"]):
        req = REQ[op["req"]]
        bus = (k % 3) + 1
        d = dict(bus=bus, Vn=110.0, v0=1.0, p0=0.1)
        if req is not None:
            d["idx"] = req
        if op["model"] == "Slack":
            d.update(a0=0.0)
            have_slack = True
        try:
            idx = ss.add(op["model"], d)
        except Exception as ex:
            # adding a device never fails because of the idx: a free explicit idx is kept, anything else gets a fresh one
            ev.append(dict(e="addfail", model=op["model"], req=T(req), text="%s: %s" % (type(ex).__name__, str(ex)[:120])))
            return dict(meta=dict(tid=sc["tid"], sid=sc["sid"]), ev=ev)
        adds.append(dict(model=op["model"], req=T(req), idx=T(idx), raw=idx, bus=bus))
    if not have_slack:
        idx = ss.add("Slack", dict(idx="SLK", bus=1, Vn=110.0, v0=1.0, a0=0.0, p0=0.1))
        adds.append(dict(model="Slack", req=T("SLK"), idx=T(idx), raw=idx, bus=1))
    grp = ss.StaticGen
    reg = [dict(idx=T(i), model=m.class_name) for i, m in grp._idx2model.items()]
    i2m_ok = all(grp.idx2model(a["raw"]).class_name == a["model"] for a in adds) and \
        all(a["raw"] in ss.models[a["model"]].idx.v for a in adds)
    ev.append(dict(e="registry", adds=[dict(model=a["model"], req=a["req"], idx=a["idx"]) for a in adds], reg=reg,
                   idx2model_ok=bool(i2m_ok)))
    # referrers: GENCLS devices pointing at StaticGen idx
    refs = []
    pat = sc["refs"]
    targets = []
    if pat == "one":
        targets = [adds[0]["raw"]]
    elif pat == "two_on_first":
        targets = [adds[0]["raw"], adds[0]["raw"]]
    elif pat == "each":
        targets = [a["raw"] for a in adds]
    gam = {}
    for t in targets:
        gam[T(t)] = gam.get(T(t), 0) + 1
    for j, t in enumerate(targets):
        bus = [a["bus"] for a in adds if a["raw"] == t][0]
        g = 1.0 / gam[T(t)]
        idx = ss.add("GENCLS", dict(idx="M%d" % (j + 1), bus=bus, gen=t, Vn=110.0, Sn=100.0, M=6.0, D=1.0, xd1=0.3, gammap=g, gammaq=g))
        refs.append({"from": T(idx), "to": T(t)})
    if sc["dangling"] == 2 and targets:
        # an OPTIONAL reference (second machine of a cross-compound governor) that names a device which does not exist:
        # not given is fine, given and unknown is a dangling reference like any other
        ss.add("IEEEG1", dict(idx="GOV1", syn="M1", syn2="no_such_machine"))
    elif sc["dangling"]:
        ss.add("GENCLS", dict(idx="MX", bus=1, gen="no_such_gen", Vn=110.0, Sn=100.0, M=6.0, D=1.0, xd1=0.3))
    # helper devices through DeviceFinder (PVD1.busfreq -> BusFreq)
    owners = []
    hp = sc["helpers"]
    given_valid = False
    if hp != "none":
        gen0 = adds[0]["raw"]
        if hp == "explicit_valid":
            ss.add("BusFreq", dict(idx="BF_user", bus=2))
        specs = {"two_same_bus": [(3, None), (3, None)], "two_diff_bus": [(2, None), (3, None)],
                 "explicit_valid": [(3, "BF_user")], "explicit_invalid": [(3, "BF_missing")]}[hp]
        for j, (bus, busf) in enumerate(specs):
            d = dict(idx="V%d" % (j + 1), bus=bus, gen="D1", Sn=10.0, pqflag=0, gammap=0.1, gammaq=0.1)
            if busf is not None:
                d["busf"] = busf
            ss.add("PVD1", d)
            owners.append(dict(owner="V%d" % (j + 1), bus=T(bus), given=T(busf)))
    ok = None
    raised = None
    try:
        ok = ss.setup()
    except Exception as ex:
        raised = "%s: %s" % (type(ex).__name__, str(ex)[:150])
    ev.append(dict(e="setup", dangling=bool(sc["dangling"]), ok=bool(ok), raised=raised is not None, raised_text=raised))
    if raised is None and ok:
        # lookups by field value through the group and through each model
        table = []
        for m in ("PV", "Slack"):
            mdl = ss.models[m]
            for k in range(mdl.n):
                table.append(dict(idx=T(mdl.idx.v[k]), model=m, val=T(mdl.bus.v[k])))
        for b in (1, 2, 3, 9):
            for allow_all in (True, False):
                notfound = False
                try:
                    r = grp.find_idx("bus", [b], allow_none=True, default=None, allow_all=allow_all)
                    res = r[0] if allow_all else r
                    res = [x for x in res if x is not None]
                    notfound = len(res) == 0
                except IndexError:
                    res, notfound = [], True
                ev.append(dict(e="lookup", via_group=True, allow_all=allow_all, table=table, value=T(b),
                               result=[T(x) for x in res], notfound=bool(notfound)))
            for m in ("PV", "Slack"):
                mdl = ss.models[m]
                if mdl.n == 0:
                    continue
                try:
                    r = mdl.find_idx("bus", [b], allow_none=True, default=None, allow_all=True)[0]
                    res = [x for x in r if x is not None]
                except IndexError:
                    res = []
                ev.append(dict(e="lookup", via_group=False, allow_all=True, table=[t for t in table if t["model"] == m],
                               value=T(b), result=[T(x) for x in res], notfound=len(res) == 0))
        # lookups follow the data: a field is changed (alter / set) between two lookups on the same key, no device is added
        for m in ("PV", "Slack"):
            mdl = ss.models[m]
            if mdl.n == 0:
                continue
            for rnd_ in range(2):
                for key, val in (("u", 1.0), ("u", 0.0), ("name", "renamed"), ("name", mdl.name.v[0])):
                    tab = [dict(idx=T(mdl.idx.v[k]), model=m, val=T(mdl.__dict__[key].v[k])) for k in range(mdl.n)]
                    try:
                        r = mdl.find_idx(key, [val], allow_none=True, default=None, allow_all=True)[0]
                        res = [x for x in r if x is not None]
                    except IndexError:
                        res = []
                    ev.append(dict(e="lookup", via_group=False, allow_all=True, table=tab, value=T(val), result=[T(x) for x in res],
                                   notfound=len(res) == 0))
                if rnd_ == 0:
                    mdl.alter("u", mdl.idx.v[-1], 0)
                    mdl.set("name", mdl.idx.v[0], "v", "renamed")
        # back-references kept by the referenced devices (model level and group level)
        lists = []
        for m in ("PV", "Slack"):
            mdl = ss.models[m]
            for k in range(mdl.n):
                lists.append(dict(target=T(mdl.idx.v[k]), members=[T(x) for x in mdl.SynGen.v[k]]))
        for k, i in enumerate(grp.get_all_idxes() if hasattr(grp, "get_all_idxes") else []):
            pass
        ev.append(dict(e="backref", refs=refs, lists=lists))
        if sc.get("reset_after"):
            # set-up again (System.reset): the lists are recomputed, not appended to
            try:
                ss.reset()
                lists2 = []
                for m in ("PV", "Slack"):
                    mdl = ss.models[m]
                    for k in range(mdl.n):
                        lists2.append(dict(target=T(mdl.idx.v[k]), members=[T(x) for x in mdl.SynGen.v[k]]))
                ev.append(dict(e="backref", refs=refs, lists=lists2))
            except Exception as ex:
                ev.append(dict(e="setup", dangling=False, ok=False, raised=True, raised_text="reset: %s" % ex))
        if owners:
            helpers = [dict(idx=T(ss.BusFreq.idx.v[k]), bus=T(ss.BusFreq.bus.v[k]),
                            auto=(ss.BusFreq.idx.v[k] != "BF_user")) for k in range(ss.BusFreq.n)]
            for j, o in enumerate(owners):
                o["helper"] = T(ss.PVD1.busfreq.v[j])
                o["given_valid"] = (o["given"] == T("BF_user"))
            ev.append(dict(e="helpers", owners=owners, helpers=helpers))
    return dict(meta=dict(tid=sc["tid"], sid=sc["sid"]), ev=ev)
