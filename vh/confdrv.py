"""
C20 driver: supplies configuration values through rc file / SECTION.FIELD=VALUE options / dictionary to real
Systems and reads back the values and types in effect.
"""
import configparser
import json
import os
import shutil
from collections.abc import Iterable

import numpy as np

from .common import andes_mod, pycode_path, scratch_dir


def T(v):
    if isinstance(v, (bool, np.bool_)):
        return "b:%s" % bool(v)
    if isinstance(v, (int, np.integer)):
        return "i:%d" % int(v)
    if isinstance(v, (float, np.floating)):
        return "f:%r" % float(v)
    return "s:%s" % v


def coerce(s):
    """the documented coercion of a string supplied through a file or an option: int, else float, else string"""
    try:
        return int(s)
    except ValueError:
        try:
            return float(s)
        except ValueError:
            return s


def field_list():
    andes = andes_mod()
    ss = andes.System(default_config=True, pycode_path=pycode_path(), no_output=True, autogen_stale=False)
    out = []
    objs = [("System", ss.config)] + [(n, r.config) for n, r in ss.routines.items()] + [(n, m.config) for n, m in ss.models.items()]
    for sec, cfg in objs:
        for key, val in cfg.as_dict(refresh=True).items():
            alt = cfg._alt.get(key)
            alts = None
            if isinstance(alt, Iterable) and not isinstance(alt, str):
                alts = sorted(list(alt), key=str)
            out.append(dict(section=sec, key=key, default=val, alts=alts))
    return out


def pick_value(f, kind, salt):
    """a value different from the default, of the same type; 'out_of_alternatives' only for fields with alternatives"""
    d = f["default"]
    if f["alts"] is not None:
        others = [a for a in f["alts"] if a != d]
        if kind == "out_of_alternatives":
            return 987 if not isinstance(d, str) else "no_such_choice"
        if not others:
            return d
        return others[salt % len(others)]
    if isinstance(d, bool):
        return d
    if isinstance(d, int):
        # signed values too: a configuration value is a number whatever its sign ("-2" is an int, "+4" as well)
        return -(d + 2 + salt) if salt % 3 == 1 else d + 1 + salt
    if isinstance(d, float):
        return -(d * 1.5 + 0.125 + salt) if salt % 3 == 1 else d * 1.5 + 0.125 + salt
    if isinstance(d, str):
        return d      # free-form strings (paths, names): keep
    return d


SKIP = {("System", "seed"), ("System", "numba"), ("System", "numba_parallel"), ("System", "numba_nopython"),
        ("System", "dime_enabled"), ("System", "yapf_pycode"), ("System", "np_divide"), ("System", "np_invalid"),
        ("TDS", "qrt"), ("PFlow", "report"), ("EIG", "plot"), ("PFlow", "init_tds")}


def run_combo(sc):
    """One System per channel combination carrying many fields at once."""
    andes = andes_mod()
    fields = sc["fields"]
    d = scratch_dir("cf")
    ev = []
    try:
        kw = dict(pycode_path=pycode_path(), no_output=True, autogen_stale=False)
        filev, optv, dictv = {}, {}, {}
        if sc["file"]:
            cp = configparser.ConfigParser()
            for f in fields:
                v = pick_value(f, "valid", 0)
                cp.setdefault(f["section"], {}) if False else None
                if f["section"] not in cp:
                    cp[f["section"]] = {}
                cp[f["section"]][f["key"]] = str(v)
                filev[(f["section"], f["key"])] = coerce(str(v))
            path = os.path.join(d, "in.rc")
            with open(path, "w") as fh:
                cp.write(fh)
            kw["config_path"] = path
        else:
            kw["default_config"] = True
        if sc["option"]:
            opts = []
            for f in fields[sc.get("opt_from", 0)::sc.get("opt_step", 2)]:
                v = pick_value(f, "other_valid", 1)
                opts.append("%s.%s=%s" % (f["section"], f["key"], v))
                optv[(f["section"], f["key"])] = coerce(str(v))
            kw["config_option"] = opts
        if sc["dict"]:
            for f in fields:
                if f["section"] == "System":
                    v = pick_value(f, "other_valid", 2)
                    dictv[(f["section"], f["key"])] = v
            kw["config"] = {k[1]: v for k, v in dictv.items()}
        raised = None
        try:
            ss = andes.System(**kw)
        except Exception as ex:
            raised = "%s: %s" % (type(ex).__name__, str(ex)[:200])
        if raised:
            ev.append(dict(e="accept", kind="combo:" + sc["sid"], raised=True, raised_text=raised))
            return dict(meta=dict(tid=sc["tid"], sid=sc["sid"]), ev=ev)
        ev.append(dict(e="accept", kind="combo", raised=False))
        objs = {"System": ss.config}
        objs.update({n: r.config for n, r in ss.routines.items()})
        objs.update({n: m.config for n, m in ss.models.items()})
        ch = "%s%s%s" % ("F" if sc["file"] else "-", "O" if sc["option"] else "-", "D" if sc["dict"] else "-")
        for f in fields:
            k = (f["section"], f["key"])
            eff = getattr(objs[f["section"]], f["key"])
            used = "none"
            if f["section"] in ss.routines and f["key"] == "sparselib":
                used = T(ss.routines[f["section"]].solver.sparselib)
            ev.append(dict(e="field", section=f["section"], key=f["key"], is_system=(f["section"] == "System"), channels=ch,
                           vfile=T(filev[k]) if k in filev else "none", vopt=T(optv[k]) if k in optv else "none",
                           vdict=T(dictv[k]) if k in dictv else "none", vdef=T(f["default"]), veff=T(eff), vused=used))
        # save -> load round trip (after a run-time edit of one field: the saved file reflects the configuration in effect)
        if sc.get("roundtrip"):
            if sc.get("runtime_edit"):
                ss.TDS.config.tf = 7.25
                ss.PFlow.config.max_iter = 31
            out = os.path.join(d, "saved.rc")
            ss.save_config(out, overwrite=True)
            ss2 = andes.System(config_path=out, pycode_path=pycode_path(), no_output=True, autogen_stale=False)
            objs2 = {"System": ss2.config}
            objs2.update({n: r.config for n, r in ss2.routines.items()})
            objs2.update({n: m.config for n, m in ss2.models.items()})
            same_v, same_t = True, True
            bad = []
            for sec, cfg in objs.items():
                for key, val in cfg.as_dict(refresh=True).items():
                    v2 = getattr(objs2[sec], key, None)
                    if v2 != val:
                        same_v = False
                        bad.append("%s.%s: %r -> %r" % (sec, key, val, v2))
                    elif type(v2) is not type(val) and not (isinstance(val, (bool, np.bool_)) or isinstance(v2, (bool, np.bool_))):
                        same_t = False
                        bad.append("%s.%s type: %s -> %s" % (sec, key, type(val).__name__, type(v2).__name__))
            ev.append(dict(e="roundtrip", same_values=same_v, same_types=same_t, bad=bad[:8], runtime_edit=bool(sc.get("runtime_edit"))))
    finally:
        shutil.rmtree(d, ignore_errors=True)
    return dict(meta=dict(tid=sc["tid"], sid=sc["sid"]), ev=ev)


def run_single(sc):
    """One field, one channel, one value kind (valid / out of alternatives) or a malformed option string."""
    andes = andes_mod()
    d = scratch_dir("cf")
    ev = []
    try:
        kw = dict(pycode_path=pycode_path(), no_output=True, autogen_stale=False)
        if sc["mode"] == "malformed":
            s = {"no_equal": "TDS.tf", "two_equal": "TDS.tf=1=2", "no_dot": "TDStf=1", "two_dots": "TDS.config.tf=1"}[sc["what"]]
            raised = False
            try:
                andes.System(default_config=True, config_option=[s], **kw)
            except ValueError:
                raised = True
            except Exception:
                raised = True
            ev.append(dict(e="reject", kind="malformed:" + sc["what"], raised=raised))
            return dict(meta=dict(tid=sc["tid"], sid=sc["sid"]), ev=ev)
        if sc["mode"] == "shared_rc":
            # several Systems created from one rc path in one process: options given to one must not leak into the
            # next, and a file re-written by save_config must be re-read
            p = os.path.join(d, "shared.rc")
            open(p, "w").write("[TDS]\ntf = 12.5\n[PFlow]\nmax_iter = 27\n")
            a = andes.System(config_path=p, config_option=["TDS.tf=3.5", "PFlow.max_iter=31"], **kw)
            b = andes.System(config_path=p, **kw)
            ok1 = (a.TDS.config.tf == 3.5 and a.PFlow.config.max_iter == 31 and b.TDS.config.tf == 12.5 and b.PFlow.config.max_iter == 27)
            ev.append(dict(e="field", section="TDS", key="tf", is_system=False, channels="file-after-option-on-same-path",
                           vfile=T(12.5), vopt="none", vdict="none", vdef=T(20.0), veff=T(b.TDS.config.tf), vused="none"))
            ev.append(dict(e="field", section="PFlow", key="max_iter", is_system=False, channels="file-after-option-on-same-path",
                           vfile=T(27), vopt="none", vdict="none", vdef=T(25), veff=T(b.PFlow.config.max_iter), vused="none"))
            a.TDS.config.tf = 7.25
            a.save_config(p, overwrite=True)
            c = andes.System(config_path=p, **kw)
            ev.append(dict(e="roundtrip", same_values=bool(c.TDS.config.tf == 7.25 and c.PFlow.config.max_iter == 31),
                           same_types=bool(type(c.TDS.config.tf) is float), bad=[], runtime_edit=True))
            return dict(meta=dict(tid=sc["tid"], sid=sc["sid"]), ev=ev)
        if sc["mode"] == "rc_discovery":
            # which rc file is the one supplied when none is named: documented search order 1. current directory 2. home directory;
            # run in a fresh interpreter with a scratch HOME and a scratch working directory
            import subprocess
            import sys as _sys
            from .common import REPO, VERIF, clean_env
            home, cwd = os.path.join(d, "home"), os.path.join(d, "cwd")
            os.makedirs(os.path.join(home, ".andes"))
            os.makedirs(cwd)
            code = ("import sys, json\nsys.path.insert(0, %r)\nimport andes\nandes.config_logger(50, file=False)\n"
                    "ss = andes.System(pycode_path=%r, no_output=True, autogen_stale=False%s)\n"
                    "print('RESULT ' + json.dumps(dict(tf=ss.TDS.config.tf, max_iter=ss.PFlow.config.max_iter, freq=ss.config.freq)))\n")
            for which, files in (("cwd_only", ("cwd",)), ("home_only", ("home",)), ("both", ("cwd", "home")), ("both+option", ("cwd", "home"))):
                for f_ in (os.path.join(home, ".andes", "andes.rc"), os.path.join(cwd, "andes.rc")):
                    if os.path.exists(f_):
                        os.remove(f_)
                if "home" in files:
                    open(os.path.join(home, ".andes", "andes.rc"), "w").write("[System]\nfreq = 50\n[TDS]\ntf = 11.5\n[PFlow]\nmax_iter = 41\n")
                if "cwd" in files:
                    open(os.path.join(cwd, "andes.rc"), "w").write("[System]\nfreq = 55\n[TDS]\ntf = 13.5\n")
                opt = ", config_option=['TDS.tf=2.5']" if which.endswith("option") else ""
                env = clean_env({"HOME": home})
                pr = subprocess.run([_sys.executable, "-c", code % (REPO, pycode_path(), opt)], cwd=cwd, env=env, stdout=subprocess.PIPE,
                                    stderr=subprocess.PIPE, timeout=300)
                got = None
                for line in pr.stdout.decode(errors="replace").splitlines():
                    if line.startswith("RESULT "):
                        got = json.loads(line[7:])
                # expected from the documented order: the file in the working directory wins as a whole (the home file is not merged)
                src = "cwd" if "cwd" in files else "home"
                exp = dict(tf=(13.5 if src == "cwd" else 11.5), max_iter=(25 if src == "cwd" else 41), freq=(55 if src == "cwd" else 50))
                if which.endswith("option"):
                    exp["tf"] = 2.5
                ok = got is not None and all(float(got[k_]) == float(exp[k_]) for k_ in exp)
                ev.append(dict(e="accept", kind="rc_discovery:%s" % which, raised=not ok,
                               raised_text=None if ok else "effective %s, expected %s (%s)" % (got, exp, pr.stderr.decode(errors="replace")[-200:])))
            return dict(meta=dict(tid=sc["tid"], sid=sc["sid"]), ev=ev)
        if sc["mode"] == "multi_option":
            raised = None
            try:
                ss = andes.System(default_config=True, config_option=["TDS.tf=3.5", "TDS.tstep=0.01", "PFlow.max_iter=30"], **kw)
                ok = ss.TDS.config.tf == 3.5 and ss.TDS.config.tstep == 0.01 and ss.PFlow.config.max_iter == 30
            except Exception as ex:
                raised = "%s: %s" % (type(ex).__name__, str(ex)[:100])
                ok = False
            ev.append(dict(e="accept", kind="two_options_one_section", raised=not ok, raised_text=raised))
            p = os.path.join(d, "partial.rc")
            open(p, "w").write("[TDS]\ntf = 4.5\n")
            raised = None
            try:
                ss = andes.System(config_path=p, config_option=["PFlow.max_iter=33"], **kw)
                ok = ss.TDS.config.tf == 4.5 and ss.PFlow.config.max_iter == 33
            except Exception as ex:
                raised = "%s: %s" % (type(ex).__name__, str(ex)[:100])
                ok = False
            ev.append(dict(e="accept", kind="option_section_absent_from_file", raised=not ok, raised_text=raised))
            return dict(meta=dict(tid=sc["tid"], sid=sc["sid"]), ev=ev)
        f = sc["field"]
        v = pick_value(f, sc["kind"], 0)
        ch = sc["channel"]
        if ch == "file":
            p = os.path.join(d, "one.rc")
            open(p, "w").write("[%s]\n%s = %s\n" % (f["section"], f["key"], v))
            kw["config_path"] = p
        elif ch == "option":
            kw["default_config"] = True
            kw["config_option"] = ["%s.%s=%s" % (f["section"], f["key"], v)]
        elif ch == "update":
            kw["default_config"] = True              # the value is supplied at run time through Config.update (documented: checked)
        else:
            kw["default_config"] = True
            kw["config"] = {f["key"]: v}
        raised = None
        try:
            ss = andes.System(**kw)
            if ch == "update":
                objs0 = {"System": ss.config}
                objs0.update({n: r.config for n, r in ss.routines.items()})
                objs0.update({n: m.config for n, m in ss.models.items()})
                objs0[f["section"]].update(**{f["key"]: coerce(str(v))})
        except Exception as ex:
            raised = "%s: %s" % (type(ex).__name__, str(ex)[:160])
        if sc["kind"] == "out_of_alternatives":
            ev.append(dict(e="reject", kind="out_of_alternatives:%s" % ch, raised=raised is not None, field="%s.%s" % (f["section"], f["key"])))
        else:
            ev.append(dict(e="accept", kind="single:%s" % ch, raised=raised is not None, raised_text=raised))
            if raised is None:
                objs = {"System": ss.config}
                objs.update({n: r.config for n, r in ss.routines.items()})
                objs.update({n: m.config for n, m in ss.models.items()})
                eff = getattr(objs[f["section"]], f["key"])
                sup = T(coerce(str(v))) if ch != "dict" else T(v)
                if ch == "update":
                    ch = "option"             # judged like a value supplied on top of the defaults
                ev.append(dict(e="field", section=f["section"], key=f["key"], is_system=(f["section"] == "System"),
                               channels=ch, vfile=sup if ch == "file" else "none", vopt=sup if ch == "option" else "none",
                               vdict=sup if ch == "dict" else "none", vdef=T(f["default"]), veff=T(eff), vused="none"))
    finally:
        shutil.rmtree(d, ignore_errors=True)
    return dict(meta=dict(tid=sc["tid"], sid=sc["sid"]), ev=ev)


def run_any(sc):
    return run_combo(sc) if sc["mode"] == "combo" else run_single(sc)
