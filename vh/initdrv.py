"""
C05 driver: TDS.init on the power-flow solution of stock cases and of generated hand-over scenarios, followed by an
undisturbed run; the observations are recorded as predicates for Trace_Init.
"""
import numpy as np

from .common import load_case
from . import netbuild


def _dyn_refs(ss):
    """(StaticGen idx, dynamic model, device pos, u, gammap, gammaq) for every dynamic device that refers to a StaticGen"""
    out = []
    for name, mdl in ss.exist.tds.items():
        if mdl.n == 0 or not hasattr(mdl, "gen") or not hasattr(mdl.gen, "v") or mdl.group not in ("SynGen", "RenGen", "DG"):
            continue            # only the generator-replacing groups take over a static generator's injection
        for k in range(mdl.n):
            if mdl.gen.v[k] not in ss.StaticGen._idx2model:
                continue            # e.g. a distributed PV attached to a load
            gp = float(mdl.gammap.v[k]) if hasattr(mdl, "gammap") else 1.0
            gq = float(mdl.gammaq.v[k]) if hasattr(mdl, "gammaq") else 1.0
            out.append((mdl.gen.v[k], name, k, int(mdl.u.v[k]), gp, gq))
    return out


# set by a scenario whose author asserts the precondition "inside all limiter ranges" from the data (e.g. a turbine loaded at 0.4 of
# its rating with PMAX = 1.0): then a limiter that the library reports as active is part of what is judged, not an excuse
_ASSERT_INSIDE = [False]


def observe_init(ss, consistent=True, known_at_limit=()):
    pf = ss.PFlow
    bus_a0, bus_v0 = np.array(ss.Bus.a.v), np.array(ss.Bus.v.v)
    sg_u0 = {}
    for m in ss.StaticGen.models.values():
        for k in range(m.n):
            sg_u0[m.idx.v[k]] = int(m.u.v[k])
    ec0 = ss.exit_code
    raised = None
    try:
        ss.TDS.init()
    except Exception as ex:
        raised = "%s: %s" % (type(ex).__name__, str(ex)[:120])
    if raised:
        return dict(e="init", raised=True, raised_text=raised, bus_av_kept=True, handover_exact=True, test_ok=False, residual_small=False,
                    exit_bumped=True, consistent=consistent, bus_injection_kept=True, shares_sum_one=True)
    # the property's precondition "inside all limiter ranges": every limiter of an in-service device of the dynamic models
    # reports "inside" (the variables of an out-of-service device are not an operating point); for a variant of a case that
    # initialises as shipped, the limiters that sit at a bound in the shipped case (``known_at_limit``) do not count
    at_limit = []
    from andes.core.discrete import Limiter
    for mdl in ss.exist.tds.values():
        if mdl.n == 0:
            continue
        for dname, dsc in mdl.discrete.items():
            if mdl.class_name in ("PVD1", "ESD1", "EV1", "EV2") and dname[:2] in ("FL", "VL", "VQ"):
                continue        # region detectors of the distributed generators (frequency / voltage bands), not limits on a quantity
            if dsc.__class__.__name__.startswith("DeadBand"):
                continue        # a dead band is a region of operation, not a limit on a quantity: being outside it is consistent data
            if isinstance(dsc, Limiter) and dsc.enable:
                zi = np.atleast_1d(dsc.zi)
                if len(zi) == mdl.n:
                    at_limit += ["%s.%s[%s]" % (mdl.class_name, dname, mdl.idx.v[k]) for k in range(mdl.n) if mdl.u.v[k] == 1 and zi[k] != 1]
    inside = all(x in known_at_limit for x in at_limit) or bool(_ASSERT_INSIDE[0])
    consistent = bool(consistent and inside)
    refs = _dyn_refs(ss)
    online = {}
    sums = {}
    for g, name, k, u, gp, gq in refs:
        if u == 1:
            online.setdefault(g, []).append(name)
            sp, sq = sums.get(g, (0.0, 0.0))
            sums[g] = (sp + gp, sq + gq)
    handover = True
    for m in ss.StaticGen.models.values():
        for k in range(m.n):
            idx = m.idx.v[k]
            want = 0 if (idx in online and sg_u0[idx] == 1) else sg_u0[idx]
            handover = handover and int(m.u.v[k]) == want
    shares = all(abs(sp - 1) < 1e-6 and abs(sq - 1) < 1e-6 for sp, sq in sums.values())
    fg = np.array(ss.dae.fg)
    tol = float(ss.TDS.config.tol)
    residual_small = bool(not np.isnan(fg).any() and np.max(np.abs(fg)) < tol) if len(fg) else True
    nb = ss.Bus.n
    g = np.array(ss.dae.g)
    iso = [int(b) for b in getattr(ss.Bus, "islanded_buses", [])]
    mask = np.ones(2 * nb, dtype=bool)
    for b in iso:
        mask[b] = False
        mask[nb + b] = False
    bus_res = np.abs(g[:2 * nb][mask])
    return dict(e="init", raised=False, bus_av_kept=bool(np.array_equal(ss.Bus.a.v, bus_a0) and np.array_equal(ss.Bus.v.v, bus_v0)),
                handover_exact=bool(handover), test_ok=bool(ss.TDS.test_ok is True), residual_small=residual_small,
                exit_bumped=bool(ss.exit_code > ec0), consistent=consistent,
                bus_injection_kept=bool(not np.isnan(bus_res).any() and (len(bus_res) == 0 or bus_res.max() < tol)),
                shares_sum_one=bool(shares), maxfg=float(np.nanmax(np.abs(fg))) if len(fg) else 0.0, n_dyn_refs=len(refs),
                at_limit=at_limit[:40])


def verdict_probes(ss):
    """After a successful initialisation: put one residual at a chosen value and ask the library's own test again.
    The test reads dae.f / dae.g as they are (it does not recompute them), so this exercises exactly the verdict rule:
    success iff every residual is a number below the tolerance."""
    out = []
    dae = ss.dae
    tol = float(ss.TDS.config.tol)
    if dae.m == 0:
        return out
    keep_g = np.array(dae.g)
    keep_f = np.array(dae.f)
    ec_keep = ss.exit_code
    spots = [("g", dae.m - 1), ("g", 0)]
    checked = [i for i in range(dae.n) if i not in set(int(k) for k in np.ravel(ss.no_check_init))] if dae.n else []
    if checked:
        spots.append(("f", checked[len(checked) // 2]))
    for arr, k in spots:
        for kind, val in (("nan", float("nan")), ("inf", float("inf")), ("above", 3.0 * tol), ("neg_above", -3.0 * tol), ("below", 0.3 * tol)):
            dae.g[:] = keep_g
            dae.f[:] = keep_f
            (dae.g if arr == "g" else dae.f)[k] = val
            ec0 = ss.exit_code
            try:
                ok = bool(ss.TDS.test_init())
                raised = False
            except Exception:
                ok, raised = False, True
            out.append(dict(e="probe", arr=arr, kind=kind, verdict=ok, raised=raised, should_pass=(kind == "below"), exit_bumped=bool(ss.exit_code > ec0)))
    dae.g[:] = keep_g
    dae.f[:] = keep_f
    ss.exit_code = ec_keep
    return out


def flat_run(ss, tf=1.0):
    """undisturbed run: all timed events disabled"""
    for name in ("Toggle", "Fault", "Alter"):
        mdl = ss.models[name]
        for i in range(mdl.n):
            mdl.u.v[i] = 0
    ss.TDS.config.no_tqdm = 1
    ss.TDS.config.tf = tf
    x0 = np.array(ss.dae.x)
    y0 = np.array(ss.dae.y)
    init_ok = ss.TDS.test_ok is True
    try:
        ok = bool(ss.TDS.run(no_summary=True))
    except Exception:
        ok = False
    drift = 0.0
    worst = ""
    if ok and len(ss.dae.ts.t):
        X = np.array(ss.dae.ts.x)
        Y = np.array(ss.dae.ts.y)
        if X.size:
            dx = np.abs(X - x0[None, :]) / (1 + np.abs(x0[None, :]))
            k = int(np.argmax(dx.max(axis=0)))
            drift = float(dx.max())
            worst = ss.dae.x_name[k]
        if Y.size:
            dy = np.abs(Y - y0[None, :]) / (1 + np.abs(y0[None, :]))
            if float(dy.max()) > drift:
                drift = float(dy.max())
                worst = ss.dae.y_name[int(np.argmax(dy.max(axis=0)))]
    return dict(e="flat", init_ok=bool(init_ok), run_ok=ok, stays=bool(drift <= 1e-3), drift_ppm=int(min(drift * 1e6, 2e9)), worst=worst)


OFFLINE_GROUPS = ("Exciter", "TurbineGov", "PSS", "FreqMeasurement", "PhasorMeasurement", "VoltComp")


def stock(sc):
    kw = {}
    if sc.get("pq_weights"):
        # the share of constant power / current / impedance of the static loads after initialisation (documented PQ options)
        w = sc["pq_weights"]
        kw["config_option"] = ["PQ.pq2z=0"] + ["PQ.%s=%s" % (k, v) for k, v in sorted(w.items())]
    if sc.get("set_param"):
        # a documented option of a device chosen differently in the data (e.g. the input signal of a stabiliser)
        ss = load_case(sc["case"], setup=False, **kw)
        mname, pname, val = sc["set_param"]
        mdl = ss.models[mname]
        if mdl.n == 0:
            return dict(sid=sc["sid"], skipped="no device")
        if sc.get("set_all"):
            for k_ in range(mdl.n):
                mdl.__dict__[pname].v[k_] = val
        else:
            mdl.__dict__[pname].v[0] = val
        ss.setup()
    else:
        ss = load_case(sc["case"], **kw)
    if sc.get("offline"):
        # one controller / measurement device of the named model is out of service (status given in the data)
        mdl = ss.models[sc["offline"]]
        if mdl.n == 0:
            return dict(sid=sc["sid"], skipped="no device")
        mdl.alter("u", mdl.idx.v[0], 0)
    if not ss.PFlow.run():
        return dict(sid=sc["sid"], skipped="pflow did not converge")
    if len(ss.exist.tds) == 0 or ss.dae.n + sum(m.n for m in ss.exist.tds.values()) == 0:
        return dict(sid=sc["sid"], skipped="no dynamic model")
    # whether stock data are "consistent and inside all limiter ranges" is not known: the clause about them is vacuous here
    # a variant of a case that initialises as shipped has consistent data as well: a controller out of service leaves its
    # machine with constant input, load weights that add up to one draw the power-flow power at the power-flow voltage
    _ASSERT_INSIDE[0] = bool(sc.get("assert_inside"))
    ev = [observe_init(ss, consistent=bool(sc.get("baseline_ok", False)), known_at_limit=tuple(sc.get("baseline_at_limit", ())))]
    _ASSERT_INSIDE[0] = False
    if not ev[0]["raised"] and ev[0]["test_ok"] and sc.get("probes", True):
        ev.extend(verdict_probes(ss))
    # a case driven by recorded data (time-series / play-back sources) has no undisturbed run
    driven = [name for name in ("TimeSeries", "PLBVFU1") if name in ss.models and ss.models[name].n > 0]
    if not ev[0]["raised"] and not driven and sc.get("flat", True):
        ev.append(flat_run(ss, sc.get("tf", 1.0)))
    return dict(sid=sc["sid"], ev=ev, driven_by_data=driven)


def handover(sc):
    """two machines sharing generator G (bus 3) and one machine on the slack, shares in tenths"""
    s = sc["scen"]
    kind = s["kind"]
    spec = netbuild.simple_network(3, [(1, 2), (2, 3), (1, 3)], [1], pv_buses=[3], pq_buses=[2, 3], idx_kind="int")
    def machine(idx, bus, gen, g, u):
        d = dict(model=kind, idx=idx, bus=bus, gen=gen, Vn=110.0, Sn=100.0, M=6.0, D=1.0, xd1=0.3, gammap=g / 10.0, gammaq=g / 10.0, u=u)
        if kind == "GENROU":
            d.update(xd=1.8, xq=1.7, xq1=0.55, xd2=0.25, xq2=0.25, Td10=8.0, Td20=0.03, Tq10=0.4, Tq20=0.05, xl=0.2, ra=0.0)
        return d
    spec["devices"].append(machine("M1", 3, 200, s["g1"], s["u1"]))
    if s["g2"] > 0:
        spec["devices"].append(machine("M2", 3, 200, s["g2"], s["u2"]))
    dg = s.get("dg", 0)
    spec["devices"].append(machine("MS", 1, 100, 10 - dg, s["us"]))
    if dg:
        spec["devices"].append(dict(model="PVD1", idx="DGS", bus=1, gen=100, Sn=100.0, pqflag=0, gammap=dg / 10.0, gammaq=dg / 10.0,
                                    fn=60.0, qmx=9.0, qmn=-9.0, pmx=9.0, ialim=99.0))
    ss, ids, ok = netbuild.build(spec)
    if not ss.PFlow.run():
        return dict(sid=sc["sid"], skipped="pflow")
    on = [(s["g1"], s["u1"])] + ([(s["g2"], s["u2"])] if s["g2"] > 0 else [])
    tot = sum(g for g, u in on if u == 1)
    consistent = (tot == 10 or tot == 0)      # (the machine and the distributed generator on the slack always add up to one)
    ev = [observe_init(ss, consistent=consistent)]
    if not ev[0]["raised"] and ev[0]["test_ok"]:
        ev.extend(verdict_probes(ss))
    if not ev[0]["raised"]:
        ev.append(flat_run(ss, 0.5))
    return dict(sid=sc["sid"], ev=ev)


def task(sc):
    return stock(sc) if sc["kind"] == "stock" else handover(sc)
