"""
Independent readers of the two third-party case formats (C13 "one case in different formats is one system", C01 "every
supported input format"): MATPOWER ``.m`` and PSS/E ``.raw`` (revisions 32 / 33).  They share nothing with andes/io: plain
text parsing of the documented record layouts into a *physical* network

    net = dict(sbase, buses {number: dict(type, vm, va_deg, basekv)}, branches [dict(i, j, Yff, Yft, Ytf, Ytt, ys)],
               shunts {number: complex Y}, loads [dict(bus, p, q, ip, iq, yp, yq)], gens [dict(bus, pg, vs, ireg, on)],
               undecided [reasons], q_undecided {bus numbers})

and ``source_balance(net, V)`` evaluates the complex power balance of that network at the bus voltages V the library
reports for the file.  A reader that misreads a field consistently (which a round trip through the library's own writer
cannot see, and for PSS/E there is no writer at all) shows up as a mismatch at the buses the field touches.

Documented record layouts used (MATPOWER manual, appendix B; PSS/E 33 "Data formats", power-flow raw data file):
  mpc.bus    [bus_i type Pd Qd Gs Bs area Vm Va baseKV zone Vmax Vmin]
  mpc.gen    [bus Pg Qg Qmax Qmin Vg mBase status ...]
  mpc.branch [fbus tbus r x b rateA rateB rateC ratio angle status ...]   ratio 0 = 1
  raw bus    I,'NAME',BASKV,IDE,AREA,ZONE,OWNER,VM,VA
  raw load   I,ID,STATUS,AREA,ZONE,PL,QL,IP,IQ,YP,YQ        P = PL + IP v + YP v^2, Q = QL + IQ v - YQ v^2
  raw fixed shunt I,ID,STATUS,GL,BL                          MW / Mvar at 1 pu, BL > 0 capacitive
  raw generator   I,ID,PG,QG,QT,QB,VS,IREG,MBASE,ZR,ZX,RT,XT,GTAP,STAT
  raw branch      I,J,CKT,R,X,B,RATEA,RATEB,RATEC,GI,BI,GJ,BJ,ST     (J may carry a minus sign: metered end)
  raw 2-winding transformer (K = 0), 4 lines: I,J,K,CKT,CW,CZ,CM,MAG1,MAG2,NMETR,NAME,STAT / R1-2,X1-2,SBASE1-2 /
      WINDV1,NOMV1,ANG1,... / WINDV2,NOMV2          bus I - ideal t1 e^{j ANG1} : 1 - Z - 1 : t2 ideal - bus J, Ymag at bus I
"""
import cmath
import math
import re

import numpy as np


def _matrix(text, name):
    m = re.search(r"mpc\.%s\s*=\s*\[(.*?)\];" % name, text, re.S)
    if not m:
        return []
    rows = []
    for ln in m.group(1).splitlines():
        ln = ln.split("%")[0].strip().rstrip(";").strip()
        if not ln:
            continue
        rows.append([float(x.replace("Inf", "inf")) for x in re.split(r"[\s,]+", ln) if x])
    return rows


def _pi(i, j, ys, yh, yk, t, ang):
    """two-port of a branch with an ideal transformer t e^{j ang} on the i side, shunts yh (i side, behind the tap) and yk (j side)"""
    return dict(i=i, j=j, Yff=(ys + yh) / t ** 2, Yft=-ys / (t * cmath.exp(-1j * ang)), Ytf=-ys / (t * cmath.exp(1j * ang)),
                Ytt=ys + yk, ys=ys, t=t, ang=ang)


def read_matpower(path):
    text = open(path).read()
    m = re.search(r"mpc\.baseMVA\s*=\s*([0-9.eE+-]+)", text)
    sb = float(m.group(1))
    net = dict(sbase=sb, buses={}, branches=[], shunts={}, loads=[], gens=[], undecided=[], q_undecided=set(), fmt="matpower")
    for r in _matrix(text, "bus"):
        n = int(r[0])
        net["buses"][n] = dict(type=int(r[1]), vm=r[7], va_deg=r[8], basekv=r[9])
        if r[2] != 0 or r[3] != 0:
            net["loads"].append(dict(bus=n, p=r[2] / sb, q=r[3] / sb, ip=0.0, iq=0.0, yp=0.0, yq=0.0))
        if r[4] != 0 or r[5] != 0:
            net["shunts"][n] = net["shunts"].get(n, 0j) + complex(r[4], r[5]) / sb
    for r in _matrix(text, "gen"):
        net["gens"].append(dict(bus=int(r[0]), pg=r[1] / sb, vs=r[5], ireg=0, on=r[7] > 0, qmax=r[3] / sb, qmin=r[4] / sb))
    for r in _matrix(text, "branch"):
        if r[10] <= 0:
            continue
        z = complex(r[2], r[3])
        if abs(z) < 1e-9:
            net["undecided"].append("zero-impedance branch %d-%d" % (r[0], r[1]))
            continue
        t = r[8] if r[8] != 0 else 1.0
        net["branches"].append(_pi(int(r[0]), int(r[1]), 1 / z, 0.5j * r[4], 0.5j * r[4], t, math.radians(r[9])))
    return net


def _fields(ln):
    ln = ln.split("/")[0]
    out = []
    for tok in re.findall(r"'[^']*'|[^,]+", ln):
        tok = tok.strip()
        if tok:
            out.append(tok)
    return out


def _num(tok, default=0.0):
    try:
        return float(tok)
    except (ValueError, TypeError):
        return default


RAW_SECTIONS = ["bus", "load", "fixed shunt", "generator", "branch", "transformer", "area", "two-terminal dc", "vsc dc",
                "impedance correction", "multi-terminal dc", "multi-section", "zone", "inter-area", "owner", "facts",
                "switched shunt", "gne"]


def read_raw(path):
    lines = open(path, errors="replace").read().splitlines()
    head = _fields(lines[0])
    sb = _num(head[1], 100.0)
    rev = int(_num(head[2], 33)) if len(head) > 2 else 33
    net = dict(sbase=sb, buses={}, branches=[], shunts={}, loads=[], gens=[], undecided=[], q_undecided=set(), fmt="raw%d" % rev)
    if rev not in (32, 33):
        net["undecided"].append("revision %d" % rev)
        return net
    sec = 0
    k = 3
    recs = {s: [] for s in RAW_SECTIONS}
    while k < len(lines):
        ln = lines[k]
        st = ln.strip()
        if st.startswith("Q") and len(st) <= 2:
            break
        if re.match(r"^\s*0\s*(/|$)", ln):
            sec += 1
            k += 1
            if sec >= len(RAW_SECTIONS):
                break
            continue
        name = RAW_SECTIONS[sec]
        if name == "transformer":
            f = _fields(ln)
            nl = 4 if int(_num(f[2])) == 0 else 5
            recs[name].append([_fields(x) for x in lines[k:k + nl]])
            k += nl
            continue
        recs[name].append(_fields(ln))
        k += 1
    for f in recs["bus"]:
        net["buses"][int(_num(f[0]))] = dict(type=int(_num(f[3])), vm=_num(f[7], 1.0), va_deg=_num(f[8]), basekv=_num(f[2]))
    for f in recs["load"]:
        if int(_num(f[2])) != 1:
            continue
        net["loads"].append(dict(bus=int(_num(f[0])), p=_num(f[5]) / sb, q=_num(f[6]) / sb, ip=_num(f[7]) / sb, iq=_num(f[8]) / sb,
                                 yp=_num(f[9]) / sb, yq=_num(f[10]) / sb))
    for f in recs["fixed shunt"]:
        if int(_num(f[2])) != 1:
            continue
        n = int(_num(f[0]))
        net["shunts"][n] = net["shunts"].get(n, 0j) + complex(_num(f[3]), _num(f[4])) / sb
    for f in recs["generator"]:
        net["gens"].append(dict(bus=int(_num(f[0])), pg=_num(f[2]) / sb, vs=_num(f[6], 1.0), ireg=int(_num(f[7])), on=int(_num(f[14], 1)) == 1,
                                qmax=_num(f[4]) / sb, qmin=_num(f[5]) / sb))
    for f in recs["branch"]:
        if int(_num(f[13], 1)) != 1:
            continue
        z = complex(_num(f[3]), _num(f[4]))
        if abs(z) < 1e-9:
            net["undecided"].append("zero-impedance branch %s-%s" % (f[0], f[1]))
            continue
        b = _num(f[5])
        net["branches"].append(_pi(int(_num(f[0])), abs(int(_num(f[1]))), 1 / z, complex(_num(f[9]), _num(f[10]) + b / 2),
                                   complex(_num(f[11]), _num(f[12]) + b / 2), 1.0, 0.0))
    for rec in recs["transformer"]:
        f1 = rec[0]
        i, j, kk = int(_num(f1[0])), int(_num(f1[1])), int(_num(f1[2]))
        stat = int(_num(f1[11], 1))
        if kk != 0:
            # star equivalent: Z1 = (Z12 + Z31 - Z23) / 2 ...; each winding k: bus k - t_k e^{j ANG_k} : 1 - Z_k - star point
            cw, cz, cm = int(_num(f1[4], 1)), int(_num(f1[5], 1)), int(_num(f1[6], 1))
            if stat != 1:
                if stat != 0:
                    net["undecided"].append("three-winding transformer %d-%d-%d with one winding out of service" % (i, j, kk))
                continue
            z12, z23, z31 = complex(_num(rec[1][0]), _num(rec[1][1])), complex(_num(rec[1][3]), _num(rec[1][4])), complex(_num(rec[1][6]), _num(rec[1][7]))
            ok3 = cw == 1 and cz == 1 and cm == 1
            legs = []
            for q, (bus, z) in enumerate(((i, (z12 + z31 - z23) / 2), (j, (z12 + z23 - z31) / 2), (kk, (z23 + z31 - z12) / 2))):
                w, nom, ang = _num(rec[2 + q][0], 1.0), _num(rec[2 + q][1]), _num(rec[2 + q][2])
                if nom not in (0.0, net["buses"][bus]["basekv"]) or abs(z) < 1e-9:
                    ok3 = False
                legs.append(dict(bus=bus, a=w * cmath.exp(1j * math.radians(ang)), z=z))
            if not ok3:
                net["undecided"].append("three-winding transformer %d-%d-%d with CW=%d CZ=%d CM=%d or off-base windings" % (i, j, kk, cw, cz, cm))
                continue
            net.setdefault("stars", []).append(dict(legs=legs, ymag=complex(_num(f1[7]), _num(f1[8]))))
            continue
        if stat != 1:
            continue
        cw, cz, cm = int(_num(f1[4], 1)), int(_num(f1[5], 1)), int(_num(f1[6], 1))
        r12, x12, sb12 = _num(rec[1][0]), _num(rec[1][1]), _num(rec[1][2], sb)
        w1, nom1, ang1 = _num(rec[2][0], 1.0), _num(rec[2][1]), _num(rec[2][2])
        w2, nom2 = _num(rec[3][0], 1.0), (_num(rec[3][1]) if len(rec[3]) > 1 else 0.0)
        kv1, kv2 = net["buses"][i]["basekv"], net["buses"][j]["basekv"]
        if cz not in (1, 2) or (cm != 1 and (_num(f1[7]) != 0 or _num(f1[8]) != 0)):
            net["undecided"].append("transformer %d-%d with CZ=%d CM=%d" % (i, j, cz, cm))
            continue
        if cw == 1:
            t1, t2 = w1, w2
        elif cw == 2:
            t1, t2 = w1 / kv1, w2 / kv2
        elif cw == 3:
            t1, t2 = w1 * (nom1 or kv1) / kv1, w2 * (nom2 or kv2) / kv2
        else:
            net["undecided"].append("transformer %d-%d with CW=%d" % (i, j, cw))
            continue
        z = complex(r12, x12)
        if cz == 2:
            # on the winding bases: SBASE1-2 and the winding-1 nominal voltage (bus base when NOMV1 = 0)
            vw = nom1 if nom1 else kv1
            z = z * (sb / sb12) * (vw / kv1) ** 2 if cw != 3 else z * (sb / sb12)
            if cw == 3 or nom1 not in (0.0, kv1):
                net["undecided"].append("transformer %d-%d on a winding voltage base different from the bus base" % (i, j))
                continue
        if abs(z) < 1e-9:
            net["undecided"].append("zero-impedance transformer %d-%d" % (i, j))
            continue
        ymag = complex(_num(f1[7]), _num(f1[8]))
        # bus i - t1 e^{j ang} : 1 - z - 1 : t2 - bus j   ==  tap t1/t2 on the i side with z referred by t2^2
        t = t1 / t2
        zeff = z * t2 ** 2
        br = _pi(i, j, 1 / zeff, 0j, 0j, t, math.radians(ang1))
        br["Yff"] += ymag
        net["branches"].append(br)
    for f in recs["switched shunt"]:
        n = int(_num(f[0]))
        if int(_num(f[3], 1)) == 1:
            net["q_undecided"].add(n)       # the susceptance in service depends on the library's switching during the power flow
    for name in ("two-terminal dc", "vsc dc", "multi-terminal dc", "facts", "gne", "multi-section"):
        if recs[name]:
            net["undecided"].append("%d %s record(s)" % (len(recs[name]), name))
    return net


def source_balance(net, V, tol=1e-6):
    """V: {bus number: complex voltage}.  Returns dict(bad = [...], checked = number of scalar equations, worst, undecided)."""
    buses = net["buses"]
    S = {n: 0j for n in buses}
    reg = {n: 0.0 for n in buses}
    live = {n for n, b in buses.items() if b["type"] != 4 and n in V}
    for br in net["branches"]:
        i, j = br["i"], br["j"]
        if i not in live or j not in live:
            continue
        Vi, Vj = V[i], V[j]
        S[i] += Vi * np.conj(br["Yff"] * Vi + br["Yft"] * Vj)
        S[j] += Vj * np.conj(br["Ytf"] * Vi + br["Ytt"] * Vj)
        dv = abs(Vi / (br["t"] * cmath.exp(1j * br["ang"])) - Vj)
        reg[i] += 1.5e-8 * abs(br["ys"]) ** 2 * dv * abs(Vi) / br["t"]
        reg[j] += 1.5e-8 * abs(br["ys"]) ** 2 * dv * abs(Vj)
    for st in net.get("stars", []):
        legs = st["legs"]
        if any(lg["bus"] not in live for lg in legs):
            continue
        vs_ = sum(V[lg["bus"]] / lg["a"] / lg["z"] for lg in legs) / sum(1 / lg["z"] for lg in legs)     # zero injection at the star point
        for lg in legs:
            cur = (V[lg["bus"]] / lg["a"] - vs_) / lg["z"] / np.conj(lg["a"])
            S[lg["bus"]] += V[lg["bus"]] * np.conj(cur)
            reg[lg["bus"]] += 1.5e-8 / abs(lg["z"]) ** 2 * abs(V[lg["bus"]] / lg["a"] - vs_) * abs(V[lg["bus"]])
        b0 = legs[0]["bus"]
        S[b0] += V[b0] * np.conj(st["ymag"] * V[b0])
    for n, y in net["shunts"].items():
        if n in live:
            S[n] += V[n] * np.conj(y * V[n])
    zip_buses = set()
    for ld in net["loads"]:
        n = ld["bus"]
        if n not in live:
            continue
        v = abs(V[n])
        S[n] += complex(ld["p"] + ld["ip"] * v + ld["yp"] * v * v, ld["q"] + ld["iq"] * v - ld["yq"] * v * v)
        if ld["ip"] or ld["iq"] or ld["yp"] or ld["yq"]:
            zip_buses.add(n)
        if not (0.85 <= v <= 1.15):
            zip_buses.add(n)             # the library documents that a constant-power load becomes an impedance outside its voltage band
    pg = {}
    vs = {}
    for g in net["gens"]:
        if g["on"] and g["bus"] in live:
            pg[g["bus"]] = pg.get(g["bus"], 0.0) + g["pg"]
            if g["ireg"] in (0, g["bus"]):
                vs[g["bus"]] = g["vs"]
    bad, checked, worst = [], 0, 0.0
    for n in sorted(live):
        t = buses[n]["type"]
        lim = 3 * tol + 3 * reg[n]
        if n in zip_buses:
            continue                         # the library documents the conversion of ZIP parts to constant power at the file voltage
        has_gen = n in pg
        if t == 3:
            if n in vs:
                checked += 1
                if abs(abs(V[n]) - vs[n]) > 10 * tol:
                    bad.append(dict(bus=n, what="slack voltage %.6f, scheduled %.6f" % (abs(V[n]), vs[n])))
            continue
        dP = S[n].real - pg.get(n, 0.0)
        checked += 1
        worst = max(worst, abs(dP))
        if abs(dP) > lim:
            bad.append(dict(bus=n, what="active power mismatch %.3e (limit %.1e)" % (dP, lim)))
        if t == 2 and has_gen:
            if n in vs:
                checked += 1
                if abs(abs(V[n]) - vs[n]) > 10 * tol:
                    bad.append(dict(bus=n, what="regulated voltage %.6f, scheduled %.6f" % (abs(V[n]), vs[n])))
            continue
        if has_gen or n in net["q_undecided"]:
            continue
        dQ = S[n].imag
        checked += 1
        worst = max(worst, abs(dQ))
        if abs(dQ) > lim:
            bad.append(dict(bus=n, what="reactive power mismatch %.3e (limit %.1e)" % (dQ, lim)))
    return dict(bad=bad, checked=checked, worst=worst, undecided=list(net["undecided"]), zip_buses=len(zip_buses))


def compare_generators(ss, net):
    """Reactive limits of the generators, bus by bus, against the source records (an unbounded limit may be stored as any
    finite number of at least 1e6 per unit with the sign of the source)."""
    bad = []
    src = {}
    for g in net["gens"]:
        src.setdefault(g["bus"], []).append((g["qmax"], g["qmin"]))
    got = {}
    for mdl in ss.StaticGen.models.values():
        for k in range(mdl.n):
            got.setdefault(mdl.bus.v[k], []).append((float(mdl.qmax.v[k]), float(mdl.qmin.v[k])))

    def same(a, b):
        if math.isinf(a):
            return abs(b) >= 1e6 and (b > 0) == (a > 0)
        return abs(a - b) <= 1e-9 * max(1.0, abs(a))
    for bus, lst in src.items():
        have = sorted(got.get(bus, []))
        want = sorted((min(a, 1e300), max(b, -1e300)) for a, b in lst)
        if len(have) != len(want) or not all(same(w[0], h[0]) and same(w[1], h[1]) for w, h in zip(sorted(lst), have)):
            bad.append(dict(bus=bus, what="reactive limits (qmax, qmin) %s, the file has %s" % (have[:3], sorted(lst)[:3])))
    return bad


def read_source(path):
    return read_matpower(path) if path.endswith(".m") else read_raw(path)


# ---------------------------------------------------------------------------------------------------------------------
# variants of a raw file that exercise fields the stock files leave at their defaults (written by plain text editing)
# ---------------------------------------------------------------------------------------------------------------------
def _sections(lines):
    """[(name, first line index, one-past-last line index)] of the data sections of a revision 32 / 33 file"""
    out = []
    sec, start, k = 0, 3, 3
    while k < len(lines):
        if re.match(r"^\s*0\s*(/|$)", lines[k]):
            out.append((RAW_SECTIONS[sec], start, k))
            sec += 1
            start = k + 1
            if sec >= len(RAW_SECTIONS):
                break
        elif lines[k].strip().startswith("Q") and len(lines[k].strip()) <= 2:
            break
        k += 1
    return out


VARIANT_KINDS = ("branch_end_shunts", "fixed_shunt", "xfmr_tap_angle_mag", "xfmr_kv_windings", "offline_branch", "offline_load",
                 "metered_end", "second_load", "xfmr3", "xfmr3_mag", "sbase")


def raw_variant(src, dst, kind, which=0):
    """Write ``dst`` as ``src`` with one documented feature put to use.  Returns a short description or None (not applicable)."""
    lines = open(src, errors="replace").read().splitlines()
    secs = {n: (a, b) for n, a, b in _sections(lines)}
    buses = {}
    a, b = secs["bus"]
    for k in range(a, b):
        f = _fields(lines[k])
        buses[int(_num(f[0]))] = dict(kv=_num(f[2]), type=int(_num(f[3])))

    def join(f):
        return ",".join(" " + x for x in f)
    if kind in ("branch_end_shunts", "offline_branch", "metered_end"):
        a, b = secs["branch"]
        if b - a < 3:
            return None
        k = a + which % (b - a)
        f = _fields(lines[k])
        if kind == "branch_end_shunts":
            f[9], f[10], f[11], f[12] = "0.0150", "0.0420", "0.0070", "-0.0310"
            what = "branch %s-%s with GI, BI, GJ, BJ" % (f[0], f[1])
        elif kind == "offline_branch":
            # keep the network connected: only take out a branch that has a parallel one
            pairs = {}
            for q in range(a, b):
                g = _fields(lines[q])
                pairs.setdefault((g[0].strip(), g[1].strip().lstrip("-")), []).append(q)
            par = [v for v in pairs.values() if len(v) > 1]
            if not par:
                return None
            k = par[which % len(par)][0]
            f = _fields(lines[k])
            f[13] = "0"
            what = "branch %s-%s circuit %s out of service" % (f[0], f[1], f[2])
        else:
            f[1] = "-" + f[1].strip().lstrip("-")
            what = "branch %s-%s with the to bus entered as metered end (minus sign)" % (f[0], f[1])
        lines[k] = join(f)
    elif kind in ("fixed_shunt", "second_load", "offline_load"):
        pq = sorted(n for n, d in buses.items() if d["type"] == 1)
        if not pq:
            return None
        n = pq[which % len(pq)]
        if kind == "fixed_shunt":
            a, b = secs["fixed shunt"]
            lines.insert(b, "%6d,'9 ',1,   %9.3f,   %9.3f" % (n, 3.5, -12.25))
            what = "fixed shunt GL = 3.5 MW, BL = -12.25 Mvar (inductive) on bus %d" % n
        elif kind == "second_load":
            a, b = secs["load"]
            lines.insert(b, "%6d,'9 ',1,   1,   1,   %9.3f,   %9.3f,     0.000,     0.000,     0.000,     0.000,   1,1" % (n, 7.5, 2.25))
            what = "an additional load 7.5 MW + 2.25 Mvar on bus %d" % n
        else:
            a, b = secs["load"]
            if b - a < 2:
                return None
            k = a + which % (b - a)
            f = _fields(lines[k])
            f[2] = "0"
            lines[k] = join(f)
            what = "load %s on bus %s out of service" % (f[1], f[0])
    elif kind in ("xfmr_tap_angle_mag", "xfmr_kv_windings"):
        a, b = secs["transformer"]
        recs = []
        k = a
        while k < b:
            f = _fields(lines[k])
            nl = 4 if int(_num(f[2])) == 0 else 5
            if nl == 4 and int(_num(f[4], 1)) == 1 and int(_num(f[5], 1)) == 1 and int(_num(f[6], 1)) == 1:
                recs.append(k)
            k += nl
        if not recs:
            return None
        k = recs[which % len(recs)]
        f1, f3, f4 = _fields(lines[k]), _fields(lines[k + 2]), _fields(lines[k + 3])
        i, j = int(_num(f1[0])), int(_num(f1[1]))
        if kind == "xfmr_tap_angle_mag":
            f1[7], f1[8] = "0.00200", "-0.01500"
            f3[0], f3[2] = "1.02500", "3.000"
            f4[0] = "0.98000"
            what = "transformer %d-%d with WINDV1 = 1.025, WINDV2 = 0.98, ANG1 = 3 deg, MAG1 = 0.002, MAG2 = -0.015" % (i, j)
        else:
            f1[4] = "2"
            f3[0] = "%.5f" % (1.025 * buses[i]["kv"])
            f4[0] = "%.5f" % (0.98 * buses[j]["kv"])
            what = "transformer %d-%d with winding voltages in kV (CW = 2): %s / %s" % (i, j, f3[0], f4[0])
        lines[k], lines[k + 2], lines[k + 3] = join(f1), join(f3), join(f4)
    elif kind == "sbase":
        # the same records read on another system MVA base: a different (stiffer) network, every per-unit entry is reinterpreted
        f = lines[0].split(",")
        f[1] = "   250.00"
        lines[0] = ",".join(f)
        what = "system base 250 MVA in the header"
    elif kind in ("xfmr3", "xfmr3_mag"):
        a, b = secs["transformer"]
        k = a
        at = None
        while k < b:
            f = _fields(lines[k])
            nl = 4 if int(_num(f[2])) == 0 else 5
            if nl == 5:
                at = k
                break
            k += nl
        if at is None:
            return None
        f1, f2 = _fields(lines[at]), _fields(lines[at + 1])
        f2[0], f2[1], f2[3], f2[4], f2[6], f2[7] = "0.01000", "0.10000", "0.01500", "0.12000", "0.01200", "0.15000"
        w = [_fields(lines[at + 2 + q]) for q in range(3)]
        w[0][0], w[1][0], w[2][0] = "1.02000", "0.99000", "1.00000"
        w[1][2] = "2.000"
        what = "three-winding transformer %s-%s-%s with distinct impedances, turns ratios 1.02 / 0.99 / 1.0 and ANG2 = 2 deg" % (f1[0], f1[1], f1[2])
        if kind == "xfmr3_mag":
            f1[7], f1[8] = "0.00300", "-0.02000"
            what += ", MAG1 = 0.003, MAG2 = -0.02"
        lines[at], lines[at + 1] = join(f1), join(f2)
        for q in range(3):
            lines[at + 2 + q] = join(w[q])
    else:
        return None
    open(dst, "w").write("\n".join(lines) + "\n")
    return what


# ---------------------------------------------------------------------------------------------------------------------
# generated MATPOWER files (written here, independently of andes/io/matpower.py) that use the documented columns
# ---------------------------------------------------------------------------------------------------------------------
def write_matpower(path, seed, base_mva=100.0):
    """A small meshed network with off-nominal ratios, phase shifters, bus shunts, out-of-service branches and generators,
    two generators on one bus.  Returns a description."""
    import random
    rnd = random.Random(seed)
    n = rnd.choice([5, 6, 7])
    pv = set(rnd.sample(range(2, n + 1), 2))
    bus, gen, br = [], [], []
    for i in range(1, n + 1):
        typ = 3 if i == 1 else (2 if i in pv else 1)
        pd, qd = (0.0, 0.0) if i == 1 else (rnd.choice([20.0, 35.0, 50.0]), rnd.choice([5.0, 10.0, -4.0]))
        gs, bs = rnd.choice([(0.0, 0.0), (0.0, 19.0), (1.5, -6.0)])
        bus.append([i, typ, pd, qd, gs, bs, 1, 1.0, 0.0, 230.0, 1, 1.1, 0.9])
    gen.append([1, 50.0, 0.0, float("inf"), float("-inf"), 1.03, base_mva, 1, 250.0, 10.0])     # no reactive limits
    for k, i in enumerate(sorted(pv)):
        gen.append([i, rnd.choice([30.0, 45.0]), 0.0, 300.0, -300.0, rnd.choice([1.01, 1.02]), base_mva, 1, 250.0, 10.0])
        if k == 0:
            gen.append([i, 12.5, 0.0, 300.0, -300.0, gen[-1][5], base_mva, 1, 250.0, 10.0])      # a second unit on the same bus
        else:
            gen.append([i, 80.0, 0.0, 300.0, -300.0, gen[-1][5], base_mva, 0, 250.0, 10.0])      # a unit out of service
    edges = [(i, i + 1) for i in range(1, n)] + [(n, 1), (1, 3), (2, n)]
    for k, (a, b) in enumerate(edges):
        ratio, ang = rnd.choice([(0.0, 0.0), (0.0, 0.0), (1.0, 0.0), (0.975, 0.0), (1.05, 0.0), (1.0, 4.0), (0.98, -3.0)])
        br.append([a, b, rnd.choice([0.01, 0.02, 0.004]), rnd.choice([0.08, 0.12, 0.05]), rnd.choice([0.0, 0.04, 0.09]), 250, 250, 250,
                   ratio, ang, 1, -360, 360])
    br.append([1, 2, 0.01, 0.09, 0.03, 250, 250, 250, 0.0, 0.0, 1, -360, 360])                  # a parallel circuit
    br.append([2, 4, 0.02, 0.10, 0.02, 250, 250, 250, 0.0, 0.0, 0, -360, 360])                  # out of service

    def mat(name, rows):
        return "mpc.%s = [\n%s\n];\n" % (name, "\n".join("\t" + "\t".join(("%g" % x).replace("inf", "Inf") for x in r) + ";" for r in rows))
    text = "function mpc = gen%d\nmpc.version = '2';\nmpc.baseMVA = %g;\n%s%s%s" % (seed, base_mva, mat("bus", bus), mat("gen", gen), mat("branch", br))
    open(path, "w").write(text)
    return "generated MATPOWER case, seed %d, baseMVA %g: %d buses, ratios / phase shifts, bus shunts, a second unit and an out-of-service unit" % (
        seed, base_mva, n)


# ---------------------------------------------------------------------------------------------------------------------
# independent reading of the PSS/E dynamic data file (dyr): record = IBUS 'MODEL' ID  ICONs...  CONs... /
# layouts transcribed from the PSS/E model library documentation (CON order); the third column of an entry names the
# parameter of the library's model that must carry the value, with the documented conversion (M = 2 H)
# ---------------------------------------------------------------------------------------------------------------------
def _same(name):
    return (name, None)


DYR_LAYOUT = {
    # model: (kind, number of ICONs, [(library parameter, conversion)] in CON order; None = not compared)
    "GENCLS": ("syn", 0, [("M", 2.0), _same("D")]),
    "GENROU": ("syn", 0, [_same("Td10"), _same("Td20"), _same("Tq10"), _same("Tq20"), ("M", 2.0), _same("D"), _same("xd"), _same("xq"),
                          _same("xd1"), _same("xq1"), _same("xd2"), _same("xl"), _same("S10"), _same("S12")]),
    "TGOV1": ("gov", 0, [_same(x) for x in ("R", "T1", "VMAX", "VMIN", "T2", "T3", "Dt")]),
    "IEEEG1": ("gov", 2, [_same(x) for x in ("K", "T1", "T2", "T3", "UO", "UC", "PMAX", "PMIN", "T4", "K1", "K2", "T5", "K3", "K4", "T6", "K5",
                                             "K6", "T7", "K7", "K8")]),
    "HYGOV": ("gov", 0, [_same(x) for x in ("R", "r", "Tr", "Tf", "Tg", "VELM", "GMAX", "GMIN", "Tw", "At", "Dt", "qNL")]),
    "IEESGO": ("gov", 0, [_same(x) for x in ("T1", "T2", "T3", "T4", "T5", "T6", "K1", "K2", "K3", "PMAX", "PMIN")]),
    "SEXS": ("exc", 0, [_same(x) for x in ("TATB", "TB", "K", "TE", "EMIN", "EMAX")]),
    "EXST1": ("exc", 0, [_same(x) for x in ("TR", "VIMAX", "VIMIN", "TC", "TB", "KA", "TA", "VRMAX", "VRMIN", "KC", "KF", "TF")]),
    "EXDC2": ("exc", 0, [_same(x) for x in ("TR", "KA", "TA", "TB", "TC", "VRMAX", "VRMIN", "KE", "TE", "KF1", "TF1")] + [None] +
              [_same(x) for x in ("E1", "SE1", "E2", "SE2")]),
    "IEEEX1": ("exc", 0, [_same(x) for x in ("TR", "KA", "TA", "TB", "TC", "VRMAX", "VRMIN", "KE", "TE", "KF1", "TF1")] + [None] +
               [_same(x) for x in ("E1", "SE1", "E2", "SE2")]),
    "ESDC2A": ("exc", 0, [_same(x) for x in ("TR", "KA", "TA", "TB", "TC", "VRMAX", "VRMIN", "KE", "TE", "KF", "TF1")] + [None] +
               [_same(x) for x in ("E1", "SE1", "E2", "SE2")]),
    "ESST3A": ("exc", 0, [_same(x) for x in ("TR", "VIMAX", "VIMIN", "KM", "TC", "TB", "KA", "TA", "VRMAX", "VRMIN", "KG", "KP", "KI", "VBMAX",
                                             "KC", "XL", "VGMAX", "THETAP", "TM", "VMMAX", "VMMIN")]),
    "IEEEST": ("pss", ["MODE", "busr"], [_same(x) for x in ("A1", "A2", "A3", "A4", "A5", "A6", "T1", "T2", "T3", "T4", "T5", "T6", "KS", "LSMAX", "LSMIN",
                                             "VCU", "VCL")]),
    "ST2CUT": ("pss", ["MODE", "busr", "MODE2", "busr2"], [_same(x) for x in ("K1", "K2", "T1", "T2", "T3", "T4", "T5", "T6", "T7", "T8", "T9", "T10", "LSMAX", "LSMIN",
                                             "VCU", "VCL")]),
}


def read_dyr(path):
    """[(bus, model, id, [numbers after the id])] in file order"""
    text = open(path, errors="replace").read()
    out = []
    for chunk in text.split("/"):
        chunk = " ".join(chunk.split())
        m = re.match(r"^\s*(\d+)\s*'([^']+)'\s*(\S+)\s*(.*)$", chunk)
        if not m:
            continue
        vals = []
        for tok in m.group(4).replace(",", " ").split():
            try:
                vals.append(float(tok))
            except ValueError:
                vals.append(tok.strip("'"))
        out.append((int(m.group(1)), m.group(2).strip(), m.group(3).strip("'").strip(), vals))
    return out


def dyr_variant(src, dst):
    """Copy a dyr file, giving every stabiliser record input modes that use remote buses, with different buses for the two inputs
    of the dual-input model (the shipped files leave the remote buses at 0).  Returns a description or None."""
    text = open(src, errors="replace").read()
    chunks = text.split("/")
    buses = []
    for ch in chunks:
        m = re.match(r"^\s*(\d+)\s*'([^']+)'", " ".join(ch.split()))
        if m and int(m.group(1)) not in buses:
            buses.append(int(m.group(1)))
    if len(buses) < 3:
        return None
    n = 0
    for k, ch in enumerate(chunks):
        flat = " ".join(ch.split())
        m = re.match(r"^(\s*\d+\s*'(IEEEST|ST2CUT)'\s*\S+)\s+(.*)$", flat)
        if not m:
            continue
        toks = m.group(3).replace(",", " ").split()
        b1, b2 = buses[(n + 1) % len(buses)], buses[(n + 2) % len(buses)]
        if m.group(2) == "IEEEST":
            toks[0:2] = ["2", str(b1)]
        else:
            toks[0:4] = ["2", str(b1), "5", str(b2)]
        chunks[k] = "\n" + m.group(1) + " " + " ".join(toks) + " "
        n += 1
    if n == 0:
        return None
    open(dst, "w").write("/".join(chunks))
    return "%d stabiliser record(s) with remote input buses" % n


def compare_dyr(ss, path):
    """Each record of a model with a known layout must have exactly one device of that model in the library's system, attached
    (directly, through its exciter, or through its governor link) to the synchronous machine at (bus, id), carrying the values
    of the record.  Returns dict(checked, bad [...], skipped models)."""
    recs = read_dyr(path)
    bad, checked, skipped = [], 0, {}
    # machines by (bus, id): the static generator with that bus and subidx, then the SynGen device whose gen is that generator
    sg = {}
    for mdl in ss.StaticGen.models.values():
        for k in range(mdl.n):
            sub = mdl.subidx.v[k] if hasattr(mdl, "subidx") else None
            sg[(mdl.bus.v[k], str(sub).strip().split(".")[0])] = mdl.idx.v[k]
    syn = {}
    for mdl in ss.SynGen.models.values():
        for k in range(mdl.n):
            syn.setdefault(mdl.gen.v[k], []).append((mdl.class_name, mdl.idx.v[k]))
    used = {}
    for bus, model, gid, vals in recs:
        lay = DYR_LAYOUT.get(model)
        if lay is None or model not in ss.models:
            skipped[model] = skipped.get(model, 0) + 1
            continue
        kind, nicon, cons = lay
        gen = sg.get((bus, str(gid).split(".")[0]))
        machines = syn.get(gen, []) if gen is not None else []
        mdl = ss.models[model]
        target = None
        if kind == "syn":
            cand = [k for k in range(mdl.n) if mdl.gen.v[k] == gen]
        elif kind in ("gov", "exc"):
            midx = {i for _, i in machines}
            cand = [k for k in range(mdl.n) if mdl.syn.v[k] in midx]
        else:
            midx = {i for _, i in machines}
            avrs = set()
            for em in ss.Exciter.models.values():
                for k in range(em.n):
                    if em.syn.v[k] in midx:
                        avrs.add(em.idx.v[k])
            cand = [k for k in range(mdl.n) if mdl.avr.v[k] in avrs]
        cand = [k for k in cand if (model, k) not in used]
        if not cand:
            bad.append(dict(record="%d '%s' %s" % (bus, model, gid), what="no device of the model is attached to the machine at this bus / id"))
            continue
        target = cand[0]
        used[(model, target)] = True
        if isinstance(nicon, list):
            # integer constants in front of the CONs: input modes and remote buses (0 = none)
            for j, name in enumerate(nicon):
                p = getattr(mdl, name, None)
                if p is None or j >= len(vals):
                    continue
                got = p.v[target]
                want = vals[j]
                checked += 1
                if name.startswith("busr"):
                    ok = (got is None or (isinstance(got, float) and math.isnan(got))) if float(want) == 0 else (got is not None and str(got).split(".")[0] == str(int(want)))
                else:
                    ok = got is not None and float(got) == float(want)
                if not ok:
                    bad.append(dict(record="%d '%s' %s" % (bus, model, gid), what="%s = %r, the file has %r at ICON %d" % (name, got, want, j + 1)))
            nicon = len(nicon)
        cvals = vals[nicon:]
        for j, ent in enumerate(cons):
            if ent is None or j >= len(cvals):
                continue
            name, conv = ent
            p = getattr(mdl, name, None)
            if p is None:
                continue
            vin = getattr(p, "vin", None)
            got = float((vin if vin is not None and len(np.atleast_1d(vin)) == mdl.n else p.v)[target])
            want = float(cvals[j]) * (conv if conv else 1.0)
            checked += 1
            default_used = want == 0.0 and got != 0.0     # the library replaces values it does not accept (non_zero ...) by defaults
            if not default_used and abs(got - want) > 1e-9 * max(1.0, abs(want)):
                bad.append(dict(record="%d '%s' %s" % (bus, model, gid), what="%s = %r, the file has %r at CON %d" % (name, got, want, j + 1)))
    return dict(checked=checked, bad=bad, skipped=skipped, records=len(recs))
