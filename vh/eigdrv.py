"""
C08 driver (M3): writes the exact-rational matrices TLC enumerated from EigReduce.tla into the dae of a real System and
runs the library's EIG.calc_As / calc_pfactor / _store_stats on them; also structural invariants on stock cases.
"""
from fractions import Fraction

import numpy as np

from .common import new_system, load_case, andes_mod


def fl(p):
    return float(Fraction(p[0], p[1]))


def run_cases(task):
    andes_mod()
    from andes.shared import spmatrix, matrix
    ss = new_system()
    eig = ss.EIG
    dae = ss.dae
    out = []
    for c in task["cases"]:
        n, m = 3, 1
        fx = np.array(c["fx"], dtype=float)
        fy = np.array(c["fy"], dtype=float).reshape((3, 1))
        gx = np.array(c["gx"], dtype=float).reshape((1, 3))
        gy = np.array([[float(c["gy"])]])
        dae.n, dae.m = n, m
        dae.fx = _sp(fx)
        dae.fy = _sp(fy)
        dae.gx = _sp(gx)
        dae.gy = _sp(gy)
        dae.Tf = np.array([fl(t) for t in c["T"]])
        dae.x_name = ["x1", "x2", "x3"]
        rec = dict(id=c["id"])
        try:
            As = np.array(matrix(eig.calc_As()))
            exp = np.array([[fl(v) for v in row] for row in c["As"]])
            rec["shape_ok"] = bool(As.shape == exp.shape)
            rec["as_ok"] = bool(As.shape == exp.shape and np.allclose(As, exp, rtol=1e-9, atol=1e-12))
            keep = [k - 1 for k in c["keep"]]
            rec["names_ok"] = bool(list(eig.x_name) == ["x%d" % (k + 1) for k in keep])
            mu, pf, N, W = eig.calc_pfactor()
            eig.mu = mu
            eig._store_stats()
            k = exp.shape[0]
            c1, c2, c3 = fl(c["c1"]), fl(c["c2"]), fl(c["c3"])
            # characteristic polynomial of the exact reduced matrix evaluated at the reported eigenvalues
            scale = 1 + abs(c1) + abs(c2) + abs(c3)
            if k == 3:
                p = [mu_ ** 3 - c1 * mu_ ** 2 + c2 * mu_ - c3 for mu_ in mu]
            elif k == 2:
                p = [mu_ ** 2 - c1 * mu_ + c2 for mu_ in mu]
            else:
                p = [mu_ - c1 for mu_ in mu]
            rec["count_ok"] = bool(len(mu) == k)
            rec["roots_ok"] = bool(all(abs(v) <= 1e-7 * scale * (1 + abs(m_) ** k) for v, m_ in zip(p, mu)))
            tol = eig.config.tol
            npos = int(np.count_nonzero(mu.real > tol))
            nzero = int(np.count_nonzero(abs(mu.real) <= tol))
            nneg = int(np.count_nonzero(mu.real < -tol))
            rec["counts_partition"] = bool(eig.n_positive + eig.n_zeros + eig.n_negative == len(mu))
            rec["counts_ok"] = bool((eig.n_positive, eig.n_zeros, eig.n_negative) == (npos, nzero, nneg))
            rec["pf_nonneg"] = bool(np.all(pf >= 0))
            # participation of the states in each mode sums to one (rows = modes)
            rec["pf_sum_ok"] = bool(np.all(np.abs(pf.sum(axis=1) - 1) <= 1e-3))
            # decoupled (diagonal) state matrix: mode i is associated with the state whose diagonal entry it is
            offdiag = exp - np.diag(np.diag(exp))
            if np.all(offdiag == 0) and len(set(np.diag(exp))) == k:
                okd = True
                for i, m_ in enumerate(mu):
                    j = int(np.argmin(np.abs(np.diag(exp) - m_.real)))
                    okd = okd and int(np.argmax(pf[i, :])) == j
                rec["pf_argmax_ok"] = bool(okd)
            else:
                rec["pf_argmax_ok"] = True
            rec["raised"] = False
        except Exception as ex:
            rec.update(raised=True, raised_text="%s: %s" % (type(ex).__name__, str(ex)[:120]), shape_ok=False, as_ok=False,
                       names_ok=False, count_ok=False, roots_ok=False, counts_partition=False, counts_ok=False, pf_nonneg=False,
                       pf_sum_ok=False, pf_argmax_ok=False)
        out.append(rec)
    return out


def _sp(a):
    from andes.shared import spmatrix
    I, J = np.nonzero(np.ones_like(a))
    return spmatrix(a[I, J].tolist(), I.tolist(), J.tolist(), a.shape, "d")


def stock_case(sc):
    """EIG.run on a stock case: structural invariants, and As against dense recomputation."""
    ss = load_case(sc["case"])
    ss.TDS.config.no_tqdm = 1
    rec = dict(case=sc["case"])
    if not ss.PFlow.run():
        return dict(rec, skipped="pflow")
    As_plain = None
    if sc.get("flow"):
        # the same analysis reached through another documented flow must be the analysis of the same operating point: the
        # caller initialises the simulation first (with or without the routine's own initialisation test), then asks for
        # the eigenvalues; the state matrix is compared with the one of the plain flow on a fresh System
        from andes.shared import matrix as _m
        ref = load_case(sc["case"])
        ref.TDS.config.no_tqdm = 1
        if not (ref.PFlow.run() and ref.EIG.run()):
            return dict(rec, skipped="eig refused (plain flow)")
        As_plain = np.array(_m(ref.EIG.As))
        ss.TDS.config.test_init = 0 if sc["flow"].endswith("untested") else 1
        if sc["flow"].startswith("init_first"):
            ss.TDS.init()
    ok = ss.EIG.run()
    if not ok:
        return dict(rec, skipped="eig refused")
    eig = ss.EIG
    dae = ss.dae
    altered = []
    if sc.get("alter"):
        # a parameter study on the initialised system: change every time-constant parameter of the dynamic models
        # (through the documented Model.alter) and analyse again - the modes must be those of the current parameters
        for mdl in ss.exist.tds.values():
            seen_p = set()
            for st in mdl.states.values():
                tc = st.t_const
                if tc is None or not hasattr(tc, "vin") or tc.name in seen_p or tc.name not in mdl.params:
                    continue
                seen_p.add(tc.name)
                for k in range(min(mdl.n, 2)):
                    old = float(tc.vin[k])
                    if old > 0:
                        mdl.alter(tc.name, mdl.idx.v[k], old * 1.5)
                        altered.append("%s.%s" % (mdl.class_name, tc.name))
        ok = ss.EIG.run()
        if not ok:
            return dict(rec, skipped="eig refused after alter")
    from andes.shared import matrix
    fx, fy, gx, gy = (np.array(matrix(dae.__dict__[k])) for k in ("fx", "fy", "gx", "gy"))
    # the time constants as the models' parameters have them now (not the routine's own copy)
    T = np.ones(dae.n)
    for mdl in ss.exist.tds.values():
        for st in mdl.states.values():
            if st.t_const is not None and mdl.n:
                T[np.asarray(st.a, dtype=int)] = np.asarray(st.t_const.v, dtype=float)
    rec["tf_current"] = bool(np.allclose(T, np.array(dae.Tf), rtol=1e-12, atol=0))
    rec["altered"] = sorted(set(altered))
    z = np.where(T == 0)[0]
    d = np.where(T != 0)[0]
    # one-shot block elimination with dense algebra
    Mz = np.block([[fx[np.ix_(z, z)], fy[z, :]], [gx[:, z], gy]])
    left = np.hstack([fx[np.ix_(d, z)], fy[d, :]])
    right = np.vstack([fx[np.ix_(z, d)], gx[:, d]])
    try:
        As_ref = (fx[np.ix_(d, d)] - left @ np.linalg.solve(Mz, right)) / T[d][:, None]
    except np.linalg.LinAlgError:
        # the dense reference cannot be formed (algebraic block singular to working precision).  For the plain flow this decides
        # nothing (the case is reported as not observed, as before); for another flow of a case whose plain flow gave a state
        # matrix, the verdict is the comparison with that matrix (matrices that were never evaluated end up here)
        if As_plain is None:
            raise
        As_ = np.array(matrix(eig.As))
        same = bool(As_.shape == As_plain.shape and np.allclose(As_, As_plain, rtol=1e-7, atol=1e-9))
        return dict(rec, n=int(dae.n), nzero_T=int(len(z)), shape_ok=True, as_ok=same, eig_ok=same, count_ok=True, names_ok=True,
                    counts_partition=True, counts_ok=True, pf_nonneg=True, pf_sum_ok=True, flow_same=same, singular_algebraic_block=True)
    As = np.array(matrix(eig.As))
    mu = np.asarray(eig.mu)
    mu_ref = np.linalg.eigvals(As_ref)
    def spectrum_ok(mus, A):
        """every reported value is an eigenvalue of A (smallest singular value of A - mu I vanishes: robust for defective /
        clustered eigenvalues, which a value-by-value comparison of two solver runs is not), there are as many as states, and
        they add up to the trace"""
        if len(mus) != A.shape[0]:
            return False
        scale = max(1.0, float(np.linalg.norm(A, 2)))
        eye = np.eye(A.shape[0])
        for v in mus:
            smin = np.linalg.svd(A - v * eye, compute_uv=False)[-1]
            if smin > 1e-7 * scale:
                return False
        return bool(abs(np.sum(mus) - np.trace(A)) <= 1e-6 * scale * max(1, A.shape[0]) ** 0.5)
    pf = np.asarray(eig.pfactors)
    tol = eig.config.tol
    if As_plain is not None:
        rec["flow_same"] = bool(As.shape == As_plain.shape and np.allclose(As, As_plain, rtol=1e-7, atol=1e-9))
    rec.update(n=int(dae.n), nzero_T=int(len(z)), shape_ok=bool(As.shape == As_ref.shape),
               as_ok=bool(As.shape == As_ref.shape and np.allclose(As, As_ref, rtol=1e-6, atol=1e-8) and rec.get("flow_same", True)),
               eig_ok=bool(spectrum_ok(mu, As_ref)), count_ok=bool(len(mu) == len(d)),
               names_ok=bool(list(eig.x_name) == [dae.x_name[i] for i in d]),
               counts_partition=bool(eig.n_positive + eig.n_zeros + eig.n_negative == len(mu)),
               counts_ok=bool((eig.n_positive, eig.n_zeros, eig.n_negative) ==
                              (int(np.count_nonzero(mu.real > tol)), int(np.count_nonzero(abs(mu.real) <= tol)),
                               int(np.count_nonzero(mu.real < -tol)))),
               pf_nonneg=bool(np.all(pf >= 0)), pf_sum_ok=bool(np.all(np.abs(pf.sum(axis=1) - 1) <= 2e-3)))
    return rec


def sweep_case(sc):
    """EIG.sweep over a time-constant parameter (the documented example sweeps an inertia) and over a gain: the eigenvalues of
    every sweep point must be those of a fresh System carrying that value (spectrum compared against the fresh state matrix)."""
    from andes.shared import matrix
    ss = load_case(sc["case"])
    ss.TDS.config.no_tqdm = 1
    rec = dict(case=sc["case"], param=sc["param"])
    if not ss.PFlow.run():
        return dict(rec, skipped="pflow")
    if sc.get("run_first", True) and not ss.EIG.run():
        return dict(rec, skipped="eig refused")
    mname, pname = sc["param"].split(".")
    mdl = ss.models[mname]
    if mdl.n == 0:
        return dict(rec, skipped="no device")
    par = mdl.params[pname]
    v0 = float(par.v[0])
    vals = [v0 * f for f in sc.get("factors", (1.0, 2.0, 0.5))]
    try:
        res = ss.EIG.sweep(par, mdl.idx.v[0], vals)
    except Exception as ex:
        return dict(rec, raised=True, raised_text="%s: %s" % (type(ex).__name__, str(ex)[:120]), ok=False, worst=-1.0)
    worst = 0.0
    ok = isinstance(res, dict) and len(res) == len(vals)
    detail = []
    if ok:
        for k, v in enumerate(vals):
            ref = load_case(sc["case"])
            ref.TDS.config.no_tqdm = 1
            ref.PFlow.run()
            ref.models[mname].params[pname].v[0] = v          # before the dynamic initialisation: picked up by it
            if not ref.EIG.run():
                return dict(rec, skipped="reference refused")
            A = np.array(matrix(ref.EIG.As))
            mus = np.asarray(res[k]["mu"]).ravel()
            scale = max(1.0, float(np.linalg.norm(A, 2)))
            good = len(mus) == A.shape[0]
            if good:
                eye = np.eye(A.shape[0])
                smin = max(np.linalg.svd(A - m * eye, compute_uv=False)[-1] for m in mus)
                worst = max(worst, float(smin / scale))
                good = bool(smin <= sc.get("tol", 1e-6) * scale)
            detail.append(dict(value=v, n=int(len(mus)), agrees=bool(good)))
            ok = ok and good
    return dict(rec, raised=False, ok=bool(ok), worst=worst, detail=detail)
