"""
Thin runner around TLC: timeouts, scratch metadir, parsing of counts / violations /
coverage / printed JSON values.
"""
import json
import os
import re
import shutil
import subprocess
import time

from .common import SPEC, NCPU, scratch_dir

JAR = "/opt/veriftools/tla/tla2tools.jar"
DEPS = "/opt/veriftools/tla/CommunityModules-deps.jar"


class TLCResult(dict):
    __getattr__ = dict.get


def run_tlc(module, cfg=None, workers=None, timeout=900, env=None, simulate=None, depth=None,
            coverage=False, seed=None, deadlock=None, extra=None, cwd=None, dfs=False, heap="4g",
            cont=False):
    """
    Run TLC on ``spec/<module>.tla`` with ``spec/<cfg>`` and return a TLCResult.

    Keys: ok (no violation and exit 0), machinery_ok (TLC itself ran), generated, distinct,
    depth, violation {kind,name}, prints (list of python objects from PrintT(ToJson(..)) and raw
    strings), coverage {action: (distinct, taken)}, wall_s, out (text).
    """
    cwd = cwd or SPEC
    cfg = cfg or (module + ".cfg")
    meta = scratch_dir("tlc")
    workers = workers or NCPU
    if workers <= 2:
        java = ["java", "-XX:+UseSerialGC", "-XX:TieredStopAtLevel=1", "-Xmx" + heap]
    else:
        java = ["java", "-XX:+UseParallelGC", "-XX:ParallelGCThreads=%d" % max(2, min(8, workers // 2)), "-Xmx" + heap]
    if dfs:
        java.append("-Dtlc2.tool.queue.IStateQueue=StateDeque")
    cmd = java + ["-cp", JAR + ":" + DEPS, "tlc2.TLC", "-config", cfg, "-workers", str(workers), "-metadir", meta,
                  "-noGenerateSpecTE"]
    if simulate:
        cmd += ["-simulate", simulate]
    if depth:
        cmd += ["-depth", str(depth)]
    if coverage:
        cmd += ["-coverage", "1"]
    if seed is not None:
        cmd += ["-seed", str(seed)]
    if deadlock is False:
        cmd += ["-deadlock"]
    if cont:
        cmd += ["-continue"]
    if extra:
        cmd += list(extra)
    cmd.append(module)
    e = dict(os.environ)
    if env:
        e.update({k: str(v) for k, v in env.items()})
    t0 = time.time()
    try:
        p = subprocess.run(cmd, cwd=cwd, env=e, stdout=subprocess.PIPE, stderr=subprocess.STDOUT, timeout=timeout)
        out = p.stdout.decode(errors="replace")
        rc = p.returncode
        timed_out = False
    except subprocess.TimeoutExpired as ex:
        out = (ex.stdout or b"").decode(errors="replace")
        rc = -9
        timed_out = True
        subprocess.run(["pkill", "-f", meta], check=False)
    finally:
        shutil.rmtree(meta, ignore_errors=True)
    res = TLCResult(out=out, rc=rc, timed_out=timed_out, wall_s=time.time() - t0, cmd=" ".join(cmd))
    _parse(res)
    return res


_RE_COUNTS = re.compile(r"(\d+) states generated, (\d+) distinct states found, (\d+) states left on queue")
_RE_DEPTH = re.compile(r"The depth of the complete state graph search is (\d+)")
_RE_INV = re.compile(r"Error: Invariant (\S+) is violated")
_RE_PROP = re.compile(r"Error: Action property (\S+) is violated|Error: Temporal properties were violated")
_RE_COV = re.compile(r"^<(\w+) line (\d+), col \d+ to line \d+, col \d+ of module (\w+)>: (\d+):(\d+)", re.M)
_RE_SIM = re.compile(r"The number of states generated: (\d+)")


def _parse(res):
    out = res["out"]
    m = None
    for m in _RE_COUNTS.finditer(out):
        pass
    if m:
        res["generated"], res["distinct"], res["queue"] = int(m.group(1)), int(m.group(2)), int(m.group(3))
    else:
        res["generated"] = res["distinct"] = 0
    ms = _RE_SIM.search(out)
    if ms and not res["generated"]:
        res["generated"] = int(ms.group(1))
        res["distinct"] = int(ms.group(1))
    m = _RE_DEPTH.search(out)
    res["depth"] = int(m.group(1)) if m else None
    viol = None
    m = _RE_INV.search(out)
    if m:
        viol = {"kind": "invariant", "name": m.group(1)}
    else:
        m = _RE_PROP.search(out)
        if m:
            viol = {"kind": "property", "name": m.group(1) or "temporal"}
        elif "Error: Deadlock reached" in out:
            viol = {"kind": "deadlock", "name": "deadlock"}
        elif "Error: Assumption" in out:
            viol = {"kind": "assume", "name": "assume"}
    res["violation"] = viol
    finished = ("Model checking completed" in out) or ("Finished in" in out) or ("Progress: " in out and res["rc"] == 0)
    fatal = None
    for line in out.splitlines():
        if line.startswith("Error:") and not any(s in line for s in (
                "Invariant", "Action property", "Temporal properties", "Deadlock reached",
                "The behavior up to this point", "The following behavior", "Assumption")):
            fatal = line
            break
    res["fatal"] = fatal
    res["machinery_ok"] = (not res["timed_out"]) and fatal is None and (finished or viol is not None)
    res["ok"] = res["machinery_ok"] and viol is None
    cov = {}
    for m in _RE_COV.finditer(out):
        cov[m.group(1)] = (int(m.group(4)), int(m.group(5)))
    res["coverage"] = cov
    prints = []
    for line in out.splitlines():
        s = line.strip()
        if s.startswith('"') and s.endswith('"') and len(s) >= 2:
            try:
                inner = json.loads(s)
            except ValueError:
                continue
            try:
                prints.append(json.loads(inner))
            except ValueError:
                prints.append(inner)
    res["prints"] = prints
    if viol:
        i = out.find("Error:")
        res["trace_text"] = out[i:i + 20000]


def sany(module, cwd=None):
    cwd = cwd or SPEC
    p = subprocess.run(["java", "-cp", JAR + ":" + DEPS, "tla2sany.SANY", module + ".tla"], cwd=cwd,
                       stdout=subprocess.PIPE, stderr=subprocess.STDOUT, timeout=120)
    out = p.stdout.decode(errors="replace")
    ok = p.returncode == 0 and "error" not in out.lower().replace("errors: 0", "")
    return ok, out
